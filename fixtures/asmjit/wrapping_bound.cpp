// Positive example for R-NO-WRAPPING-BOUND-TEST (checks/C09.py): the rule must report exactly the first function.
#include <cstddef>
#include <cstring>
namespace fixture {
int write_wrapping(char* dst, size_t cap, size_t offset, const void* src, size_t size) {
  if (offset + size > cap) return 1;          // wraps for offset > SIZE_MAX - size
  memcpy(dst + offset, src, size);
  return 0;
}
int write_safe(char* dst, size_t cap, size_t offset, const void* src, size_t size) {
  if (offset > cap || cap - offset < size) return 1;
  memcpy(dst + offset, src, size);
  return 0;
}
}
