// Instantiates the forwarding members of ArenaVector<T> (member templates are only in the AST once they are used) and their Span<T>
// namesakes so that lib/forwarders.py can read the resolved bodies from /repo's current arenavector.h / span.h.
#include <asmjit/core.h>

namespace fixture {
size_t vector_forwarders(asmjit::ArenaVector<int>& v, int x) {
  return size_t(v.contains(x)) + v.index_of(x) + v.last_index_of(x);
}
size_t span_namesakes(asmjit::Span<int> s, int x) {
  return size_t(s.contains(x)) + s.index_of(x) + s.last_index_of(x);
}
}
