#!/usr/bin/env python3
"""Creates hand-written positive examples for the checker self-test (seeded/hand-*/): one-line source
mutations, each breaking exactly one rule instance. They are NOT claimed to pass the test suite; they only
show that a rule fires and names the mutated instance."""
import json, os, subprocess, tempfile, shutil, sys
REPO = "/repo"
OUT = os.path.join(os.path.dirname(os.path.dirname(os.path.abspath(__file__))), "seeded")
M = [
 ("hand-C06-sysv-order", "C06", "asmjit/x86/x86func.cpp", "cc.set_passed_order(RegGroup::kGp, kZdi, kZsi, kZdx, kZcx, 8, 9);", "cc.set_passed_order(RegGroup::kGp, kZsi, kZdi, kZdx, kZcx, 8, 9);", "SysV x86-64 argument registers rdi/rsi swapped"),
 ("hand-C06-win64-preserved", "C06", "asmjit/x86/x86func.cpp", "cc.set_preserved_regs(RegGroup::kVec, Support::bit_mask<RegMask>(6, 7, 8, 9, 10, 11, 12, 13, 14, 15));\n        break;\n      }\n\n      case CallConvId::kVectorCall", "cc.set_preserved_regs(RegGroup::kVec, Support::bit_mask<RegMask>(7, 8, 9, 10, 11, 12, 13, 14, 15));\n        break;\n      }\n\n      case CallConvId::kVectorCall", "Win64: xmm6 no longer callee-saved"),
 ("hand-C01-segment-prefix", "C01", "asmjit/x86/x86assembler.cpp", "0x64, // FS.", "0x65, // FS.", "segment override byte of FS changed"),
 ("hand-C01-dispatch-case", "C01", "asmjit/x86/x86assembler.cpp", "    case InstDB::kEncodingX86Op:\n      goto EmitX86Op;\n", "", "dispatch case of an encoding class removed"),
 ("hand-C17-range-guard", "C17", "asmjit/core/codewriter.cpp", "    value = uint64_t(offset64) & Support::lsb_mask<uint64_t>(bit_count);\n    if (value != uint64_t(offset64)) {\n      return false;\n    }\n", "    value = uint64_t(offset64) & Support::lsb_mask<uint64_t>(bit_count);\n", "64-bit unsigned offsets are truncated instead of refused"),
 ("hand-C04-reloc-init", "C04", "asmjit/core/assembler.cpp", "  re->_source_offset = offset();\n  re->_format.reset_to_simple_value(OffsetType::kUnsignedOffset, data_size);", "  re->_format.reset_to_simple_value(OffsetType::kUnsignedOffset, data_size);", "embed_label forgets the relocation's source offset"),
 ("hand-C15-discarded-error", "C15", "asmjit/core/codeholder.cpp", "  ASMJIT_PROPAGATE(_sections.reserve_additional(_arena));\n  ASMJIT_PROPAGATE(_sections_by_order.reserve_additional(_arena));", "  ASMJIT_PROPAGATE(_sections.reserve_additional(_arena));\n  (void)_sections_by_order.reserve_additional(_arena);", "reserve result discarded before an unchecked insert"),
 ("hand-C03-iterator", "C03", "asmjit/core/codeholder.cpp", "        err = make_error(Error::kInvalidDisplacement);\n        fixup->label_or_reloc_id = label_id;\n        it.next();\n        continue;", "        err = make_error(Error::kInvalidDisplacement);\n        fixup->label_or_reloc_id = label_id;\n        continue;", "bind_label: a failed patch no longer advances the iterator (falls into resolve path semantics changed)"),
 ("hand-C08-replay-branch", "C08", "asmjit/core/builder.cpp", "    else if (node_->is_align()) {\n      AlignNode* node = node_->as<AlignNode>();\n      err = dst->align(node->align_mode(), node->alignment());\n    }\n", "", "serialize_to no longer replays align nodes"),
 ("hand-C20-regname", "C20", "asmjit/x86/x86formatter.cpp", "\"eax\\0\"  \"ecx\\0\"  \"edx\\0\"  \"ebx\\0\"", "\"eax\\0\"  \"edx\\0\"  \"ecx\\0\"  \"ebx\\0\"", "ecx/edx names swapped in the register name table"),
 ("hand-C12-a64-flag", "C12", "asmjit/arm/a64instdb.cpp", None, None, "kInstFlagConsecutive removed from ld2"),
 ("hand-C11-unlocked-stat", "C11", "asmjit/core/jitallocator.cpp", "    JitAllocatorPrivateImpl* impl = static_cast<JitAllocatorPrivateImpl*>(_impl);\n    LockGuard guard(impl->lock);\n\n    size_t pool_count = impl->pool_count;", "    JitAllocatorPrivateImpl* impl = static_cast<JitAllocatorPrivateImpl*>(_impl);\n\n    size_t pool_count = impl->pool_count;", "statistics() reads pool counters without the lock"),
 ("hand-C13-range", "C13", "asmjit/x86/x86instdb.cpp", "  { Inst::kIdAadd         , Inst::kIdAxor          + 1 },", "  { Inst::kIdAadd         , Inst::kIdAxor          + 0 },", "first-letter range of 'a' shortened by one id"),
 ("hand-C16-container", "C16", "asmjit/core/codeholder.cpp", "  self->_relocations.reset();\n", "", "CodeHolder reset no longer resets _relocations"),
 ("hand-C09-inverse", "C09", "asmjit/core/jitallocator.cpp", "  pool->total_overhead_bytes -= sizeof(JitAllocatorBlock) + JitAllocator_bit_vector_size_to_byte_size(block->area_size()) * 2u;", "", "removeBlock forgets to subtract the block overhead"),
 ("hand-C14-done-on-failure", "C14", "asmjit/arm/a64assembler.cpp", "  reset_state();\n\n  writer.done(this);\n  return Error::kOk;", "  writer.done(this);\n  return Error::kOk;", "a64 success exit no longer clears the one-shot state"),
 ("hand-C10-overflow", "C10", "asmjit/core/codeholder.cpp", "      if (ASMJIT_UNLIKELY(of)) {\n        return make_error(Error::kTooLarge);\n      }\n    }\n  }\n\n  // Now we know", "    }\n  }\n\n  // Now we know", "flatten drops the add_overflow exit"),
 ("hand-C02-dispatch-index", "C02", "asmjit/arm/a64instdb.cpp", None, None, "encoding data index out of range"),
]
made = []
for (mid, prop, path, old, new, what) in M:
    tmp = tempfile.mkdtemp(prefix="verif-hand-")
    try:
        src = os.path.join(REPO, path)
        s = open(src).read()
        if mid == "hand-C12-a64-flag":
            import re
            m = re.search(r"(INST\(Ld2_v\s*,[^\n]*?)F\(Consecutive\)", s)
            if not m:
                print("skip", mid); continue
            s2 = s[:m.start()] + m.group(1) + "0" + " " * (len("F(Consecutive)") - 1) + s[m.end():]
        elif mid == "hand-C02-dispatch-index":
            import re
            m = re.search(r"const BaseRR baseRR\[(\d+)\] = \{\n(  \{[^\n]*\n)", s)
            if not m:
                print("skip", mid); continue
            # drop the first entry and shrink the array: the last row's index becomes out of range
            n = int(m.group(1))
            s2 = s[:m.start()] + "const BaseRR baseRR[%d] = {\n" % (n - 1) + s[m.end():]
            hp = os.path.join(REPO, "asmjit/arm/a64instdb_p.h")
        else:
            if s.count(old) != 1:
                print("skip (anchor count %d)" % s.count(old), mid); continue
            s2 = s.replace(old, new)
        a = os.path.join(tmp, "a", path); b = os.path.join(tmp, "b", path)
        os.makedirs(os.path.dirname(a)); os.makedirs(os.path.dirname(b))
        open(a, "w").write(s); open(b, "w").write(s2)
        diffs = [subprocess.run(["diff", "-u", "--label", "a/" + path, "--label", "b/" + path, a, b], stdout=subprocess.PIPE, text=True).stdout]
        if mid == "hand-C02-dispatch-index":
            h = open(hp).read()
            h2 = h.replace("extern const BaseRR baseRR[%d];" % n, "extern const BaseRR baseRR[%d];" % (n - 1))
            if h2 != h:
                pa = os.path.join(tmp, "a", "asmjit/arm/a64instdb_p.h"); pb = os.path.join(tmp, "b", "asmjit/arm/a64instdb_p.h")
                os.makedirs(os.path.dirname(pa), exist_ok=True); os.makedirs(os.path.dirname(pb), exist_ok=True)
                open(pa, "w").write(h); open(pb, "w").write(h2)
                diffs.append(subprocess.run(["diff", "-u", "--label", "a/asmjit/arm/a64instdb_p.h", "--label", "b/asmjit/arm/a64instdb_p.h", pa, pb], stdout=subprocess.PIPE, text=True).stdout)
        d = os.path.join(OUT, mid)
        os.makedirs(d, exist_ok=True)
        open(os.path.join(d, "patch.diff"), "w").write("".join(diffs))
        json.dump({"id": mid, "property": prop, "origin": "hand-written positive example for the checker self-test (one-line mutation; not claimed to pass the test suite)",
                   "needs_to_manifest": what}, open(os.path.join(d, "meta.json"), "w"), indent=1)
        made.append(mid)
    finally:
        shutil.rmtree(tmp, ignore_errors=True)
print(made)
