#!/bin/sh
# setup_cmd: build the libTooling front end (engine E1/E2) from /verif/tools with the installed clang/LLVM 14.
set -e
cd "$(dirname "$0")/.."
mkdir -p bin .cache evidence reports
SRC=tools/astfacts/astfacts.cc
OUT=bin/astfacts
if [ ! -x "$OUT" ] || [ "$SRC" -nt "$OUT" ]; then
  clang++ $(llvm-config-14 --cxxflags) -fno-rtti -O1 "$SRC" -o "$OUT" \
    /usr/lib/llvm-14/lib/libclang-cpp.so.14 /usr/lib/llvm-14/lib/libLLVM-14.so
fi
echo "astfacts built: $OUT"
