// asmjit-astfacts — engine E1/E2 of /verif (see DESIGN.md section 1).
//
// A libTooling front end that parses ONE translation unit of /repo with the real flags and
// writes a JSON fact file.  It decides nothing: all rules live in /verif/checks/*.py and
// read these facts.  What is dumped (each part on request):
//
//   --funcs  RE   for every function definition whose qualified name matches RE:
//                 the clang::CFG (setAllAlwaysAdd, no EH edges) with, per block, the ordered
//                 list of evaluated (sub-)expressions; and the expression trees with resolved
//                 callees, fields, declarations, constant-evaluated integers.
//   --tables RE   namespace-scope / static-member / function-static constant variables
//                 whose qualified name matches RE, evaluated by the compiler
//                 (VarDecl::evaluateValue -> APValue -> JSON).
//   --enums  RE   enumerations (enumerator names and values).
//   --records RE  classes: fields (name, type), bases, virtual methods and who overrides what.
//   --discards    every expression of type asmjit::Error whose value is discarded.
//   --globals     every variable with static storage defined in this unit (name, type, const?).
//   --constcasts  every const_cast / C-style cast that removes const from a pointee.
//
// Usage: astfacts [options] <file.cpp> -- <compiler flags>
#include "clang/AST/ASTConsumer.h"
#include "clang/AST/ParentMapContext.h"
#include "clang/AST/RecursiveASTVisitor.h"
#include "clang/Analysis/CFG.h"
#include "clang/Frontend/CompilerInstance.h"
#include "clang/Frontend/FrontendAction.h"
#include "clang/Lex/Lexer.h"
#include "clang/Tooling/CommonOptionsParser.h"
#include "clang/Tooling/Tooling.h"
#include "llvm/Support/CommandLine.h"
#include "llvm/Support/JSON.h"
#include "llvm/Support/Regex.h"
#include "llvm/Support/raw_ostream.h"
#include <map>
#include <set>
#include <string>
#include <vector>

using namespace clang;
using namespace clang::tooling;
namespace json = llvm::json;

static llvm::cl::OptionCategory Cat("astfacts");
static llvm::cl::opt<std::string> OptFuncs("funcs", llvm::cl::desc("regex of function qualified names"), llvm::cl::cat(Cat));
static llvm::cl::opt<std::string> OptFuncsCalling("funcs-calling", llvm::cl::desc("also dump functions whose body calls a callee whose qualified name matches this regex"), llvm::cl::cat(Cat));
static llvm::cl::opt<std::string> OptTables("tables", llvm::cl::desc("regex of constant variables to evaluate"), llvm::cl::cat(Cat));
static llvm::cl::opt<std::string> OptEnums("enums", llvm::cl::desc("regex of enums"), llvm::cl::cat(Cat));
static llvm::cl::opt<std::string> OptRecords("records", llvm::cl::desc("regex of classes"), llvm::cl::cat(Cat));
static llvm::cl::opt<bool> OptDiscards("discards", llvm::cl::desc("dump discarded asmjit::Error values"), llvm::cl::cat(Cat));
static llvm::cl::opt<bool> OptGlobals("globals", llvm::cl::desc("dump static-storage variables defined in the unit"), llvm::cl::cat(Cat));
static llvm::cl::opt<bool> OptConstCasts("constcasts", llvm::cl::desc("dump casts removing const"), llvm::cl::cat(Cat));
static llvm::cl::opt<bool> OptFuncIndex("funcindex", llvm::cl::desc("list all function definitions (name, file, lines)"), llvm::cl::cat(Cat));
static llvm::cl::opt<std::string> OptOut("o", llvm::cl::desc("output file (default stdout)"), llvm::cl::cat(Cat));
static llvm::cl::opt<unsigned> OptTextLimit("textlimit", llvm::cl::init(200), llvm::cl::cat(Cat));

namespace {

static bool matches(const std::string& re, const std::string& s) {
  if (re.empty()) return false;
  llvm::Regex R(re);
  return R.match(s);
}

// Expressions that are transparent for the rules: they are never emitted; references to
// them resolve to the first non-transparent descendant.
static const Stmt* skipTransparent(const Stmt* s) {
  for (;;) {
    if (!s) return s;
    if (auto e = dyn_cast<ParenExpr>(s)) { s = e->getSubExpr(); continue; }
    if (auto e = dyn_cast<ImplicitCastExpr>(s)) { s = e->getSubExpr(); continue; }
    if (auto e = dyn_cast<MaterializeTemporaryExpr>(s)) { s = e->getSubExpr(); continue; }
    if (auto e = dyn_cast<ExprWithCleanups>(s)) { s = e->getSubExpr(); continue; }
    if (auto e = dyn_cast<CXXBindTemporaryExpr>(s)) { s = e->getSubExpr(); continue; }
    if (auto e = dyn_cast<ConstantExpr>(s)) { s = e->getSubExpr(); continue; }
    if (auto e = dyn_cast<SubstNonTypeTemplateParmExpr>(s)) { s = e->getReplacement(); continue; }
    if (auto e = dyn_cast<CXXDefaultArgExpr>(s)) { s = e->getExpr(); continue; }
    if (auto e = dyn_cast<CXXDefaultInitExpr>(s)) { s = e->getExpr(); continue; }
    if (auto e = dyn_cast<FullExpr>(s)) { s = e->getSubExpr(); continue; }
    return s;
  }
}

struct Dumper {
  ASTContext& C;
  SourceManager& SM;
  PrintingPolicy PP;
  json::Object root;

  explicit Dumper(ASTContext& C) : C(C), SM(C.getSourceManager()), PP(C.getLangOpts()) {
    PP.SuppressTagKeyword = true;
    PP.Bool = true;
    PP.TerseOutput = true;
  }

  std::string fileOf(SourceLocation L) { return SM.getFilename(SM.getExpansionLoc(L)).str(); }
  unsigned lineOf(SourceLocation L) { return SM.getExpansionLineNumber(L); }
  unsigned colOf(SourceLocation L) { return SM.getExpansionColumnNumber(L); }
  unsigned spLineOf(SourceLocation L) { return SM.getSpellingLineNumber(L); }

  std::string macroOf(SourceLocation L) {
    if (!L.isMacroID()) return "";
    // outermost macro name at the expansion point
    SourceLocation cur = L;
    std::string name;
    while (cur.isMacroID()) {
      name = Lexer::getImmediateMacroName(cur, SM, C.getLangOpts()).str();
      cur = SM.getImmediateMacroCallerLoc(cur);
    }
    return name;
  }

  std::string textOf(const Stmt* s) {
    std::string buf;
    llvm::raw_string_ostream os(buf);
    s->printPretty(os, nullptr, PP);
    os.flush();
    for (auto& ch : buf) if (ch == '\n') ch = ' ';
    if (buf.size() > OptTextLimit) { buf.resize(OptTextLimit); buf += "…"; }
    return buf;
  }
  std::string typeOf(QualType t) { return t.getAsString(PP); }

  static std::string qname(const NamedDecl* d) {
    if (!d) return "";
    std::string s;
    llvm::raw_string_ostream os(s);
    d->printQualifiedName(os);
    os.flush();
    return s;
  }

  // ------------------------------------------------------------------ APValue -> JSON
  json::Value apvalue(const APValue& v, QualType t, unsigned depth = 0) {
    switch (v.getKind()) {
      case APValue::Int: {
        const llvm::APSInt& i = v.getInt();
        if (i.isSigned()) return json::Value((int64_t)i.getSExtValue());
        uint64_t u = i.getZExtValue();
        if (u <= (uint64_t)INT64_MAX) return json::Value((int64_t)u);
        // keep exact: as string for values above int64
        return json::Value(std::to_string(u));
      }
      case APValue::Float: {
        llvm::SmallString<32> s; v.getFloat().toString(s);
        return json::Value(std::string(s.str()));
      }
      case APValue::Array: {
        json::Array a;
        QualType et;
        if (auto at = C.getAsArrayType(t)) et = at->getElementType();
        unsigned n = v.getArraySize(), ni = v.getArrayInitializedElts();
        for (unsigned i = 0; i < n; i++) {
          const APValue& e = i < ni ? v.getArrayInitializedElt(i) : v.getArrayFiller();
          a.push_back(apvalue(e, et, depth + 1));
        }
        return json::Value(std::move(a));
      }
      case APValue::Struct: {
        json::Object o;
        const RecordDecl* rd = t->getAsRecordDecl();
        if (auto cx = dyn_cast_or_null<CXXRecordDecl>(rd)) {
          unsigned bi = 0;
          for (auto& b : cx->bases()) {
            json::Value bv = apvalue(v.getStructBase(bi++), b.getType(), depth + 1);
            if (auto bo = bv.getAsObject()) for (auto& kv : *bo) o[kv.first] = kv.second;
          }
        }
        if (rd) {
          unsigned fi = 0;
          for (auto f : rd->fields()) {
            std::string n = f->getNameAsString();
            if (n.empty()) n = "_anon" + std::to_string(fi);
            if (fi < v.getStructNumFields()) o[n] = apvalue(v.getStructField(fi), f->getType(), depth + 1);
            fi++;
          }
        }
        return json::Value(std::move(o));
      }
      case APValue::Union: {
        json::Object o;
        if (const FieldDecl* f = v.getUnionField()) o[f->getNameAsString()] = apvalue(v.getUnionValue(), f->getType(), depth + 1);
        return json::Value(std::move(o));
      }
      case APValue::LValue: {
        json::Object o;
        if (v.isNullPointer()) return json::Value(nullptr);
        auto base = v.getLValueBase();
        if (auto vd = base.dyn_cast<const ValueDecl*>()) {
          o["ptr"] = qname(vd);
        } else if (auto e = base.dyn_cast<const Expr*>()) {
          if (auto sl = dyn_cast<StringLiteral>(e->IgnoreParenImpCasts())) o["str"] = sl->getBytes().str();
          else o["ptr_expr"] = textOf(e);
        }
        o["off"] = (int64_t)v.getLValueOffset().getQuantity();
        return json::Value(std::move(o));
      }
      case APValue::None:
      case APValue::Indeterminate:
        return json::Value(nullptr);
      default:
        return json::Value("<unsupported-apvalue>");
    }
  }

  // ------------------------------------------------------------------ functions
  struct FnCtx {
    std::map<const Stmt*, unsigned> ids;
    std::map<const Decl*, unsigned> declIds;
    json::Object exprs;
    unsigned next = 1;
  };

  unsigned declId(FnCtx& fc, const Decl* d) {
    d = d->getCanonicalDecl();
    auto it = fc.declIds.find(d);
    if (it != fc.declIds.end()) return it->second;
    unsigned id = (unsigned)fc.declIds.size() + 1;
    fc.declIds[d] = id;
    return id;
  }

  unsigned idOf(FnCtx& fc, const Stmt* s) {
    s = skipTransparent(s);
    if (!s) return 0;
    auto it = fc.ids.find(s);
    if (it != fc.ids.end()) return it->second;
    return emitNode(fc, s);
  }

  void putConst(json::Object& o, const Expr* e) {
    if (!e || e->isValueDependent() || e->isTypeDependent()) return;
    QualType t = e->getType();
    if (t.isNull()) return;
    if (!(t->isIntegralOrEnumerationType())) return;
    if (!e->isPRValue() && !t.isConstQualified()) return;
    Expr::EvalResult R;
    if (e->EvaluateAsInt(R, C, Expr::SE_NoSideEffects)) {
      const llvm::APSInt& i = R.Val.getInt();
      if (i.isSigned() || i.getActiveBits() <= 63) o["cv"] = (int64_t)(i.isSigned() ? i.getSExtValue() : (int64_t)i.getZExtValue());
      else o["cv"] = std::to_string(i.getZExtValue());
      if (auto et = t->getAs<EnumType>()) {
        for (auto ec : et->getDecl()->enumerators())
          if (llvm::APSInt::isSameValue(ec->getInitVal(), i)) { o["cvn"] = ec->getNameAsString(); break; }
      }
    }
  }

  json::Array kids(FnCtx& fc, const Stmt* s) {
    json::Array a;
    for (const Stmt* c : s->children()) if (c) { unsigned id = idOf(fc, c); if (id) a.push_back((int64_t)id); }
    return a;
  }

  unsigned emitNode(FnCtx& fc, const Stmt* s) {
    unsigned id = fc.next++;
    fc.ids[s] = id;
    json::Object o;
    o["l"] = (int64_t)lineOf(s->getBeginLoc());
    if (s->getBeginLoc().isMacroID()) {
      o["m"] = macroOf(s->getBeginLoc());
    }
    if (auto e = dyn_cast<Expr>(s)) {
      o["t"] = textOf(s);
      if (!e->getType().isNull()) o["ty"] = typeOf(e->getType());
    }

    if (auto ce = dyn_cast<CallExpr>(s)) {
      o["k"] = isa<CXXOperatorCallExpr>(s) ? "opcall" : (isa<CXXMemberCallExpr>(s) ? "mcall" : "call");
      const FunctionDecl* fd = ce->getDirectCallee();
      if (fd) {
        o["callee"] = qname(fd);
        o["cn"] = fd->getNameAsString();
        if (auto md = dyn_cast<CXXMethodDecl>(fd)) {
          o["cls"] = qname(md->getParent());
          if (md->isVirtual()) o["virtual"] = true;
          if (md->isConst()) o["mconst"] = true;
          if (md->isStatic()) o["mstatic"] = true;
        }
        if (fd->isTemplateInstantiation()) {
          if (auto ta = fd->getTemplateSpecializationArgs()) {
            json::Array targs;
            for (auto& a : ta->asArray()) {
              std::string s2; llvm::raw_string_ostream os(s2); a.print(PP, os, true); os.flush();
              targs.push_back(s2);
            }
            o["targs"] = std::move(targs);
          }
        }
      } else {
        if (auto cal = ce->getCallee()) o["callee_expr"] = (int64_t)idOf(fc, cal);
        if (auto ule = dyn_cast<UnresolvedLookupExpr>(ce->getCallee()->IgnoreParenImpCasts())) o["cn"] = ule->getName().getAsString();
        if (auto ume = dyn_cast<UnresolvedMemberExpr>(ce->getCallee()->IgnoreParenImpCasts())) o["cn"] = ume->getMemberName().getAsString();
        if (auto dme = dyn_cast<CXXDependentScopeMemberExpr>(ce->getCallee()->IgnoreParenImpCasts())) o["cn"] = dme->getMember().getAsString();
      }
      if (auto mc = dyn_cast<CXXMemberCallExpr>(s)) {
        if (const Expr* obj = mc->getImplicitObjectArgument()) o["obj"] = (int64_t)idOf(fc, obj);
      }
      json::Array args;
      unsigned first = 0;
      if (auto oc = dyn_cast<CXXOperatorCallExpr>(s)) {
        o["op"] = getOperatorSpelling(oc->getOperator());
        // for member operators arg0 is the object
        if (fd && isa<CXXMethodDecl>(fd) && ce->getNumArgs() > 0) { o["obj"] = (int64_t)idOf(fc, ce->getArg(0)); first = 1; }
      }
      for (unsigned i = first; i < ce->getNumArgs(); i++) args.push_back((int64_t)idOf(fc, ce->getArg(i)));
      o["args"] = std::move(args);
      putConst(o, ce);
    } else if (auto ct = dyn_cast<CXXConstructExpr>(s)) {
      o["k"] = "construct";
      o["cls"] = qname(ct->getConstructor()->getParent());
      json::Array args;
      for (unsigned i = 0; i < ct->getNumArgs(); i++) args.push_back((int64_t)idOf(fc, ct->getArg(i)));
      o["args"] = std::move(args);
      if (ct->getConstructor()->isCopyOrMoveConstructor()) o["copy"] = true;
    } else if (auto ne = dyn_cast<CXXNewExpr>(s)) {
      o["k"] = "new";
      o["alloc_ty"] = typeOf(ne->getAllocatedType());
      json::Array pl;
      for (unsigned i = 0; i < ne->getNumPlacementArgs(); i++) pl.push_back((int64_t)idOf(fc, ne->getPlacementArg(i)));
      o["placement"] = std::move(pl);
      if (ne->getOperatorNew()) o["callee"] = qname(ne->getOperatorNew());
      if (auto ini = ne->getInitializer()) o["init"] = (int64_t)idOf(fc, ini);
    } else if (auto de = dyn_cast<CXXDeleteExpr>(s)) {
      o["k"] = "delete";
      o["sub"] = (int64_t)idOf(fc, de->getArgument());
    } else if (auto dr = dyn_cast<DeclRefExpr>(s)) {
      o["k"] = "ref";
      const ValueDecl* d = dr->getDecl();
      o["name"] = d->getNameAsString();
      if (isa<ParmVarDecl>(d)) { o["dk"] = "parm"; o["did"] = (int64_t)declId(fc, d); }
      else if (auto vd = dyn_cast<VarDecl>(d)) {
        if (vd->isLocalVarDecl() && !vd->isStaticLocal()) { o["dk"] = "local"; o["did"] = (int64_t)declId(fc, d); }
        else { o["dk"] = "global"; o["qn"] = qname(d); }
      }
      else if (isa<EnumConstantDecl>(d)) { o["dk"] = "enumconst"; o["qn"] = qname(d); }
      else if (isa<FunctionDecl>(d)) { o["dk"] = "func"; o["qn"] = qname(d); }
      else if (isa<BindingDecl>(d)) { o["dk"] = "local"; o["did"] = (int64_t)declId(fc, d); }
      else { o["dk"] = "other"; o["qn"] = qname(d); }
      putConst(o, dr);
    } else if (auto me = dyn_cast<MemberExpr>(s)) {
      o["k"] = "member";
      o["base"] = (int64_t)idOf(fc, me->getBase());
      o["field"] = me->getMemberDecl()->getNameAsString();
      o["fq"] = qname(me->getMemberDecl());
      if (me->isArrow()) o["arrow"] = true;
      if (isa<CXXMethodDecl>(me->getMemberDecl())) o["method"] = true;
      if (isa<CXXThisExpr>(me->getBase()->IgnoreParenImpCasts())) o["this"] = true;
      putConst(o, me);
    } else if (isa<CXXThisExpr>(s)) {
      o["k"] = "this";
    } else if (auto bo = dyn_cast<BinaryOperator>(s)) {
      o["k"] = "binop";
      o["op"] = bo->getOpcodeStr().str();
      o["lhs"] = (int64_t)idOf(fc, bo->getLHS());
      o["rhs"] = (int64_t)idOf(fc, bo->getRHS());
      putConst(o, bo);
    } else if (auto uo = dyn_cast<UnaryOperator>(s)) {
      o["k"] = "unop";
      o["op"] = UnaryOperator::getOpcodeStr(uo->getOpcode()).str();
      if (uo->isPostfix()) o["postfix"] = true;
      o["sub"] = (int64_t)idOf(fc, uo->getSubExpr());
      putConst(o, uo);
    } else if (auto co = dyn_cast<AbstractConditionalOperator>(s)) {
      o["k"] = "cond";
      o["c"] = (int64_t)idOf(fc, co->getCond());
      o["a"] = (int64_t)idOf(fc, co->getTrueExpr());
      o["b"] = (int64_t)idOf(fc, co->getFalseExpr());
      putConst(o, co);
    } else if (auto il = dyn_cast<IntegerLiteral>(s)) {
      o["k"] = "int";
      putConst(o, il);
    } else if (auto bl = dyn_cast<CXXBoolLiteralExpr>(s)) {
      o["k"] = "bool";
      o["cv"] = (int64_t)(bl->getValue() ? 1 : 0);
    } else if (isa<CXXNullPtrLiteralExpr>(s) || isa<GNUNullExpr>(s)) {
      o["k"] = "null";
    } else if (auto sl = dyn_cast<StringLiteral>(s)) {
      o["k"] = "str";
      o["val"] = sl->getBytes().str();
    } else if (auto as = dyn_cast<ArraySubscriptExpr>(s)) {
      o["k"] = "subscript";
      o["base"] = (int64_t)idOf(fc, as->getBase());
      o["idx"] = (int64_t)idOf(fc, as->getIdx());
      putConst(o, as);
    } else if (auto ec = dyn_cast<ExplicitCastExpr>(s)) {
      o["k"] = "cast";
      o["ck"] = isa<CXXConstCastExpr>(s) ? "const" : isa<CXXStaticCastExpr>(s) ? "static" : isa<CXXReinterpretCastExpr>(s) ? "reinterpret"
               : isa<CStyleCastExpr>(s) ? "cstyle" : isa<CXXFunctionalCastExpr>(s) ? "functional" : "other";
      o["sub"] = (int64_t)idOf(fc, ec->getSubExpr());
      putConst(o, ec);
    } else if (auto rs = dyn_cast<ReturnStmt>(s)) {
      o["k"] = "return";
      if (auto rv = rs->getRetValue()) {
        o["val"] = (int64_t)idOf(fc, rv);
        o["t"] = textOf(rv);
        json::Object tmp; putConst(tmp, rv);
        if (auto cv = tmp.get("cv")) o["cv"] = *cv;
        if (auto cvn = tmp.get("cvn")) o["cvn"] = *cvn;
      }
    } else if (auto ds = dyn_cast<DeclStmt>(s)) {
      o["k"] = "decl";
      json::Array vars;
      for (auto d : ds->decls()) {
        if (auto vd = dyn_cast<VarDecl>(d)) {
          json::Object v;
          v["name"] = vd->getNameAsString();
          v["did"] = (int64_t)declId(fc, vd);
          v["ty"] = typeOf(vd->getType());
          if (vd->isStaticLocal()) v["static"] = true;
          if (vd->hasInit()) v["init"] = (int64_t)idOf(fc, vd->getInit());
          vars.push_back(std::move(v));
        }
      }
      o["vars"] = std::move(vars);
    } else if (auto gs = dyn_cast<GotoStmt>(s)) {
      o["k"] = "goto";
      o["label"] = gs->getLabel()->getNameAsString();
    } else if (auto ls = dyn_cast<LabelStmt>(s)) {
      o["k"] = "label";
      o["name"] = std::string(ls->getName());
    } else if (auto il2 = dyn_cast<InitListExpr>(s)) {
      o["k"] = "initlist";
      o["ch"] = kids(fc, il2);
    } else if (auto lam = dyn_cast<LambdaExpr>(s)) {
      o["k"] = "lambda";
      (void)lam;
    } else if (auto ue = dyn_cast<UnaryExprOrTypeTraitExpr>(s)) {
      o["k"] = "sizeof";
      putConst(o, ue);
    } else if (isa<Expr>(s)) {
      o["k"] = std::string("x:") + s->getStmtClassName();
      o["ch"] = kids(fc, s);
      putConst(o, cast<Expr>(s));
    } else {
      // non-expression statement: structural node
      o["k"] = std::string("s:") + s->getStmtClassName();
      if (auto cs = dyn_cast<CompoundStmt>(s)) { (void)cs; }
      if (auto is = dyn_cast<IfStmt>(s)) { o["cond"] = (int64_t)idOf(fc, is->getCond()); }
      if (auto ws = dyn_cast<WhileStmt>(s)) { o["cond"] = (int64_t)idOf(fc, ws->getCond()); }
      if (auto fs = dyn_cast<ForStmt>(s)) { if (fs->getCond()) o["cond"] = (int64_t)idOf(fc, fs->getCond()); }
      if (auto ss = dyn_cast<SwitchStmt>(s)) {
        o["cond"] = (int64_t)idOf(fc, ss->getCond());
        const Expr* ce2 = ss->getCond()->IgnoreParenImpCasts();
        o["cond_ty"] = typeOf(ce2->getType());
        json::Array cases; bool hasDefault = false;
        for (const SwitchCase* sc = ss->getSwitchCaseList(); sc; sc = sc->getNextSwitchCase()) {
          if (isa<DefaultStmt>(sc)) { hasDefault = true; continue; }
          auto cst = cast<CaseStmt>(sc);
          json::Object co; co["l"] = (int64_t)lineOf(cst->getBeginLoc());
          Expr::EvalResult R;
          if (cst->getLHS()->EvaluateAsInt(R, C)) co["v"] = (int64_t)R.Val.getInt().getExtValue();
          const Expr* lhs = cst->getLHS()->IgnoreParenImpCasts();
          if (auto cex = dyn_cast<ConstantExpr>(lhs)) lhs = cex->getSubExpr()->IgnoreParenImpCasts();
          if (auto dre = dyn_cast<DeclRefExpr>(lhs)) co["n"] = dre->getDecl()->getNameAsString();
          else co["n"] = textOf(cst->getLHS());
          cases.push_back(std::move(co));
        }
        o["cases"] = std::move(cases);
        o["has_default"] = hasDefault;
      }
      o["ch"] = kids(fc, s);
    }
    fc.exprs[std::to_string(id)] = std::move(o);
    // make sure all children are emitted too (for kinds that did not enumerate them)
    for (const Stmt* c : s->children()) if (c) idOf(fc, c);
    return id;
  }

  json::Object dumpFunction(const FunctionDecl* F) {
    json::Object fo;
    fo["name"] = qname(F);
    fo["file"] = fileOf(F->getBeginLoc());
    fo["line"] = (int64_t)lineOf(F->getBeginLoc());
    fo["end_line"] = (int64_t)lineOf(F->getEndLoc());
    fo["ret"] = typeOf(F->getReturnType());
    if (const auto* fpt = F->getType()->getAs<FunctionProtoType>()) { if (fpt->isNothrow()) fo["noexcept"] = true; }
    if (auto md = dyn_cast<CXXMethodDecl>(F)) {
      fo["cls"] = qname(md->getParent());
      if (md->isVirtual()) fo["virtual"] = true;
      if (md->isConst()) fo["const"] = true;
      json::Array ov;
      for (auto o : md->overridden_methods()) ov.push_back(qname(o));
      fo["overrides"] = std::move(ov);
    }
    if (F->isTemplateInstantiation()) fo["instantiation"] = true;
    FnCtx fc;
    json::Array params;
    for (auto p : F->parameters()) {
      json::Object po; po["name"] = p->getNameAsString(); po["ty"] = typeOf(p->getType()); po["did"] = (int64_t)declId(fc, p);
      params.push_back(std::move(po));
    }
    fo["params"] = std::move(params);

    // constructor initialisers as pseudo assignments
    if (auto cd = dyn_cast<CXXConstructorDecl>(F)) {
      json::Array inits;
      for (auto ci : cd->inits()) {
        json::Object io;
        if (ci->isAnyMemberInitializer()) io["field"] = ci->getAnyMember()->getNameAsString();
        else if (ci->isBaseInitializer()) io["base"] = typeOf(QualType(ci->getBaseClass(), 0));
        if (ci->getInit()) io["init"] = (int64_t)idOf(fc, ci->getInit());
        inits.push_back(std::move(io));
      }
      fo["ctor_inits"] = std::move(inits);
    }

    CFG::BuildOptions BO;
    BO.setAllAlwaysAdd();
    BO.AddImplicitDtors = true;
    BO.AddInitializers = true;
    std::unique_ptr<CFG> cfg = CFG::buildCFG(F, F->getBody(), &C, BO);
    if (!cfg) { fo["cfg_failed"] = true; return fo; }
    fo["body"] = (int64_t)idOf(fc, F->getBody());

    json::Array blocks;
    for (const CFGBlock* B : *cfg) {
      json::Object bo;
      bo["id"] = (int64_t)B->getBlockID();
      json::Array succs;
      for (auto S : B->succs()) {
        if (const CFGBlock* sb = S.getReachableBlock()) succs.push_back((int64_t)sb->getBlockID());
        else succs.push_back(nullptr);
      }
      bo["succs"] = std::move(succs);
      if (B->hasNoReturnElement()) bo["noreturn"] = true;
      json::Array elems;
      for (auto& El : *B) {
        if (auto S = El.getAs<CFGStmt>()) {
          const Stmt* st = S->getStmt();
          const Stmt* real = skipTransparent(st);
          if (real != st) continue;  // transparent wrapper: its operand already appeared
          elems.push_back((int64_t)idOf(fc, st));
        } else if (auto D = El.getAs<CFGAutomaticObjDtor>()) {
          json::Object d;
          d["dtor_of"] = D->getVarDecl()->getNameAsString();
          d["did"] = (int64_t)declId(fc, D->getVarDecl());
          d["ty"] = typeOf(D->getVarDecl()->getType());
          elems.push_back(std::move(d));
        } else if (auto I = El.getAs<CFGInitializer>()) {
          json::Object d;
          auto ci = I->getInitializer();
          if (ci->isAnyMemberInitializer()) d["init_field"] = ci->getAnyMember()->getNameAsString();
          if (ci->getInit()) d["init"] = (int64_t)idOf(fc, ci->getInit());
          elems.push_back(std::move(d));
        }
      }
      bo["elems"] = std::move(elems);
      if (const Stmt* L = B->getLabel()) {
        json::Object lo;
        if (auto ls = dyn_cast<LabelStmt>(L)) { lo["kind"] = "label"; lo["name"] = std::string(ls->getName()); }
        else if (auto cs = dyn_cast<CaseStmt>(L)) {
          lo["kind"] = "case";
          Expr::EvalResult R;
          if (cs->getLHS()->EvaluateAsInt(R, C)) lo["v"] = (int64_t)R.Val.getInt().getExtValue();
          const Expr* lhs = cs->getLHS()->IgnoreParenImpCasts();
          if (auto cex = dyn_cast<ConstantExpr>(lhs)) lhs = cex->getSubExpr()->IgnoreParenImpCasts();
          if (auto dre = dyn_cast<DeclRefExpr>(lhs)) lo["name"] = dre->getDecl()->getNameAsString();
        } else if (isa<DefaultStmt>(L)) lo["kind"] = "default";
        lo["l"] = (int64_t)lineOf(L->getBeginLoc());
        bo["label"] = std::move(lo);
      }
      if (const Stmt* T = B->getTerminatorStmt()) {
        json::Object to;
        to["kind"] = T->getStmtClassName();
        to["l"] = (int64_t)lineOf(T->getBeginLoc());
        if (const Stmt* cond = B->getTerminatorCondition(false)) to["cond"] = (int64_t)idOf(fc, cond);
        if (auto gs = dyn_cast<GotoStmt>(T)) to["label"] = gs->getLabel()->getNameAsString();
        if (auto sw = dyn_cast<SwitchStmt>(T)) to["switch"] = (int64_t)idOf(fc, sw);
        bo["term"] = std::move(to);
      }
      blocks.push_back(std::move(bo));
    }
    fo["blocks"] = std::move(blocks);
    fo["entry"] = (int64_t)cfg->getEntry().getBlockID();
    fo["exit"] = (int64_t)cfg->getExit().getBlockID();
    fo["exprs"] = std::move(fc.exprs);
    return fo;
  }

  // ------------------------------------------------------------------ discarded errors
  static bool isErrorType(QualType t) {
    if (t.isNull()) return false;
    t = t.getNonReferenceType().getUnqualifiedType();
    if (auto et = t->getAs<EnumType>()) return et->getDecl()->getQualifiedNameAsString() == "asmjit::Error";
    if (auto tt = t->getAs<TypedefType>()) return tt->getDecl()->getQualifiedNameAsString() == "asmjit::Error";
    return false;
  }
};

struct CallFinder : RecursiveASTVisitor<CallFinder> {
  llvm::Regex R;
  bool found = false;
  explicit CallFinder(const std::string& re) : R(re) {}
  bool VisitCallExpr(CallExpr* ce) {
    if (const FunctionDecl* fd = ce->getDirectCallee()) {
      if (R.match(Dumper::qname(fd))) { found = true; return false; }
    }
    return true;
  }
  bool TraverseLambdaExpr(LambdaExpr*) { return true; }
};

struct Visitor : RecursiveASTVisitor<Visitor> {
  Dumper& D;
  json::Array functions, discards, globals, constcasts, funcindex;
  json::Object tables, enums, records;
  std::vector<const FunctionDecl*> fnStack;
  std::set<std::string> seenFuncs;

  explicit Visitor(Dumper& D) : D(D) {}
  bool shouldVisitTemplateInstantiations() const { return true; }
  bool shouldVisitImplicitCode() const { return false; }

  bool inRepo(SourceLocation L) {
    std::string f = D.fileOf(L);
    return f.find("/asmjit/") != std::string::npos;
  }

  bool TraverseFunctionDecl(FunctionDecl* F) { return traverseFn<&RecursiveASTVisitor<Visitor>::TraverseFunctionDecl>(F); }
  bool TraverseCXXMethodDecl(CXXMethodDecl* F) { return traverseFn2(F, 0); }
  bool TraverseCXXConstructorDecl(CXXConstructorDecl* F) { return traverseFn2(F, 1); }
  bool TraverseCXXDestructorDecl(CXXDestructorDecl* F) { return traverseFn2(F, 2); }
  bool TraverseCXXConversionDecl(CXXConversionDecl* F) { return traverseFn2(F, 3); }

  template <bool (RecursiveASTVisitor<Visitor>::*Fn)(FunctionDecl*)>
  bool traverseFn(FunctionDecl* F) {
    fnStack.push_back(F);
    bool r = (this->*Fn)(F);
    fnStack.pop_back();
    return r;
  }
  bool traverseFn2(FunctionDecl* F, int k) {
    fnStack.push_back(F);
    bool r;
    switch (k) {
      case 0: r = RecursiveASTVisitor<Visitor>::TraverseCXXMethodDecl(cast<CXXMethodDecl>(F)); break;
      case 1: r = RecursiveASTVisitor<Visitor>::TraverseCXXConstructorDecl(cast<CXXConstructorDecl>(F)); break;
      case 2: r = RecursiveASTVisitor<Visitor>::TraverseCXXDestructorDecl(cast<CXXDestructorDecl>(F)); break;
      default: r = RecursiveASTVisitor<Visitor>::TraverseCXXConversionDecl(cast<CXXConversionDecl>(F)); break;
    }
    fnStack.pop_back();
    return r;
  }

  bool VisitFunctionDecl(FunctionDecl* F) {
    if (!F->doesThisDeclarationHaveABody()) return true;
    if (F->isDependentContext()) return true;
    if (!inRepo(F->getBeginLoc())) return true;
    std::string qn = Dumper::qname(F);
    if (OptFuncIndex) {
      json::Object o; o["name"] = qn; o["file"] = D.fileOf(F->getBeginLoc());
      o["line"] = (int64_t)D.lineOf(F->getBeginLoc()); o["end_line"] = (int64_t)D.lineOf(F->getEndLoc());
      funcindex.push_back(std::move(o));
    }
    bool want = matches(OptFuncs, qn);
    if (!want && !OptFuncsCalling.empty() && F->getBody()) {
      CallFinder cf(OptFuncsCalling);
      cf.TraverseStmt(F->getBody());
      want = cf.found;
    }
    if (!want) return true;
    // de-duplicate instantiations with identical name+location
    std::string key = qn + "@" + D.fileOf(F->getBeginLoc()) + ":" + std::to_string(D.lineOf(F->getBeginLoc()));
    if (F->isTemplateInstantiation()) {
      if (auto ta = F->getTemplateSpecializationArgs()) {
        for (auto& a : ta->asArray()) { std::string s2; llvm::raw_string_ostream os(s2); a.print(D.PP, os, true); os.flush(); key += "<" + s2 + ">"; }
      }
    }
    if (!seenFuncs.insert(key).second) return true;
    functions.push_back(D.dumpFunction(F));
    return true;
  }

  // lambdas: their call operator is dumped as "<enclosing function>::lambda@<line>" when the enclosing function is dumped
  bool VisitLambdaExpr(LambdaExpr* L) {
    if (fnStack.empty() || OptFuncs.empty()) return true;
    const FunctionDecl* outer = fnStack.back();
    std::string oq = Dumper::qname(outer);
    if (!matches(OptFuncs, oq)) return true;
    const CXXMethodDecl* op = L->getCallOperator();
    if (!op || !op->doesThisDeclarationHaveABody() || op->isDependentContext()) return true;
    json::Object fo = D.dumpFunction(op);
    fo["name"] = oq + "::lambda@" + std::to_string(D.lineOf(L->getBeginLoc()));
    fo["lambda_of"] = oq;
    functions.push_back(std::move(fo));
    return true;
  }

  bool VisitVarDecl(VarDecl* V) {
    if (isa<ParmVarDecl>(V)) return true;
    if (!V->hasGlobalStorage()) return true;
    if (V->getDeclContext()->isDependentContext() || V->getType()->isDependentType()) return true;
    if (!inRepo(V->getLocation())) return true;
    std::string qn = Dumper::qname(V);
    if (OptGlobals && V->isThisDeclarationADefinition() == VarDecl::Definition) {
      json::Object o;
      o["name"] = qn; o["ty"] = D.typeOf(V->getType());
      o["const"] = V->getType().isConstQualified() || (D.C.getAsArrayType(V->getType()) && D.C.getBaseElementType(V->getType()).isConstQualified());
      o["constexpr"] = V->isConstexpr();
      o["file"] = D.fileOf(V->getLocation()); o["line"] = (int64_t)D.lineOf(V->getLocation());
      o["static_local"] = V->isStaticLocal();
      o["tls"] = V->getTLSKind() != VarDecl::TLS_None;
      if (!fnStack.empty()) o["in_function"] = Dumper::qname(fnStack.back());
      globals.push_back(std::move(o));
    }
    if (matches(OptTables, qn) && !tables.get(qn)) {
      const VarDecl* def = V->getDefinition(D.C);
      if (!def) def = V;
      if (def->hasInit() && !def->getInit()->isValueDependent()) {
        if (const APValue* val = def->evaluateValue()) {
          json::Object o;
          o["ty"] = D.typeOf(def->getType());
          o["file"] = D.fileOf(def->getLocation()); o["line"] = (int64_t)D.lineOf(def->getLocation());
          o["value"] = D.apvalue(*val, def->getType());
          tables[qn] = std::move(o);
        } else {
          json::Object o; o["error"] = "not-constant-evaluable"; tables[qn] = std::move(o);
        }
      }
    }
    return true;
  }

  bool VisitEnumDecl(EnumDecl* E) {
    if (!E->isCompleteDefinition()) return true;
    std::string qn = Dumper::qname(E);
    if (!matches(OptEnums, qn)) return true;
    json::Array a;
    for (auto ec : E->enumerators()) {
      json::Array p; p.push_back(ec->getNameAsString());
      const llvm::APSInt& i = ec->getInitVal();
      if (i.isSigned() || i.getActiveBits() <= 63) p.push_back((int64_t)i.getExtValue()); else p.push_back(std::to_string(i.getZExtValue()));
      a.push_back(std::move(p));
    }
    json::Object o; o["enumerators"] = std::move(a);
    o["file"] = D.fileOf(E->getLocation()); o["line"] = (int64_t)D.lineOf(E->getLocation());
    enums[qn] = std::move(o);
    return true;
  }

  bool VisitCXXRecordDecl(CXXRecordDecl* R) {
    if (!R->isCompleteDefinition() || R->isDependentContext()) return true;
    std::string qn = Dumper::qname(R);
    if (!matches(OptRecords, qn)) return true;
    if (records.get(qn)) return true;
    json::Object o;
    json::Array fields, bases, methods;
    for (auto f : R->fields()) { json::Object fo; fo["name"] = f->getNameAsString(); fo["ty"] = D.typeOf(f->getType()); fo["line"] = (int64_t)D.lineOf(f->getLocation()); fields.push_back(std::move(fo)); }
    for (auto& b : R->bases()) bases.push_back(D.typeOf(b.getType()));
    for (auto m : R->methods()) {
      if (m->isImplicit()) continue;
      json::Object mo; mo["name"] = m->getNameAsString(); mo["virtual"] = m->isVirtual();
      mo["line"] = (int64_t)D.lineOf(m->getLocation());
      json::Array ov; for (auto om : m->overridden_methods()) ov.push_back(Dumper::qname(om));
      mo["overrides"] = std::move(ov);
      json::Array ps; for (auto p : m->parameters()) ps.push_back(D.typeOf(p->getType()));
      mo["params"] = std::move(ps);
      methods.push_back(std::move(mo));
    }
    o["fields"] = std::move(fields); o["bases"] = std::move(bases); o["methods"] = std::move(methods);
    o["file"] = D.fileOf(R->getLocation()); o["line"] = (int64_t)D.lineOf(R->getLocation());
    records[qn] = std::move(o);
    return true;
  }

  // discarded-value detection: an expression statement directly under a compound / control statement.
  void noteDiscard(const Stmt* child, const char* how) {
    if (!OptDiscards || !child) return;
    const Expr* e = dyn_cast<Expr>(child);
    if (!e) return;
    const Expr* inner = e->IgnoreParenImpCasts();
    if (auto ewc = dyn_cast<ExprWithCleanups>(inner)) inner = ewc->getSubExpr()->IgnoreParenImpCasts();
    bool voidcast = false;
    if (auto ce = dyn_cast<ExplicitCastExpr>(inner)) {
      if (ce->getType()->isVoidType()) { voidcast = true; inner = ce->getSubExpr()->IgnoreParenImpCasts(); }
    }
    if (auto ewc = dyn_cast<ExprWithCleanups>(inner)) inner = ewc->getSubExpr()->IgnoreParenImpCasts();
    if (!Dumper::isErrorType(inner->getType())) return;
    // only calls matter (a discarded variable read is not an error source)
    const CallExpr* call = dyn_cast<CallExpr>(inner);
    if (!call) return;
    if (!inRepo(e->getBeginLoc())) return;
    json::Object o;
    o["file"] = D.fileOf(e->getBeginLoc()); o["line"] = (int64_t)D.lineOf(e->getBeginLoc());
    o["in"] = fnStack.empty() ? "" : Dumper::qname(fnStack.back());
    if (auto fd = call->getDirectCallee()) o["callee"] = Dumper::qname(fd); else o["callee"] = "?";
    o["text"] = D.textOf(inner);
    o["voidcast"] = voidcast;
    o["how"] = how;
    if (e->getBeginLoc().isMacroID()) o["macro"] = D.macroOf(e->getBeginLoc());
    discards.push_back(std::move(o));
  }
  bool VisitCompoundStmt(CompoundStmt* S) { for (auto c : S->body()) noteDiscard(c, "stmt"); return true; }
  bool VisitIfStmt(IfStmt* S) { noteDiscard(S->getThen(), "if-body"); noteDiscard(S->getElse(), "else-body"); return true; }
  bool VisitForStmt(ForStmt* S) { noteDiscard(S->getBody(), "for-body"); noteDiscard(S->getInc(), "for-inc"); noteDiscard(S->getInit(), "for-init"); return true; }
  bool VisitWhileStmt(WhileStmt* S) { noteDiscard(S->getBody(), "while-body"); return true; }
  bool VisitDoStmt(DoStmt* S) { noteDiscard(S->getBody(), "do-body"); return true; }
  bool VisitCaseStmt(CaseStmt* S) { noteDiscard(S->getSubStmt(), "case"); return true; }
  bool VisitDefaultStmt(DefaultStmt* S) { noteDiscard(S->getSubStmt(), "default"); return true; }
  bool VisitLabelStmt(LabelStmt* S) { noteDiscard(S->getSubStmt(), "label"); return true; }
  bool VisitBinaryOperator(BinaryOperator* B) {
    if (B->getOpcode() == BO_Comma) noteDiscard(B->getLHS(), "comma-lhs");
    return true;
  }

  bool VisitExplicitCastExpr(ExplicitCastExpr* E) {
    if (!OptConstCasts) return true;
    if (!inRepo(E->getBeginLoc())) return true;
    QualType from = E->getSubExpr()->getType(), to = E->getType();
    if (E->getSubExpr()->isGLValue() && to->isReferenceType()) { /* handled by pointee logic below with reference */ }
    QualType fp, tp;
    if (from->isPointerType() && to->isPointerType()) { fp = from->getPointeeType(); tp = to->getPointeeType(); }
    else if (to->isReferenceType()) { fp = from; tp = to->getPointeeType(); }
    else return true;
    if (fp.isConstQualified() && !tp.isConstQualified()) {
      json::Object o;
      o["file"] = D.fileOf(E->getBeginLoc()); o["line"] = (int64_t)D.lineOf(E->getBeginLoc());
      o["in"] = fnStack.empty() ? "" : Dumper::qname(fnStack.back());
      o["text"] = D.textOf(E);
      o["from"] = D.typeOf(from); o["to"] = D.typeOf(to);
      // root object if it is the address of a global
      const Expr* s = E->getSubExpr()->IgnoreParenImpCasts();
      if (auto uo = dyn_cast<UnaryOperator>(s)) if (uo->getOpcode() == UO_AddrOf) s = uo->getSubExpr()->IgnoreParenImpCasts();
      if (auto dr = dyn_cast<DeclRefExpr>(s)) if (auto vd = dyn_cast<VarDecl>(dr->getDecl())) if (vd->hasGlobalStorage()) o["global"] = Dumper::qname(vd);
      constcasts.push_back(std::move(o));
    }
    return true;
  }
};

struct Cons : ASTConsumer {
  void HandleTranslationUnit(ASTContext& C) override {
    Dumper D(C);
    Visitor V(D);
    V.TraverseDecl(C.getTranslationUnitDecl());
    json::Object root;
    root["unit"] = C.getSourceManager().getFileEntryForID(C.getSourceManager().getMainFileID())->getName().str();
    root["functions"] = std::move(V.functions);
    root["tables"] = std::move(V.tables);
    root["enums"] = std::move(V.enums);
    root["records"] = std::move(V.records);
    if (OptDiscards) root["discards"] = std::move(V.discards);
    if (OptGlobals) root["globals"] = std::move(V.globals);
    if (OptConstCasts) root["constcasts"] = std::move(V.constcasts);
    if (OptFuncIndex) root["funcindex"] = std::move(V.funcindex);
    root["errors"] = (int64_t)C.getDiagnostics().getNumErrors();
    std::error_code ec;
    if (OptOut.empty()) { llvm::outs() << json::Value(std::move(root)) << "\n"; }
    else {
      llvm::raw_fd_ostream os(OptOut, ec);
      if (ec) { llvm::errs() << "cannot write " << OptOut << "\n"; return; }
      os << json::Value(std::move(root)) << "\n";
    }
  }
};
struct Act : ASTFrontendAction {
  std::unique_ptr<ASTConsumer> CreateASTConsumer(CompilerInstance&, StringRef) override { return std::make_unique<Cons>(); }
};

}  // namespace

int main(int argc, const char** argv) {
  auto P = CommonOptionsParser::create(argc, argv, Cat);
  if (!P) { llvm::errs() << P.takeError(); return 2; }
  ClangTool T(P->getCompilations(), P->getSourcePathList());
  int r = T.run(newFrontendActionFactory<Act>().get());
  return r == 0 ? 0 : 2;
}
