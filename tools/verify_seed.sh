#!/bin/bash
# verify_seed.sh <seed-dir> : confirm a seeded change (patch.diff + demo.cpp) in a scratch worktree of /repo HEAD:
# builds, passes ctest, demo fails with the change and passes without.  Prints a one-line verdict.
set -u
SEED=$(realpath "$1"); WT=${WT:-/tmp/wt/verify}; J=${J:-12}
if [ ! -d "$WT" ]; then git -C /repo worktree add -q --detach "$WT" HEAD || exit 2; fi
git -C "$WT" checkout -q --detach "$(git -C /repo rev-parse HEAD)" 2>/dev/null; git -C "$WT" checkout -q -- . 
[ -d "$WT/_build" ] || cmake -S "$WT" -B "$WT/_build" -G Ninja -DASMJIT_TEST=ON -DCMAKE_BUILD_TYPE=RelWithDebInfo >/dev/null
cmake --build "$WT/_build" -j$J >/dev/null 2>&1 || { echo "VERDICT $SEED baseline-build-failed"; exit 2; }
g++ -std=c++17 -w -I"$WT" "$SEED/demo.cpp" -o "$WT/_build/seed_demo" -L"$WT/_build" -lasmjit -lpthread -Wl,-rpath,"$WT/_build" || { echo "VERDICT $SEED demo-compile-failed"; exit 2; }
( cd "$WT/_build" && timeout 300 ./seed_demo >/dev/null 2>&1 ); BASE=$?
git -C "$WT" apply "$SEED/patch.diff" || { echo "VERDICT $SEED patch-does-not-apply"; exit 2; }
cmake --build "$WT/_build" -j$J >/dev/null 2>&1 || { git -C "$WT" checkout -q -- .; echo "VERDICT $SEED build-failed-with-change"; exit 2; }
g++ -std=c++17 -w -I"$WT" "$SEED/demo.cpp" -o "$WT/_build/seed_demo" -L"$WT/_build" -lasmjit -lpthread -Wl,-rpath,"$WT/_build"
( cd "$WT/_build" && timeout 300 ./seed_demo >/dev/null 2>&1 ); MUT=$?
CT=$(ctest --test-dir "$WT/_build" -j8 --timeout 900 2>&1 | grep -E "tests passed|tests failed" | tail -1)
git -C "$WT" checkout -q -- .
cmake --build "$WT/_build" -j$J >/dev/null 2>&1
echo "VERDICT $SEED demo_baseline_exit=$BASE demo_changed_exit=$MUT ctest_with_change='$CT'"
