// Normalises db/isa_aarch64.json with the repository's own reader (db/aarch64.js parses the database only).
// Usage: node a64.js <repo> <out.json>
const path = require("path"), fs = require("fs");
const repo = process.argv[2], out = process.argv[3];
const a64 = require(path.join(repo, "db", "aarch64.js"));
const isa = new a64.ISA(JSON.parse(fs.readFileSync(path.join(repo, "db", "isa_aarch64.json"))));
const res = [];
isa.instructions.forEach(i => {
  const fields = {};
  for (const k of Object.keys(i.fields || {})) fields[k] = (i.fields[k].values || []).map(v => ({ index: v.index, from: v.from, size: v.size }));
  const tk = {};
  for (const k of Object.keys(i)) if (/^t[a-z]?(\.t[a-z]?)*$/.test(k) && typeof i[k] === "string") tk[k] = i[k];
  res.push({
    tk: tk,
    name: i.name, op: i.opcodeString, opv: i.opcodeValue, alias: i.aliasOf, t: i.t || "",
    fields: fields,
    ops: i.operands.map(o => { const r = { s: o.toString() }; for (const k of Object.keys(o)) { const v = o[k]; if (typeof v !== "object" || v === null) r[k] = v; } return r; })
  });
});
fs.writeFileSync(out, JSON.stringify(res));
