// Normalises db/isa_x86.json with the repository's own reader (db/x86.js parses the database only; it
// contains no encoder code).  Usage: node x86.js <repo> <out.json>
const path = require("path"), fs = require("fs");
const repo = process.argv[2], out = process.argv[3];
const x86 = require(path.join(repo, "db", "x86.js"));
const isa = new x86.ISA(JSON.parse(fs.readFileSync(path.join(repo, "db", "isa_x86.json"))));
const res = [];
isa.instructions.forEach(i => {
  res.push({
    name: i.name, arch: i.arch, encoding: i.encoding, prefix: i.prefix, op: i.opcodeString, opv: i.opcodeValue,
    ext: Object.keys(i.ext || {}), tt: i.tupleType, lead: i.consecutiveLead, alias: i.aliasOf,
    ops: i.operands.map(o => ({ s: o.toString(), reg: o.reg, mem: o.mem, imm: o.imm, rel: o.rel, implicit: !!o.implicit, regType: o.regType, memSize: o.memSize, rwx: o.rwxIndex }))
  });
});
fs.writeFileSync(out, JSON.stringify(res));
