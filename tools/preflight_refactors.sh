#!/bin/bash
# preflight_refactors.sh [-P n] : every behaviour-preserving refactoring of seeded/refactors is applied to its own scratch copy of
# /repo's sources (outside /repo and /verif) and ALL quick checks are run on it; prints the ones that are not silent.  The thorough
# tier does the same per property; this is the fast way to see the fallout of a change to a shared library (lib/must.py ...).
P=${2:-4}
OUT=$(mktemp -d /tmp/verif-preflight-XXXXXX)
one() {
  rid=$1; out=$2
  tmp=$(mktemp -d /tmp/verif-selftest-XXXXXX)
  for d in asmjit db tools; do cp -r /repo/$d $tmp/$d; done
  if ! patch -p1 -s -F3 -d $tmp -i /verif/seeded/refactors/$rid/patch.diff >/dev/null 2>&1; then echo "$rid SKIP (stale)" > $out/$rid.txt; rm -rf $tmp; return; fi
  mkdir -p $tmp/_ev $tmp/_rep
  VERIF_REPO=$tmp VERIF_SELFTEST_CHILD=1 VERIF_EVIDENCE_DIR=$tmp/_ev VERIF_REPORT_DIR=$tmp/_rep /verif/check all --tier quick 2>&1 | grep -E "^== .* exit [12]|violated:|ANALYSIS-BROKEN" | cut -c1-260 > $out/$rid.txt
  rm -rf $tmp
}
export -f one
ls /verif/seeded/refactors | xargs -P $P -I{} bash -c "one {} $OUT"
for f in $OUT/*.txt; do [ -s $f ] && { echo "### $(basename $f .txt)"; cat $f; }; done
echo "preflight done: $(ls $OUT | wc -l) refactorings"
rm -rf $OUT
