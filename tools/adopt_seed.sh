#!/bin/bash
# adopt_seed.sh <src-dir> <new-id> <property> "<verdict text>" : copy a verified seeded change into /verif/seeded/<new-id>/
set -eu
SRC=$1; ID=$2; PROP=$3; VER=$4
D=/verif/seeded/$ID; mkdir -p $D
cp $SRC/patch.diff $SRC/demo.cpp $D/; [ -f $SRC/README.md ] && cp $SRC/README.md $D/
python3 - "$ID" "$PROP" "$VER" > $D/meta.json <<'PY'
import json, sys
print(json.dumps({"id": sys.argv[1], "property": sys.argv[2],
 "origin": "independent sub-agent given only the property text and a scratch worktree of /repo (second round)",
 "needs_to_manifest": "see README.md (written by the sub-agent): specific input / history / fault needed",
 "verified_by": "tools/verify_seed.sh in a scratch worktree of /repo HEAD: library+tests build, ctest 10/10 with the change, demo exits 0 without and non-zero with the change",
 "verification": sys.argv[3]}, indent=1))
PY
echo adopted $ID
