#!/usr/bin/env python3
"""Regenerates /verif/MANIFEST.json from the claim table below (kept in one place so the manifest
is valid at every commit).  A property is claimed when checks/<id>.py exists."""
import json, os, sys
HERE = os.path.dirname(os.path.dirname(os.path.abspath(__file__)))
sys.path.insert(0, HERE)
from checks import CLAIMS, NOT_APPLICABLE  # noqa

man = {
    "version": 1,
    "setup_cmd": "sh tools/build.sh",
    "hooks": {
        "guard": "ASMJIT_VERIF",
        "enable": "none needed: the checks are static and read /repo's sources unmodified; no hook commits exist",
        "baseline_off_cmd": "cmake -S /repo -B /repo/_build -G Ninja -DASMJIT_TEST=ON >/dev/null && cmake --build /repo/_build -j16 >/dev/null && ctest --test-dir /repo/_build -j8 --timeout 900",
        "source_commits": [],
        "add_only": True,
    },
    "engines": [
        {"name": "astfacts", "path": "tools/astfacts/astfacts.cc", "serves_properties": sorted(CLAIMS),
         "kind_free_text": "libTooling front end: type-resolved AST + clang::CFG + constant-evaluated tables of one unit -> JSON facts"},
        {"name": "rules", "path": "checks/ lib/ rules/ oracles/", "serves_properties": sorted(CLAIMS),
         "kind_free_text": "python dataflow / structural / table-oracle rules over the facts; ISA database readers run under node"},
    ],
    "checks": [],
    "not_applicable": [],
    "notes": "Static analysis only. Every claimed property is claimed for the clauses named in level_claimed.text (DESIGN.md section 3), never for the behaviour over runtime values.",
}
for pid in sorted(CLAIMS):
    c = CLAIMS[pid]
    if not os.path.exists(os.path.join(HERE, "checks", pid + ".py")):
        continue
    man["checks"].append({
        "property_id": pid,
        "quick_cmd": "./check %s --tier quick" % pid,
        "thorough_cmd": "./check %s --tier thorough" % pid,
        "evidence_file": "evidence/%s.json" % pid,
        "replay_cmd_template": "./check %s --replay {path}" % pid,
        "engine": "astfacts+rules",
        "level_claimed": {"category": "other", "text": c["text"], "design_ref": c["design_ref"]},
        "level_note": c["note"],
        "technique": c["technique"],
    })
claimed = {c["property_id"] for c in man["checks"]}
for pid in sorted(set(NOT_APPLICABLE) | (set(CLAIMS) - claimed)):
    if pid in claimed:
        continue
    reason = NOT_APPLICABLE.get(pid) or ("check not built yet; planned clauses: " + CLAIMS[pid]["design_ref"])
    man["not_applicable"].append({"property_id": pid, "reason": reason})
with open(os.path.join(HERE, "MANIFEST.json"), "w") as fh:
    json.dump(man, fh, indent=1)
    fh.write("\n")
print("claimed:", sorted(claimed))
print("not applicable:", [x["property_id"] for x in man["not_applicable"]])
