#!/usr/bin/env python3
"""add_regress.py <commit> <property[,property..]> <what failed> [key ...] : records a /repo fix: commit as `fixed` in known_findings.json
and keeps its reverse patch as a positive example for the thorough self-test (seeded/regress-<commit>/)."""
import json, os, subprocess, sys
commit, props, what = sys.argv[1], sys.argv[2].split(","), sys.argv[3]
keys = sys.argv[4:]
d = "/verif/seeded/regress-%s" % commit
os.makedirs(d, exist_ok=True)
patch = subprocess.check_output(["git", "-C", "/repo", "diff", commit, commit + "~1", "--", "asmjit", "db", "tools"], text=True)
open(d + "/patch.diff", "w").write(patch)
subj = subprocess.check_output(["git", "-C", "/repo", "log", "-1", "--format=%s", commit], text=True).strip()
json.dump({"id": "regress-" + commit, "property": props[0],
           "origin": "reverse of the /repo commit %s (%s): re-introduces a genuine defect found on the pinned tree" % (commit, subj),
           "needs_to_manifest": what, "verified_by": "replayed concretely before the fix (see DESIGN.md 8.3 and replays/)", "keys": keys},
          open(d + "/meta.json", "w"), indent=1)
k = json.load(open("/verif/known_findings.json"))
for p in props:
    k["findings"].append({"property": p, "status": "fixed", "key": keys[0] if keys else "(no rule key)", "commit": commit, "what": what,
                          "line": "fixed: property=%s %s %s" % (p, commit, what)})
json.dump(k, open("/verif/known_findings.json", "w"), indent=1)
print("recorded", commit)
