#!/usr/bin/env python3
"""Runs every claimed check against every seeded change in /verif/seeded/*/patch.diff (applied to /repo, then reverted)
and writes seeded/MATRIX.json: which checks report a violation for which seed."""
import json, os, subprocess, sys, glob
HERE = os.path.dirname(os.path.dirname(os.path.abspath(__file__)))
os.chdir(HERE)
man = json.load(open("MANIFEST.json"))
props = [c["property_id"] for c in man["checks"]]
only = sys.argv[1:]
import tempfile
_TMP = tempfile.mkdtemp(prefix="verif-matrix-")
os.makedirs(_TMP + "/ev"); os.makedirs(_TMP + "/rep")
ENV = dict(os.environ, VERIF_EVIDENCE_DIR=_TMP + "/ev", VERIF_REPORT_DIR=_TMP + "/rep")   # never overwrite /verif/evidence with patched-tree results
matrix = {}
if os.path.exists("seeded/MATRIX.json"):
    matrix = json.load(open("seeded/MATRIX.json"))
assert subprocess.run(["git", "-C", "/repo", "diff", "--quiet"]).returncode == 0, "/repo has local changes"
for d in sorted(glob.glob("seeded/*/")):
    sid = os.path.basename(d.rstrip("/"))
    if only and sid not in only:
        continue
    patch = os.path.join(HERE, d, "patch.diff")
    if subprocess.run(["git", "-C", "/repo", "apply", "--check", patch]).returncode != 0:
        matrix[sid] = {"applies": False}
        continue
    subprocess.check_call(["git", "-C", "/repo", "apply", patch])
    try:
        res = {}
        from concurrent.futures import ThreadPoolExecutor
        def one(p):
            r = subprocess.run(["./check", p, "--tier", "quick"], stdout=subprocess.PIPE, stderr=subprocess.STDOUT, text=True, env=ENV)
            rules = sorted({l.split()[2] for l in r.stdout.splitlines() if l.strip().startswith("violated:")})
            return p, r.returncode, rules
        with ThreadPoolExecutor(8) as ex:
            for p, rc, rules in ex.map(one, props):
                if rc == 1:
                    res[p] = {"exit": rc, "rules": rules}
        matrix[sid] = {"applies": True, "caught_by": res}
    finally:
        subprocess.check_call(["git", "-C", "/repo", "checkout", "--", "."])
    print(sid, "->", {k: v["rules"] for k, v in matrix[sid].get("caught_by", {}).items()}, flush=True)
json.dump(matrix, open("seeded/MATRIX.json", "w"), indent=1, sort_keys=True)
import shutil; shutil.rmtree(_TMP, ignore_errors=True)
