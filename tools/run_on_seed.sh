#!/bin/bash
# run_on_seed.sh <patch.diff> [props...] : apply a seeded change to /repo, run the checks, undo it.
set -u
P=$(realpath "$1"); shift
cd /verif
git -C /repo diff --quiet || { echo "/repo has local changes"; exit 2; }
git -C /repo apply "$P" || { echo "patch does not apply to /repo"; exit 2; }
trap 'git -C /repo checkout -q -- .; rm -rf "$TMPD"' EXIT
TMPD=$(mktemp -d /tmp/verif-seedrun-XXXXXX); export VERIF_EVIDENCE_DIR=$TMPD/ev VERIF_REPORT_DIR=$TMPD/rep; mkdir -p $TMPD/ev $TMPD/rep   # never overwrite /verif/evidence with results of a patched tree
if [ $# -eq 0 ]; then ./check all --tier quick 2>&1 | grep -E "^== |VIOLATION|violated:|ANALYSIS-BROKEN"; else for p in "$@"; do ./check $p --tier quick 2>&1 | grep -E "VIOLATION|violated:|ANALYSIS-BROKEN|tier="; done; fi
