"""R-CVT-DIRECTION (C06): an argument that changes between float and double is converted in the right direction.

emit_arg_move(dst, dst_type, src, src_type) converts when the scalar types differ.  The x86 conversion mnemonics name their direction:
cvtSS2SD / cvtPS2PD read single precision and write double, cvtSD2SS / cvtPD2PS the opposite.  Under the branch condition
`dst_scalar_id == kFloat32 && src_scalar_id == kFloat64` (a double that has to arrive as a float) only the ...d2.s forms are right,
and vice versa.

Must-analysis of the two equality facts on the taken edges; every instruction-id accessor `ids().cvt*()` selected while both are
known must read the source's precision and write the destination's."""
from . import cfg
from .must import Must

READS = {"cvtss2sd": ("kFloat32", "kFloat64"), "cvtps2pd": ("kFloat32", "kFloat64"), "cvtsd2ss": ("kFloat64", "kFloat32"), "cvtpd2ps": ("kFloat64", "kFloat32")}


def run(chk, unit="asmjit/x86/x86emithelper.cpp", rule="R-CVT-DIRECTION"):
    chk.rule(rule, "x86 EmitHelper::emit_arg_move(): a conversion instruction selected where `dst_scalar_id == kFloatA` and `src_scalar_id == "
                   "kFloatB` hold is one that reads precision B and writes precision A (cvtss2sd / cvtps2pd: single -> double, cvtsd2ss / "
                   "cvtpd2ps: double -> single)")
    f = chk.facts(unit, funcs=r"asmjit::x86::EmitHelper::emit_arg_move$")
    fns = [g for g in cfg.load_functions(f) if g.file.endswith(unit.split("/")[-1])]
    chk.need(fns, "x86 emit_arg_move not found")
    fn = fns[0]

    bool_inits = {}
    for d_ in fn.ex.values():
        if d_["k"] == "decl":
            for v_ in d_["vars"]:
                if v_.get("init") is not None and "bool" in (v_.get("ty") or ""):
                    bool_inits[v_["did"]] = v_["init"]
    reassigned = {(fn.e(fn.strip(y["lhs"])) or {}).get("did") for y in fn.ex.values() if y["k"] == "binop" and y["op"].endswith("=") and y["op"] not in ("==", "!=", "<=", ">=")}

    def edge(b, si, atom, holds):
        x = fn.e(atom)
        if x is not None and x["k"] == "ref" and x.get("did") in bool_inits and x["did"] not in reassigned and holds:
            # `const bool is_f64_to_f32 = dst == .. && src == ..; if (is_f64_to_f32)`: the initialiser holds
            return edge(b, si, fn.strip(bool_inits[x["did"]]), True)
        if x is not None and x["k"] == "binop" and x["op"] == "&&" and holds:
            # a named conjunction (`const bool is_f64_to_f32 = a == .. && b == ..`) that holds: both sides hold
            return list(edge(b, si, fn.strip(x["lhs"]), True)) + list(edge(b, si, fn.strip(x["rhs"]), True))
        if x is not None and x["k"] == "binop" and x["op"] == "==" and holds:
            for u, w in ((x["lhs"], x["rhs"]), (x["rhs"], x["lhs"])):
                ux, wx = fn.e(fn.strip(u)), fn.e(fn.strip(w))
                if ux is not None and ux["k"] == "ref" and ux.get("name") in ("dst_scalar_id", "src_scalar_id") and wx is not None and wx.get("name") in ("kFloat32", "kFloat64"):
                    return [(ux["name"][:3], wx["name"])]
        return ()
    m = Must(fn, None, edge)
    par = fn.parent_map()
    n = 0
    for i, x in sorted(fn.calls(lambda x: x["k"] == "mcall" and x.get("cn") in READS)):
        st = m.before(i)
        j = i
        while st is None and j in par:
            j = par[j]
            st = m.before(j)
        st = st or frozenset()
        dst = [t[1] for t in st if t[0] == "dst"]
        src = [t[1] for t in st if t[0] == "src"]
        if not dst or not src:
            continue
        n += 1
        reads, writes = READS[x["cn"]]
        chk.ob(rule, "emit_arg_move|%s@%d" % (x["cn"], fn.line_of(i) - fn.line), reads == src[0] and writes == dst[0], loc=fn.loc(i),
               detail="`%s` converts %s to %s, but on this path the source is %s and the destination %s: the argument arrives as the "
                      "reinterpreted bits of the wrong conversion" % (x["cn"], reads[1:], writes[1:], src[0][1:], dst[0][1:]), key="cvtdir|%s" % x["cn"])
    chk.floor(rule + ":conversions", n, 4)
    return n
