"""C08.c — argument round trip of data nodes: for an emitter call M(p0, p1, ..) that the Builder records as node N
and replays as dst->M(node->a0(), node->a1(), ..): the i-th replay argument must be produced by the accessor of the
field that N's constructor initialises from the constructor argument that M built from its own i-th parameter."""
import re
from . import cfg


def root_param(fn, eid):
    """Name of the parameter an expression is rooted in (label.id() -> label, uint32_t(data_size) -> data_size)."""
    names = {p["name"] for p in fn.params}
    for j in fn.walk(eid):
        y = fn.e(j)
        if y["k"] == "ref" and y.get("dk") == "parm" and y["name"] in names:
            return y["name"]
    return None


def ctor_arg_to_field(ctor):
    """ctor Fn -> {param name: field}"""
    out = {}
    for ini in ctor.raw.get("ctor_inits", []):
        if "field" in ini and ini.get("init"):
            p = root_param(ctor, ini["init"])
            if p:
                out[p] = ini["field"]
    return out


def accessor_field(fn):
    """field returned by a getter (return _f; / return T(_f);), else None"""
    rets = list(fn.return_sites())
    if len(rets) != 1 or fn.params:
        return None
    v = fn.e(rets[0][2]).get("val")
    for j in fn.walk(v):
        y = fn.e(j)
        if y["k"] == "member" and y.get("this") and not y.get("method"):
            return y["field"]
    return None


def run(chk, fns_builder, closure, facts_nodes, rule="R-ARG-ROUNDTRIP"):
    chk.rule(rule, "for align / embed_label / embed_label_delta / bind / comment: the i-th argument of the replay call in serialize_to comes, "
                   "through the node's accessor, field and constructor, from the i-th parameter of the recording call")
    # node classes: ctors and accessors
    ctors, accessors = {}, {}
    for fo in facts_nodes["functions"]:
        fn = cfg.Fn(fo)
        cls = fn.raw.get("cls", "").replace("asmjit::", "")
        short = fn.name.split("::")[-1]
        if not cls:
            continue
        if short == cls.split("::")[-1]:
            m = ctor_arg_to_field(fn)
            if m and (cls not in ctors or len(m) > len(ctors[cls][0])):
                ctors[cls] = (m, [p["name"] for p in fn.params])
        else:
            f = accessor_field(fn)
            if f:
                accessors.setdefault(cls, {})[short] = f
    n = 0
    for mname in ("align", "embed_label", "embed_label_delta", "bind", "comment"):
        M = fns_builder.get("BaseBuilder::" + mname)
        if M is None:
            continue
        # recording: new_node_t<N>(Out(node), args..) directly or through new_<x>_node helper
        rec = None
        cands = [M] + [fns_builder[k] for k in fns_builder if re.match(r"BaseBuilder::new_\w+_node$", k)]
        callee_helpers = {x.get("cn") for i, x in M.calls()}
        for g in cands:
            if g is not M and g.name.split("::")[-1] not in callee_helpers:
                continue
            for i, x in g.calls(lambda x: x.get("cn") == "new_node_t" and x.get("targs")):
                rec = (g, x)
        if rec is None:
            continue
        g, call = rec
        ncls = call["targs"][0].replace("asmjit::", "")
        if ncls not in ctors:
            continue
        cmap, cparams = ctors[ncls]
        ctor_args = call["args"][1:]
        # ctor arg j originates from which parameter of g; if g is a helper, map helper params positionally to M's params
        origin = []
        for a in ctor_args:
            pn = root_param(g, a)
            if g is not M and pn is not None:
                # helper(out, p1, p2..) called by M with its own params in the same order
                hp = [p["name"] for p in g.params]
                hcall = [x for i, x in M.calls(lambda x: x.get("cn") == g.name.split("::")[-1])]
                if hcall and pn in hp:
                    idx = hp.index(pn)
                    pn = root_param(M, hcall[0]["args"][idx]) if idx < len(hcall[0]["args"]) else None
            origin.append(pn)
        mparams = [p["name"] for p in M.params]
        # replay call
        rep = None
        for gg in closure:
            for i, x in gg.calls(lambda x: x.get("cn") == mname and x["k"] == "mcall" and x.get("obj") and "BaseEmitter" in gg.e(gg.strip(x["obj"])).get("ty", "")):
                rep = (gg, x)
        if rep is None:
            continue
        gg, rcall = rep
        for i, a in enumerate(rcall["args"]):
            acc = None
            for j in gg.walk(a):
                y = gg.e(j)
                if y["k"] == "mcall" and y.get("cls", "").replace("asmjit::", "") in (ncls,) and y.get("cn") in accessors.get(ncls, {}):
                    acc = y["cn"]
                    break
            if acc is None:
                continue
            fld = accessors[ncls][acc]
            cp = [p for p, f in cmap.items() if f == fld]
            src = None
            if cp and cp[0] in cparams:
                j = cparams.index(cp[0])
                src = origin[j] if j < len(origin) else None
            n += 1
            want = mparams[i] if i < len(mparams) else None
            chk.ob(rule, "%s|arg%d" % (mname, i), src == want, loc=gg.loc(rcall["args"][i]),
                   detail="replay argument %d of dst->%s() is node->%s() = field %s, which the recording call fills from parameter `%s` (expected `%s`)" % (
                       i, mname, acc, fld, src, want), key="roundtrip|%s|arg%d" % (mname, i))
    chk.floor(rule + ":arguments", n, 4)
