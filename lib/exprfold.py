"""Constant folding of small pure accessor expressions over a finite grid of leaf values (no /repo code is executed:
the dumped expression tree is folded by this module).  Accessor calls on `this` are inlined through the single return
expression of the callee when the callee was dumped; every other sub-expression is a leaf that `leaf(text, node)` must
value (or raise Unknown)."""
import re


class Unknown(Exception):
    pass


class Folder:
    def __init__(self, fns_by_name, leaf, width=64):
        self.fns = fns_by_name        # qualified callee name -> Fn
        self.leaf = leaf
        self.M = (1 << width) - 1

    def ret_of(self, fn):
        rets = list(fn.return_sites())
        if len(rets) != 1:
            raise Unknown()
        return fn.e(rets[0][2]).get("val")

    def fold(self, fn, eid, depth=0):
        x = fn.e(eid)
        if x is None or depth > 30:
            raise Unknown()
        k = x["k"]
        if k in ("int", "bool") and isinstance(x.get("cv"), int):
            return x["cv"]
        if k in ("call", "binop", "cast", "paren", "unop") and isinstance(x.get("cv"), int):
            return x["cv"] & self.M if x["cv"] < 0 else x["cv"]      # a constant the compiler evaluated (constexpr helper, literal arithmetic)
        if k in ("paren", "cast"):
            v = self.fold(fn, x["sub"], depth + 1)
            return int(bool(v)) if (x.get("ty") == "bool") else v
        if k == "construct" and len(x.get("args", [])) == 1:
            return self.fold(fn, x["args"][0], depth + 1)
        if k == "cond":
            return self.fold(fn, x["a"], depth + 1) if self.fold(fn, x["c"], depth + 1) else self.fold(fn, x["b"], depth + 1)
        if k == "unop":
            v = self.fold(fn, x["sub"], depth + 1)
            return {"!": int(not v), "~": ~v & self.M, "-": (-v) & self.M, "+": v}.get(x["op"], None) if x["op"] in ("!", "~", "-", "+") else self._unk()
        if k == "binop":
            op = x["op"]
            if op == "||":
                return int(bool(self.fold(fn, x["lhs"], depth + 1)) or bool(self.fold(fn, x["rhs"], depth + 1)))
            if op == "&&":
                return int(bool(self.fold(fn, x["lhs"], depth + 1)) and bool(self.fold(fn, x["rhs"], depth + 1)))
            a, b = self.fold(fn, x["lhs"], depth + 1), self.fold(fn, x["rhs"], depth + 1)
            if op in ("<", "<=", ">", ">=", "==", "!="):
                return int({"<": a < b, "<=": a <= b, ">": a > b, ">=": a >= b, "==": a == b, "!=": a != b}[op])
            if op == "+":
                return (a + b) & self.M
            if op == "-":
                return (a - b) & self.M
            if op == "*":
                return (a * b) & self.M
            if op == "&":
                return a & b
            if op == "|":
                return a | b
            if op == "^":
                return a ^ b
            if op == "<<":
                return (a << b) & self.M
            if op == ">>":
                return a >> b
            raise Unknown()
        if k == "opcall" and x.get("op") in ("&", "|", "^", "~") and x.get("args"):
            vals = [self.fold(fn, a, depth + 1) for a in x["args"]]
            if x["op"] == "~" and len(vals) == 1:
                return ~vals[0] & self.M
            if len(vals) == 2:
                return {"&": vals[0] & vals[1], "|": vals[0] | vals[1], "^": vals[0] ^ vals[1]}[x["op"]]
            raise Unknown()
        if k == "call" and x.get("cn") in ("max", "min") and len(x.get("args", [])) == 2:
            a, b = self.fold(fn, x["args"][0], depth + 1), self.fold(fn, x["args"][1], depth + 1)
            return max(a, b) if x["cn"] == "max" else min(a, b)
        if k == "mcall" and not x.get("args") and x.get("obj") and fn.e(x["obj"]) and fn.e(x["obj"])["k"] == "this":
            g = self.fns.get(x.get("callee"))
            if g is not None:
                return self.fold(g, self.ret_of(g), depth + 1)
        return self.leaf(re.sub(r"\s+", "", fn.text(eid)), x)

    def _unk(self):
        raise Unknown()
