"""Shared driver code for the /verif checks: running the fact extractor, recording rule
obligations, known findings, evidence and exit codes.

Exit codes of a check:  0 = every obligation of the property's rules held (known findings are
printed and tolerated), 1 = at least one violation not listed in known_findings.json (a
`VIOLATION property=<id> replay=<path>` line is printed), 2 = analysis broken (an anchor
vanished, a unit did not parse, a rule matched fewer instances than its floor).
"""
import hashlib
import json
import os
import subprocess
import sys
import time

VERIF = os.path.dirname(os.path.dirname(os.path.abspath(__file__)))
REPO = os.environ.get("VERIF_REPO", "/repo")
ASTFACTS = os.path.join(VERIF, "bin", "astfacts")
CACHE = os.path.join(VERIF, ".cache")
CXXFLAGS = ["-std=gnu++17", "-I" + REPO, "-fno-threadsafe-statics", "-UNDEBUG", "-w"]


class AnalysisBroken(Exception):
    pass


_tree_hash = None


def tree_hash():
    """Hash of every file the analyses can read (sources, database, generators)."""
    global _tree_hash
    if _tree_hash is None:
        h = hashlib.sha1()
        for top in ("asmjit", "db", "tools"):
            for root, dirs, files in sorted(os.walk(os.path.join(REPO, top))):
                dirs.sort()
                for f in sorted(files):
                    p = os.path.join(root, f)
                    h.update(p.encode())
                    with open(p, "rb") as fh:
                        h.update(fh.read())
        with open(ASTFACTS, "rb") as fh:
            h.update(hashlib.sha1(fh.read()).digest())
        _tree_hash = h.hexdigest()
    return _tree_hash


def ensure_tools():
    if not os.path.exists(ASTFACTS):
        subprocess.check_call([os.path.join(VERIF, "tools", "build.sh")], stdout=subprocess.DEVNULL)


def astfacts(unit, funcs=None, funcs_calling=None, tables=None, enums=None, records=None, discards=False, globals_=False,
             constcasts=False, funcindex=False, extra_flags=()):
    """Run the extractor on one unit of /repo (path relative to /repo) and return the facts."""
    ensure_tools()
    path = os.path.join(REPO, unit)
    if not os.path.exists(path):
        raise AnalysisBroken("unit %s does not exist" % unit)
    opts = []
    if funcs: opts += ["--funcs", funcs]
    if funcs_calling: opts += ["--funcs-calling", funcs_calling]
    if tables: opts += ["--tables", tables]
    if enums: opts += ["--enums", enums]
    if records: opts += ["--records", records]
    if discards: opts += ["--discards"]
    if globals_: opts += ["--globals"]
    if constcasts: opts += ["--constcasts"]
    if funcindex: opts += ["--funcindex"]
    key = hashlib.sha1(json.dumps([tree_hash(), unit, opts, list(extra_flags), REPO]).encode()).hexdigest()
    os.makedirs(CACHE, exist_ok=True)
    out = os.path.join(CACHE, key + ".json")
    if not os.path.exists(out):
        tmp = out + ".%d.tmp" % os.getpid()
        cmd = [ASTFACTS] + opts + ["-o", tmp, path, "--"] + CXXFLAGS + list(extra_flags)
        p = subprocess.run(cmd, stdout=subprocess.PIPE, stderr=subprocess.PIPE, text=True)
        if p.returncode != 0 or not os.path.exists(tmp):
            raise AnalysisBroken("astfacts failed on %s: %s" % (unit, (p.stderr or p.stdout)[-2000:]))
        os.replace(tmp, out)
        _prune_cache()
    with open(out) as fh:
        d = json.load(fh)
    if d.get("errors", 0):
        raise AnalysisBroken("unit %s parsed with %d errors" % (unit, d["errors"]))
    return d


def _prune_cache(limit=400):
    try:
        files = [os.path.join(CACHE, f) for f in os.listdir(CACHE) if f.endswith(".json")]
        if len(files) > limit:
            files.sort(key=os.path.getmtime)
            for f in files[: len(files) - limit]:
                os.unlink(f)
    except OSError:
        pass


def library_units():
    """All library translation units (asmjit/**/*.cpp), relative to /repo."""
    units = []
    for root, dirs, files in os.walk(os.path.join(REPO, "asmjit")):
        dirs.sort()
        for f in sorted(files):
            if f.endswith(".cpp"):
                units.append(os.path.relpath(os.path.join(root, f), REPO))
    return sorted(units)


def load_json(rel):
    with open(os.path.join(VERIF, rel)) as fh:
        return json.load(fh)


class Check:
    """One run of one property's rules."""

    def __init__(self, prop, tier):
        self.prop = prop
        self.tier = tier
        self.seed = int(os.environ.get("VERIF_SEED", "0") or 0)
        self.t0 = time.time()
        self.obligations = []      # dicts: rule, instance, ok, loc, detail
        self.violations = []       # subset with ok False and not known
        self.known_hits = []
        self.units = set()
        self.rules = {}            # rule -> description
        self.floors = []           # (rule, count, floor)
        self.notes = []
        self.assumptions = []
        self.extra = {}
        self.selftest = None
        kf = load_json("known_findings.json")
        self.known = {}
        for e in kf.get("findings", []):
            if e.get("property") == prop and e.get("status", "known") == "known":
                self.known[e["key"]] = e

    # ---- facts
    def facts(self, unit, **kw):
        self.units.add(unit)
        return astfacts(unit, **kw)

    def rule(self, name, description):
        self.rules[name] = description

    # ---- obligations
    def ob(self, rule, instance, ok, loc="", detail="", key=None):
        """Record one obligation. `key` identifies a violation in known_findings.json; it never
        contains a line number (default: rule + instance)."""
        rec = {"rule": rule, "instance": instance, "ok": bool(ok), "loc": loc, "detail": detail,
               "key": key or ("%s|%s" % (rule, instance))}
        self.obligations.append(rec)
        if not ok:
            if rec["key"] in self.known:
                self.known_hits.append(rec)
            else:
                self.violations.append(rec)
        return ok

    def floor(self, rule, count, minimum):
        self.floors.append((rule, count, minimum))
        if count < minimum:
            raise AnalysisBroken("rule %s matched %d instances, fewer than the floor %d confirmed by hand "
                                 "(anchor moved or extractor broken)" % (rule, count, minimum))

    def need(self, cond, msg):
        if not cond:
            raise AnalysisBroken(msg)

    # ---- finish
    def finish(self, level="other", explanation="", exhaustive=False):
        wall = time.time() - self.t0
        n = len(self.obligations)
        good = sum(1 for o in self.obligations if o["ok"])
        per_rule = {}
        for o in self.obligations:
            r = per_rule.setdefault(o["rule"], {"obligations": 0, "discharged": 0})
            r["obligations"] += 1
            r["discharged"] += 1 if o["ok"] else 0
        samples = []
        seen_rules = {}
        for o in self.obligations:
            c = seen_rules.get(o["rule"], 0)
            if c < 3:
                seen_rules[o["rule"]] = c + 1
                samples.append("%s %s %s -> %s" % (o["loc"], o["rule"], o["instance"], "ok" if o["ok"] else "VIOLATED"))
        distinct = len(set((o["rule"], o["instance"]) for o in self.obligations))
        ev = {
            "property_id": self.prop,
            "tier": self.tier,
            "seed": self.seed,
            "level": level,
            "coverage": {
                "explanation": explanation,
                "obligations": n,
                "discharged": good,
                "evaluations": max(n, 1),
                "distinct_nontrivial": distinct,
                "rule": "one obligation per rule instance found in /repo's current source; distinct = distinct (rule, instance) pairs",
                "samples": samples[:40],
                "exhaustive": exhaustive,
                "per_rule": per_rule,
                "rules": self.rules,
                "floors": [{"rule": r, "matched": c, "floor": f} for (r, c, f) in self.floors],
                "units_analysed": sorted(self.units),
                "known_findings_hit": [o["key"] for o in self.known_hits],
                "checker_cmd": "./check %s --tier %s" % (self.prop, self.tier),
                "trusted_base": ["clang 14 front end (AST, CFG, constant evaluator)", "python rule drivers in /verif/checks"],
            },
            "assumptions": self.assumptions,
            "wall_s": round(wall, 3),
            "violations": len(self.violations),
        }
        ev["coverage"].update(self.extra)
        if self.selftest is not None:
            ev["coverage"]["selftest"] = self.selftest
        evdir = os.environ.get("VERIF_EVIDENCE_DIR") or os.path.join(VERIF, "evidence")
        os.makedirs(evdir, exist_ok=True)
        with open(os.path.join(evdir, self.prop + ".json"), "w") as fh:
            json.dump(ev, fh, indent=1, sort_keys=True)
            fh.write("\n")
        print("%s tier=%s units=%d obligations=%d discharged=%d known=%d violations=%d wall=%.1fs" % (
            self.prop, self.tier, len(self.units), n, good, len(self.known_hits), len(self.violations), wall))
        for r, v in sorted(per_rule.items()):
            print("  rule %-28s %4d/%-4d" % (r, v["discharged"], v["obligations"]))
        seen = set()
        for o in self.known_hits:
            if o["key"] in seen:
                continue
            seen.add(o["key"])
            print("KNOWN-FINDING: property=%s %s [%s] %s" % (self.prop, self.known[o["key"]].get("what", o["detail"]), o["loc"], o["key"]))
        if self.violations:
            rdir = os.environ.get("VERIF_REPORT_DIR") or os.path.join(VERIF, "reports")
            os.makedirs(rdir, exist_ok=True)
            rp = os.path.join(rdir, "%s-%s.json" % (self.prop, self.tier))
            with open(rp, "w") as fh:
                json.dump({"property": self.prop, "tier": self.tier, "violations": self.violations}, fh, indent=1)
            for o in self.violations:
                print("  violated: %s %s %s :: %s" % (o["loc"], o["rule"], o["instance"], o["detail"]))
            print("VIOLATION property=%s replay=%s" % (self.prop, rp))
            return 1
        return 0
