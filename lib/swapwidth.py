"""R-SWAP-WIDTH-FROM-BOTH (C06): a register exchange that resolves a cycle of argument moves is as wide as the wider of the two values.

emit_args_assignment() breaks a two-register cycle with emit_reg_swap(a, b).  Both registers hold live argument values of possibly
different width (int32 in esi, int64 in rdi): the exchange must use the register type of the wider one - an exchange typed after
only one of the two variables truncates the other.

Rule: for every call of emit_reg_swap() the register signature of its operands is data-dependent (through the reaching definitions of
the locals involved) on reg_type() of at least two different objects."""
from . import cfg


def run(chk, unit="asmjit/core/emithelper.cpp", rule="R-SWAP-WIDTH-FROM-BOTH"):
    chk.rule(rule, "BaseEmitHelper::emit_args_assignment(): the operand signature passed to emit_reg_swap() depends - through the definitions "
                   "of the locals it is built from - on reg_type() of both exchanged variables (at least two distinct objects): the exchange is "
                   "as wide as the wider value, never typed after one side only")
    f = chk.facts(unit, funcs=r"asmjit::BaseEmitHelper::emit_args_assignment$")
    fns = [g for g in cfg.load_functions(f) if g.file.endswith(unit.split("/")[-1])]
    chk.need(fns, "emit_args_assignment not found")
    fn = fns[0]
    defs = {}
    for i, x in fn.ex.items():
        if x["k"] == "decl":
            for v in x["vars"]:
                if v.get("init") is not None:
                    defs.setdefault(v["did"], []).append(v["init"])
        elif x["k"] == "binop" and x["op"] == "=":
            l = fn.e(fn.strip(x["lhs"]))
            if l is not None and l["k"] == "ref" and l.get("dk") == "local":
                defs.setdefault(l["did"], []).append(x["rhs"])
    n = 0
    for ci, cx in sorted(fn.calls(lambda x: x.get("cn") == "emit_reg_swap" and x.get("args"))):
        seen, objs, work = set(), set(), list(cx["args"])
        while work:
            e = work.pop()
            for j in fn.walk(e):
                y = fn.e(j)
                if y is None:
                    continue
                if y["k"] == "mcall" and y.get("cn") == "reg_type" and y.get("obj") is not None:
                    objs.add(" ".join(fn.text(y["obj"]).split()))
                if y["k"] == "ref" and y.get("dk") == "local" and y.get("did") not in seen and any(t in (y.get("ty") or "") for t in ("RegType", "Signature")):
                    seen.add(y["did"])
                    work += defs.get(y["did"], [])
        n += 1
        chk.ob(rule, "emit_args_assignment|emit_reg_swap@%d" % (fn.line_of(ci) - fn.line), len(objs) >= 2, loc=fn.loc(ci),
               detail="the width of `%s` is derived from reg_type() of %s only: when the other exchanged variable is wider (int32 in esi, int64 in "
                      "rdi) its upper half is not exchanged" % (" ".join(fn.text(ci).split())[:60], sorted(objs) or "no variable"),
               key="swapwidth|%d" % n)
    chk.floor(rule + ":swaps", n, 1)
    return n
