"""R-ASSIGNED-REG-MARKED-USED (C06): every register FuncDetail hands to an argument is recorded in used_regs().

FuncDetail::used_regs() is what the frame, the argument shuffler and the Compiler take as "registers that are live on entry".
In init_func_detail() of x86 and a64 every `arg.assign_reg_data(type, ID)` is accompanied - in the same basic block - by
`func.add_used_regs(group, bit_mask(ID))` with the same ID expression.  A register that carries an argument (or the address of an
indirectly passed one) and is missing from the mask may be handed out as a scratch register before the argument was read."""
from . import cfg


def run(chk, units=(("asmjit/x86/x86func.cpp", r"x86::FuncInternal::init_func_detail$"), ("asmjit/arm/a64func.cpp", r"a64::FuncInternal::init_func_detail$")),
        rule="R-ASSIGNED-REG-MARKED-USED"):
    chk.rule(rule, "init_func_detail (x86, a64): every assign_reg_data(type, ID) of an argument has an add_used_regs(.., bit_mask(ID)) with the "
                   "same ID local in the same basic block")
    total = 0
    for unit, pat in units:
        f = chk.facts(unit, funcs=pat)
        fn = cfg.find_fn(f, "init_func_detail")
        blk = fn.block_of()
        par = fn.parent_map()

        def block_of(i):
            j = i
            while j not in blk and j in par:
                j = par[j]
            return blk.get(j, (None, None))[0]

        def id_local(e):
            for c in fn.walk(e):
                y = fn.e(c)
                if y is not None and y["k"] == "ref" and y.get("dk") == "local":
                    return y["did"], y.get("name")
            return None, None
        marks = {}
        for i, x in fn.calls(lambda x: x["k"] == "mcall" and x.get("cn") == "add_used_regs" and len(x.get("args") or []) == 2):
            d, _ = id_local(x["args"][1])
            if d is not None:
                marks.setdefault(block_of(i), set()).add(d)
        n = 0
        for i, x in sorted(fn.calls(lambda x: x["k"] == "mcall" and x.get("cn") == "assign_reg_data" and len(x.get("args") or []) >= 2), key=lambda t: fn.line_of(t[0])):
            d, name = id_local(x["args"][1])
            if d is None:
                continue
            n += 1
            arch = unit.split("/")[1]
            chk.ob(rule, "%s::init_func_detail|assign_reg_data#%d(%s)" % (arch, n, name), d in marks.get(block_of(i), set()), loc=fn.loc(i),
                   detail="`%s` hands the register `%s` to an argument without add_used_regs(.., bit_mask(%s)) in the same block: the register is "
                          "not in FuncDetail::used_regs() (Win64 `(int32x4, int32)`: the address of the vector arrives in RCX, used_regs(gp) = RDX only)" %
                          (" ".join(fn.text(i).split())[:60], name, name), key="usedregs|%s|%d" % (arch, n))
        chk.floor(rule + ":" + unit.split("/")[-1], n, 2)
        total += n
    return total
