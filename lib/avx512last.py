"""R-AVX512-STEP-LAST (C12): the {k} / merge-masking adjustment is the last thing query_rw_info() does to the operands.

rw_handle_avx512() turns a write-only destination into read-write when a {k} mask without {z} is present (the masked-off elements
survive).  Per-instruction special cases that *remove* a read (vpternlog with an immediate that ignores the destination) must run
before it: a special case that runs afterwards undoes the read that merge-masking requires.

Rule: in x86 query_rw_info() no modification of `out->_operands[...]` (reset / add_op_flags / clear_op_flags / set_*_byte_mask ...)
is reachable from a call of rw_handle_avx512()."""
from . import cfg
from .cfg import forward

MUTATORS = ("reset", "add_op_flags", "clear_op_flags", "set_op_flags", "set_read_byte_mask", "set_write_byte_mask", "set_extend_byte_mask", "set_rm_size",
            "reset_rm_size", "set_phys_id", "set_consecutive_lead_count")


def run(chk, unit="asmjit/x86/x86instapi.cpp", rule="R-AVX512-STEP-LAST"):
    chk.rule(rule, "x86 query_rw_info(): no call that modifies an operand's RW record (`out->_operands[i].reset / add_op_flags / clear_op_flags / "
                   "set_*`) is reachable from a call of rw_handle_avx512(): the {k} merge-masking read is never undone by a later special case")
    f = chk.facts(unit, funcs=r"asmjit::x86::InstInternal::query_rw_info$")
    fns = [g for g in cfg.load_functions(f) if g.file.endswith(unit.split("/")[-1])]
    chk.need(fns, "query_rw_info not found")
    fn = fns[0]
    steps = {i for i, x in fn.calls(lambda x: x.get("cn") == "rw_handle_avx512")}
    chk.need(steps, "query_rw_info: rw_handle_avx512 is not called")

    def transfer(b, st):
        for el in fn.blocks[b]["elems"]:
            if isinstance(el, int) and el in steps:
                st = el
        return st
    IN, OUT = forward(fn, 0, transfer, lambda ss: max(ss))
    pos = fn.block_of()
    par = fn.parent_map()
    n = 0
    bad = None
    for i, x in sorted(fn.calls(lambda x: x["k"] == "mcall" and x.get("cn") in MUTATORS and x.get("obj") is not None)):
        if "_operands" not in fn.text(x["obj"]):
            continue
        j = i
        while j not in pos and j in par:
            j = par[j]
        if j not in pos:
            continue
        n += 1
        b, idx = pos[j]
        st = IN.get(b, 0)
        for el in fn.blocks[b]["elems"][:idx]:
            if isinstance(el, int) and el in steps:
                st = el
        if st and bad is None:
            bad = (i, st)
    chk.ob(rule, "query_rw_info|operand-mutations-after-avx512-step", bad is None, loc=fn.loc(bad[0]) if bad else "%s:%d" % (unit, fn.line),
           detail="`%s` modifies an operand record after rw_handle_avx512() (line %s) already applied the {k} merge-masking adjustment: a "
                  "special case that clears a read (vpternlog) then reports a masked destination as write-only" %
                  (" ".join(fn.text(bad[0]).split())[:60] if bad else "", fn.line_of(bad[1]) if bad else ""), key="avx512last")
    chk.floor(rule + ":mutations", n, 30)
    return n
