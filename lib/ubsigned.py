"""R-UPPER-BOUND-UNSIGNED (C14, C01): a range check of a 64-bit value against a constant upper bound is not fooled by negative values.

The emitters check every immediate that is packed into a field with one comparison against the field's maximum
(`imm.value_as<uint64_t>() > 0xFFFFu`, `imm16 > 0xFFFFu` with `uint64_t imm16`): the value is compared as *unsigned*, so a negative
input is far above the bound and refused.  The same comparison on a *signed* 64-bit value accepts every negative input, and the
value's sign-extension bits then overwrite the neighbouring fields.

Instances: every relational comparison in the emitter functions between a non-constant 64-bit integer expression and a constant.
An unsigned expression discharges the obligation; a signed one must have its lower bound established (a comparison of the same
expression in the other direction) at every later use of that expression."""
from .must import Must

S64 = ("int64_t", "long", "long long", "const int64_t", "const long", "ssize_t", "intptr_t", "ptrdiff_t")
U64 = ("uint64_t", "unsigned long", "unsigned long long", "const uint64_t", "size_t", "const size_t", "uintptr_t")
REL = ("<", "<=", ">", ">=")


def _pstrip(fn, e):
    x = fn.e(e)
    while x is not None and (x["k"] == "paren" or (x["k"] == "cast" and x.get("implicit"))):
        e = x["sub"]
        x = fn.e(e)
    return e


def _norm(fn, e):
    return " ".join(fn.text(e).split()).replace("this->", "")


def run(chk, fns, rule="R-UPPER-BOUND-UNSIGNED", floor=20):
    chk.rule(rule, "every comparison of a 64-bit value with a constant bound in the emitters compares an unsigned value (negative inputs are "
                   "then above every bound), or - when the value is signed - the other bound of the same expression is established before each "
                   "later use: a one-sided check of a signed immediate accepts all negative inputs, whose sign bits then overwrite the "
                   "neighbouring fields of the encoding")
    n = 0
    for fn in fns:
        par = None
        cmps = []
        for i, x in sorted(fn.ex.items()):
            if x["k"] != "binop" or x["op"] not in REL:
                continue
            for a, b, flip in ((x["lhs"], x["rhs"], False), (x["rhs"], x["lhs"], True)):
                ea = _pstrip(fn, a)
                va, cb = fn.e(ea), fn.e(fn.strip(b))
                if va is None or cb is None or not isinstance(cb.get("cv"), int) or va.get("cv") is not None:
                    continue
                ty = (va.get("ty") or "").strip()
                if ty not in S64 and ty not in U64:
                    continue
                if ty in S64 and (cb.get("ty") or "").strip() in U64:
                    ty = "uint64_t"         # usual arithmetic conversions: the comparison is carried out unsigned
                op = x["op"]
                if flip:
                    op = {"<": ">", "<=": ">=", ">": "<", ">=": "<="}[op]
                cmps.append((i, ea, ty, op, cb["cv"]))
                break
        signed = [c for c in cmps if c[2] in S64]
        m = None
        if signed:
            texts = {_norm(fn, c[1]) for c in signed}

            def edge(b, si, atom, holds, fn=fn, texts=texts):
                x = fn.e(atom)
                if not (x and x["k"] == "binop" and x["op"] in REL):
                    return ()
                for a, b_, flip in ((x["lhs"], x["rhs"], False), (x["rhs"], x["lhs"], True)):
                    t = _norm(fn, _pstrip(fn, a))
                    cb = fn.e(fn.strip(b_))
                    if t in texts and cb is not None and isinstance(cb.get("cv"), int):
                        op = x["op"]
                        if flip:
                            op = {"<": ">", "<=": ">=", ">": "<", ">=": "<="}[op]
                        # which bound does the taken edge establish?
                        lower = (op in (">", ">=")) == holds
                        return [("lb" if lower else "ub", t)]
                return ()
            m = Must(fn, None, edge)
            par = fn.parent_map()
        for i, ea, ty, op, c in cmps:
            n += 1
            inst = "%s|%s@%d" % (fn.name.replace("asmjit::", ""), _norm(fn, ea)[:40], fn.line_of(i) - fn.line)
            if ty in U64:
                chk.ob(rule, inst, True, loc=fn.loc(i))
                continue
            t = _norm(fn, ea)
            # the bound this comparison does NOT give: a `>`/`>=` comparison used as a refusal gives the upper bound on the fall-through
            # edge, a `<`/`<=` one the lower; the missing one must be established at every later non-comparison use
            bad = None
            for j, y in sorted(fn.ex.items()):
                if y["k"] != fn.e(ea)["k"] or _norm(fn, j) != t or j == ea:
                    continue
                p = j
                while p in par and fn.e(par[p])["k"] in ("paren", "cast"):
                    p = par[p]
                px = fn.e(par[p]) if p in par else None
                if px is not None and px["k"] == "binop" and px["op"] in REL:
                    continue
                st = m.before(j)
                q = j
                while st is None and q in par:
                    q = par[q]
                    st = m.before(q)
                st = st or frozenset()
                if ("ub", t) in st and ("lb", t) not in st or ("lb", t) in st and ("ub", t) not in st:
                    bad = j
                    break
            chk.ob(rule, inst, bad is None, loc=fn.loc(i),
                   detail="`%s` compares the signed 64-bit `%s` with one bound only; at `%s` (line %s) the other bound is not established: every "
                          "negative value passes the check and its sign-extension bits are packed over the neighbouring fields" %
                          (" ".join(fn.text(i).split())[:60], t[:40], " ".join(fn.text(par.get(bad, bad)).split())[:50] if bad is not None else "",
                           fn.line_of(bad) if bad is not None else ""),
                   key="ubsigned|%s|%s" % (fn.name.replace("asmjit::", ""), t[:40]))
    chk.floor(rule + ":comparisons", n, floor)
    return n
