"""R-BITSET-GROW-KEEPS-OLD-BITS (C18): growing an ArenaBitSet never rewrites the bit-word that holds the old bits.

When resize() grows a bit set whose size is not a multiple of the word size, the last word of the old size holds old bits below
`start_bit = old_size % bits` and receives new bits above it; the word that holds the last new bit can be that same word.  In
ArenaBitSet::_resize():
  (a) a plain store `data[i] = ...` occurs only inside a loop (the fill of whole new words); every store outside a loop is a
      read-modify-write (`|=`, `&=`) - a plain store to `data[end_index - 1]` wiped the old bits when the new size ends in the old word;
  (b) a pattern merged into a word with `|=` is shifted by a local that is initialised as `<old size> % <word bits>` - the position of
      the first new bit - not by a count of bits."""
from . import cfg


def run(chk, unit="asmjit/support/arenabitset.cpp", rule="R-BITSET-GROW-KEEPS-OLD-BITS"):
    chk.rule(rule, "ArenaBitSet::_resize: stores into the word array outside a loop are read-modify-write; the pattern merged with `|=` is "
                   "shifted by the local initialised as old_size % word_bits")
    f = chk.facts(unit, funcs=r"asmjit::ArenaBitSet::_resize$")
    fn = cfg.find_fn(f, "ArenaBitSet::_resize")
    par = fn.parent_map()
    inits = {}
    for d in fn.ex.values():
        if d["k"] == "decl":
            for v in d["vars"]:
                if v.get("init") is not None:
                    inits[v["did"]] = v["init"]

    def in_loop(i):
        j = i
        while j in par:
            j = par[j]
            y = fn.e(j)
            if y is not None and y["k"] in ("s:WhileStmt", "s:ForStmt", "s:DoStmt", "s:CXXForRangeStmt"):
                return True
        return False

    def is_word_store(x):
        l = fn.e(fn.strip(x["lhs"]))
        if l is None or l["k"] != "subscript":
            return False
        b = fn.e(fn.strip(l["base"]))
        return b is not None and ((b["k"] == "ref" and "BitWord" in (b.get("ty") or "")) or (b["k"] == "member" and b.get("field") == "_data"))

    def old_size_mod(e):
        """the expression is `<old size> % K`, the old size being the member _size or a local initialised from it"""
        x = fn.e(fn.strip(e))
        if x is None or x["k"] != "binop" or x["op"] != "%":
            return False
        l = fn.e(fn.strip(x["lhs"]))
        if l is None:
            return False
        if l["k"] == "member" and l.get("field") == "_size":
            return True
        if l["k"] == "ref" and l.get("did") in inits:
            y = fn.e(fn.strip(inits[l["did"]]))
            return y is not None and y["k"] == "member" and y.get("field") == "_size"
        return False
    n = 0
    for i, x in sorted(fn.ex.items()):
        if x["k"] != "binop" or not x["op"].endswith("=") or x["op"] in ("==", "!=", "<=", ">=") or not is_word_store(x):
            continue
        if in_loop(i):
            continue
        n += 1
        if x["op"] == "=":
            ok, why = False, "a plain store replaces the whole word - when it is the last word of the old size the old bits are lost"
        else:
            ok, why = True, ""
            if x["op"] == "|=":
                # every left shift in the merged value is by the `old_size % bits` local
                for c in fn.walk(x["rhs"]):
                    y = fn.e(c)
                    if y is not None and y["k"] == "binop" and y["op"] == "<<":
                        amt = fn.e(fn.strip(y["rhs"]))
                        good = amt is not None and amt["k"] == "ref" and amt.get("did") in inits and old_size_mod(inits[amt["did"]])
                        if not good:
                            ok, why = False, "the merged pattern is shifted by `%s`, which is not the position of the first new bit (old_size %% word bits)" % " ".join(fn.text(y["rhs"]).split())
        chk.ob(rule, "ArenaBitSet::_resize|store#%d(%s)" % (n, x["op"]), ok, loc=fn.loc(i),
               detail="`%s`: %s (size 3 = 111, resize(10, false) -> 0x0; 000, resize(100, true) -> word 0 = 0xe000000000000000)" %
                      (" ".join(fn.text(i).split())[:70], why), key="bitsetgrow|%d" % n)
    chk.floor(rule + ":stores", n, 2)
    return n
