"""R-LDST-TEMPLATE-SIBLINGS (C02): the addressing-form templates of one load/store row describe the same instruction.

Each a64 BaseLdSt row stores three opcode templates - unsigned offset (`u_offset_op` << 22), pre/post index (`pre_post_op` << 21) and
register offset (`register_op` << 21).  In the A64 load/store encodings (Arm ARM C4.1.66 "Loads and Stores") the fields size
(31:30), 111 (29:27), V (26) and opc (23:22) identify the instruction and are the same in all three addressing forms; only bits 25:24
and 21, 11:10 select the form.  The emitter XORs the X/W selector into one fixed bit position (`x_offset`) for every form, so a row
whose templates disagree in opc swaps the W and X variants in one addressing form (ldrsb / ldrsh, pre/post index)."""
MASK = (0b11 << 30) | (0b111 << 27) | (1 << 26) | (0b11 << 22)


def run(chk, unit="asmjit/arm/a64instdb.cpp", rule="R-LDST-TEMPLATE-SIBLINGS"):
    chk.rule(rule, "a64 InstDB::EncodingData::baseLdSt: in every row the templates `u_offset_op << 22`, `pre_post_op << 21` and "
                   "`register_op << 21` (where present) agree in size (31:30), bits 29:27, V (26) and opc (23:22): the three addressing forms "
                   "of a row encode the same load / store")
    f = chk.facts(unit, tables=r"a64::InstDB::EncodingData::baseLdSt$", enums=r"asmjit::a64::Inst::Id$")
    t = None
    for k, v in f["tables"].items():
        if k.endswith("baseLdSt"):
            t = v.get("value")
    chk.need(isinstance(t, list) and t, "EncodingData::baseLdSt not dumped")
    ids = {v: n for n, v in f["enums"]["asmjit::a64::Inst::Id"]["enumerators"]} if "asmjit::a64::Inst::Id" in f["enums"] else {}
    n = 0
    for ri, row in enumerate(t):
        words = {}
        if row.get("u_offset_op"):
            words["u_offset_op"] = row["u_offset_op"] << 22
        if row.get("pre_post_op"):
            words["pre_post_op"] = row["pre_post_op"] << 21
        if row.get("register_op"):
            words["register_op"] = row["register_op"] << 21
        if len(words) < 2:
            continue
        ref_name, ref = sorted(words.items())[-1] if "u_offset_op" not in words else ("u_offset_op", words["u_offset_op"])
        alt = ids.get(row.get("u_alt_inst_id"), "")
        for name, w in sorted(words.items()):
            if name == ref_name:
                continue
            n += 1
            chk.ob(rule, "baseLdSt[%d]%s|%s" % (ri, ("(" + alt.replace("kId", "").lower() + " row)") if alt else "", name), (w ^ ref) & MASK == 0,
                   loc="%s" % unit,
                   detail="row %d: %s = 0x%08X and %s = 0x%08X differ in the identifying bits 0x%08X (size / V / opc): with the X/W selector XOR-ed "
                          "into the same bit the two addressing forms select opposite variants" % (ri, ref_name, ref, name, w, (w ^ ref) & MASK),
                   key="ldstsiblings|%d|%s" % (ri, name))
    chk.floor(rule + ":templates", n, 12)
    return n
