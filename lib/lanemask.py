"""R-LANE-MASK-LOOKED-AT (C12): every place in a64 query_rw_info() that gives a register operand its byte masks looks at the element
index.

A vector operand written as `v0.b[1]` accesses one lane.  a64 query_rw_info() has two sibling loops (instructions with a consecutive
register list, all others); each assigns `op._write_byte_mask = <all or nothing>` per operand.  The register allocator turns a
write-only operand into read-write only when the reported write mask does not cover the register, so a loop that never consults
Vec::has_element_index() reports ld2 {v0.b, v1.b}[1] as overwriting v0 / v1 and the old lanes are treated as dead.

May-analysis: a plain store to `_write_byte_mask` makes the operand "pending"; the pending state is cleared on both edges of a
branch on has_element_index() and on the failing edge of `is_reg()`; reaching another plain store (next operand) or a return while
pending is a violation."""
from . import cfg
from .must import branch_atoms


def run(chk, unit="asmjit/arm/a64instapi.cpp", rule="R-LANE-MASK-LOOKED-AT"):
    chk.rule(rule, "a64 query_rw_info: after every plain store to OpRWInfo::_write_byte_mask each path to the next such store or to a return "
                   "passes a branch on Vec::has_element_index() or the failing edge of is_reg(): both sibling loops narrow lane accesses")
    f = chk.facts(unit, funcs=r"a64::InstInternal::query_rw_info$")
    fn = cfg.find_fn(f, "query_rw_info")
    stores = set()
    for i, x in fn.ex.items():
        if x["k"] == "binop" and x["op"] == "=":
            l = fn.e(fn.strip(x["lhs"]))
            if l is not None and l["k"] == "member" and l.get("field") == "_write_byte_mask":
                stores.add(i)
    atoms = branch_atoms(fn)
    bad = {}

    def has_call(e, name, depth=0):
        x = fn.e(e)
        if x is None or depth > 10:
            return False
        if x["k"] in ("mcall", "call") and x.get("cn") == name:
            return True
        return any(has_call(c, name, depth + 1) for c in fn.children(e))

    def transfer(b, st):
        for el in fn.blocks[b]["elems"]:
            if isinstance(el, int) and el in stores:
                for p in st:
                    bad.setdefault(p, ("the next operand's masks are stored (line %d)" % fn.line_of(el)))
                st = frozenset([el])
            elif isinstance(el, int):
                x = fn.e(el)
                if x is not None and x["k"] == "return" and st:
                    for p in st:
                        bad.setdefault(p, "the function returns (line %d)" % fn.line_of(el))
        return st

    def edge(b, si, succ, st):
        if b not in atoms or not st:
            return st
        atom, pol = atoms[b]
        if has_call(fn.strip(atom), "has_element_index"):
            return frozenset()
        if has_call(fn.strip(atom), "is_reg") and ((si == 0) != pol):
            return frozenset()
        return st
    # iterate to a fixpoint; `bad` is only meaningful for the final states, so recompute it in a last pass
    IN, OUT = cfg.forward(fn, frozenset(), transfer, lambda xs: frozenset().union(*xs), edge=edge)
    bad.clear()
    for b in fn.blocks:
        if b in IN:
            transfer(b, IN[b])
    for s_ in sorted(stores):
        chk.ob(rule, "a64::query_rw_info|_write_byte_mask@%d" % (fn.line_of(s_) - fn.line), s_ not in bad, loc=fn.loc(s_),
               detail="after the byte masks of an operand are stored (`%s`) %s without Vec::has_element_index() having been consulted for a "
                      "register operand: a lane form (ld2 {v0.b, v1.b}[1]) is reported as overwriting the whole register" %
                      (" ".join(fn.text(s_).split())[:60], bad.get(s_, "")), key="lanemask|%d" % (sorted(stores).index(s_)))
    chk.floor(rule + ":stores", len(stores), 2)
    return len(stores)
