"""Facts and rules shared by the AArch64 clauses of C02 / C14."""
import re
from . import cfg, vbe, narrow
from .regions import Regions

UNIT = "asmjit/arm/a64assembler.cpp"
DBUNIT = "asmjit/arm/a64instdb.cpp"
# _emit plus every free function of namespace a64 (the static helpers of the unit; filtered by file below)
FUNCS = r"a64::Assembler::_emit$|asmjit::a64::[a-z_0-9]+$"


def load(chk):
    f = chk.facts(UNIT, funcs=FUNCS, tables=r"a64::[A-Za-z0-9_]+_table$|a64::[a-z_]+_map$",
                  enums=r"a64::InstDB::EncodingId$")
    helpers = {}
    emit = None
    for fo in f["functions"]:
        fn = cfg.Fn(fo)
        if fn.name == "asmjit::a64::Assembler::_emit":
            emit = fn
        elif fn.file.endswith("/" + UNIT.split("/")[-1]):
            helpers["%s/%d" % (fn.name, len(fn.params))] = fn
    chk.need(emit is not None, "a64::Assembler::_emit not found in %s" % UNIT)
    summaries = vbe.close_summaries(helpers)
    regions = Regions(emit)
    chk.need(regions.dispatch is not None, "dispatch switch over kEncoding* not found in a64::Assembler::_emit")
    db = chk.facts(DBUNIT, tables=r"a64::InstDB::(_inst_info_table|EncodingData::[A-Za-z0-9_]+)$",
                   enums=r"a64::InstDB::EncodingId$|a64::Inst::Id$|a64::InstDB::InstFlags$")
    return {"facts": f, "emit": emit, "helpers": helpers, "summaries": summaries, "regions": regions, "db": db}


def rule_vbe(chk, A, clause):
    emit, summaries, regions = A["emit"], A["summaries"], A["regions"]
    rule = "R-VALIDATE-BEFORE-EMIT"
    chk.rule(rule, "every register id packed (masked with 31) into the a64 instruction word is range-tested on all "
                   "paths before emit32u_le; validators = callees whose body compares the parameter's id")
    r = vbe.analyse(emit, summaries)
    nvalidators = sum(1 for s in summaries.values() if s)
    chk.floor(rule + ":validators", nvalidators, 5)
    chk.floor(rule + ":validator-calls", r["stats"]["validator_calls"], 60)
    chk.floor(rule + ":emit-events", r["stats"]["emits"], 1)
    ordinals = {}
    n = 0
    for key, line, el, b in sorted(r["pack_sites"], key=lambda t: (t[1], t[0])):
        region = regions.of_line(line)
        o = ordinals.get((region, key), 0)
        ordinals[(region, key)] = o + 1
        inst = "%s|%s|%s#%d" % (emit.name.replace("asmjit::", ""), region, key, o)
        bad = (key, line) in r["reports"]
        n += 1
        chk.ob(rule, inst, not bad, loc="%s:%d" % (UNIT, line),
               detail=("register id of `%s` is packed here and reaches emit32u_le (line %d) on a path with no range "
                       "check of that id" % (key, r["reports"].get((key, line), 0))) if bad else "",
               key="vbe|%s" % inst)
    chk.floor(rule + ":pack-sites", n, 120)
    chk.extra.setdefault("vbe_stats", {})[emit.name] = dict(r["stats"], blocks=len(emit.blocks), edge_validators=r["edge_validators"],
                                                           validators={k: {str(i): s for i, s in v.items()} for k, v in summaries.items() if v})
    return r


def rule_dispatch(chk, A):
    emit, regions, db = A["emit"], A["regions"], A["db"]
    rule = "R-SWITCH-COVERS"
    chk.rule(rule, "the dispatch switch of a64 _emit has a case for every EncodingId enumerator (kEncodingNone excluded)")
    enum = db["enums"].get("asmjit::a64::InstDB::EncodingId")
    chk.need(enum is not None, "enum a64::InstDB::EncodingId not found")
    cases = {c["n"]: c for c in regions.dispatch["cases"]}
    names = [n for n, v in enum["enumerators"]]
    chk.floor(rule + ":enumerators", len(names), 80)
    for n in names:
        if n in ("kEncodingNone", "kEncodingCount"):
            continue
        chk.ob(rule, "a64::_emit|" + n, n in cases, loc=UNIT, detail="no `case InstDB::%s` in the dispatch switch" % n)

    # data index bounds
    rule2 = "R-ENCODING-DATA-INDEX"
    chk.rule(rule2, "for each _inst_info_table row: its _encoding is a declared class and its _encoding_data_index is "
                    "inside the EncodingData array that the class's case subscripts with encoding_index")
    tables = db["tables"]
    info = tables.get("asmjit::a64::InstDB::_inst_info_table")
    chk.need(info is not None and isinstance(info.get("value"), list), "a64 _inst_info_table not dumped")
    rows = info["value"]
    chk.floor(rule2 + ":rows", len(rows), 700)
    # case -> arrays subscripted by encoding_index
    case_arrays = {}
    for i, x in emit.ex.items():
        if x["k"] == "subscript":
            idx = emit.e(emit.strip(x["idx"]))
            base = emit.e(emit.strip(x["base"]))
            if idx and idx["k"] == "ref" and idx.get("name") == "encoding_index" and base and base["k"] == "ref" and base.get("dk") == "global":
                for reg in regions.group_of_line(x["l"]):
                    case_arrays.setdefault(reg, set()).add(base["qn"])
    chk.floor(rule2 + ":cases-with-array", len(case_arrays), 60)
    val2name = {v: n for n, v in enum["enumerators"]}
    ids = db["enums"].get("asmjit::a64::Inst::Id", {}).get("enumerators", [])
    id2name = {v: n for n, v in ids}
    for rid, row in enumerate(rows):
        enc = row["_encoding"]
        en = val2name.get(enc)
        nm = id2name.get(rid, str(rid))
        if en is None:
            chk.ob(rule2, "row:%s" % nm, False, loc=DBUNIT, detail="_encoding %d is not an EncodingId enumerator" % enc)
            continue
        if en == "kEncodingNone":
            chk.ob(rule2, "row:%s" % nm, rid == 0, loc=DBUNIT, detail="only id 0 may have kEncodingNone")
            continue
        arrays = case_arrays.get("case:" + en, set())
        ok = True
        det = ""
        for a in arrays:
            t = tables.get(a)
            if t is None or not isinstance(t.get("value"), list):
                raise_broken = "EncodingData array %s used by case %s was not dumped" % (a, en)
                chk.need(False, raise_broken)
            if row["_encoding_data_index"] >= len(t["value"]):
                ok = False
                det = "_encoding_data_index %d >= length %d of %s read by case %s" % (row["_encoding_data_index"], len(t["value"]), a, en)
        chk.ob(rule2, "row:%s" % nm, ok, loc=DBUNIT, detail=det)


def rule_db(chk, A):
    # database cross-checks are added by lib/a64db.py when available
    try:
        from . import a64db
    except ImportError:
        return
    a64db.run(chk, A)
    a64db.run_opcodes(chk, A)
    a64db.run_widths(chk, A)


def rule_imm(chk, A):
    """immediate clauses: 64-bit immediates are range-tested before they are narrowed, and condition codes are bounded by the enum"""
    emit = A["emit"]
    n = narrow.run(chk, [emit], rule="R-NARROW-GUARDED", floor=12, lossy=True, helpers=A["helpers"])
    f = chk.facts("asmjit/arm/a64assembler.cpp", enums=r"asmjit::arm::CondCode$")
    en = f["enums"].get("asmjit::arm::CondCode")
    chk.need(en is not None, "enum arm::CondCode not found")
    limit = max(v for _, v in en["enumerators"] if v < 256)
    R = "R-COND-BOUNDED"
    chk.rule(R, "every 64-bit immediate passed to cond_code_to_opcode_field has, on all paths, an upper bound (from the dominating comparisons, "
                "`x - c > K` idiom included) not larger than the largest arm::CondCode enumerator: no out-of-range condition is encoded")
    k = narrow.bounded_sink(chk, R, emit, "cond_code_to_opcode_field", limit, "the largest arm::CondCode")
    chk.floor(R + ":sinks", k, 4)


VALIDATOR_FAMILIES = ("check_gp_id", "check_vec_id", "check_valid_regs")


def rule_validators(chk, A):
    """sibling agreement of the register-id validators (finite evaluation of their predicates, lib/predeval.py)"""
    from . import predeval
    R = "R-VALIDATOR-SIBLINGS"
    chk.rule(R, "the overloads of each AArch64 register-id validator (check_gp_id, check_vec_id, check_valid_regs) accept the same set of ids "
                "for every operand position (predicates folded over ids 0..63 and hi_id / register-type symbols in {0,31,63}), and never "
                "an id that does not fit the 5-bit register field")
    helpers = A["helpers"]
    n = 0
    for fam in VALIDATOR_FAMILIES:
        sigs = []
        for key, fn in sorted(helpers.items()):
            if key.split("/")[0].split("::")[-1] != fam:
                continue
            p = predeval.Pred(fn, helpers)
            if not p.usable():
                chk.ob(R, "%s|evaluable" % key.replace("asmjit::a64::", ""), False, loc="%s:%d" % (UNIT, fn.line),
                       detail="validator %s is no longer a single pure return expression over operand ids: its accepted ids cannot be decided" % key)
                continue
            for k in range(len(p.ops)):
                try:
                    sigs.append((key.replace("asmjit::a64::", ""), k, p.signature(k), fn))
                except predeval.Unknown:
                    chk.ob(R, "%s|operand%d|evaluable" % (key.replace("asmjit::a64::", ""), k), False, loc="%s:%d" % (UNIT, fn.line),
                           detail="the predicate of %s for operand %d contains a construct the evaluator does not understand" % (key, k))
        if not sigs:
            continue
        # reference = the most common signature (ties: the single-operand overload)
        from collections import Counter
        cnt = Counter(s[2] for s in sigs)
        ref = max(cnt.items(), key=lambda t: (t[1], t[0] == sigs[0][2]))[0]
        for key, k, sig, fn in sigs:
            n += 1
            fits = all(not sig[j * 64 + i] for j in range(len(predeval.SYMVALS)) for i in range(32, 64) if i != predeval.SYMVALS[j])
            chk.ob(R, "%s|operand%d" % (key, k), sig == ref and fits, loc="%s:%d" % (UNIT, fn.line),
                   detail="%s accepts for operand %d: %s; its siblings accept: %s%s" % (key, k, predeval.describe(sig), predeval.describe(ref),
                                                                                       "" if fits else " (ids above 31 do not fit the register field)"),
                   key="validator|%s|operand%d" % (key, k))
    chk.floor(R + ":operand-positions", n, 10)


# Arm ARM (DDI 0487) C6.2 "LDR (register)" / "STR (register)" / "PRFM (register)": option<2:0> = 010 UXTW, 011 LSL, 110 SXTW, 111 SXTX;
# every other ShiftOp cannot be encoded as an index extend (0xFF = refused by the encoder).
LDST_OPTION = {"kUXTW": 2, "kLSL": 3, "kSXTW": 6, "kSXTX": 7}


def rule_tables(chk, A):
    R = "R-TABLE-ORACLE"
    chk.rule(R, "AArch64 assembler lookup tables equal an independent oracle for every entry: shift_op_to_ld_st_opt_map (Arm ARM option field of "
                "register-offset loads/stores per ShiftOp), common_hi_reg_id_of_type_table (largest register id per RegType: 63 = ZR for Gp32/Gp64, "
                "31 for the vector views, 0 otherwise)")
    f = chk.facts(UNIT, tables=r"a64::(shift_op_to_ld_st_opt_map|common_hi_reg_id_of_type_table)$", enums=r"asmjit::arm::ShiftOp$|asmjit::RegType$")
    T = f["tables"]
    so = f["enums"].get("asmjit::arm::ShiftOp")
    rt = f["enums"].get("asmjit::RegType")
    chk.need(so is not None and rt is not None, "enums arm::ShiftOp / RegType not found")
    m = T.get("asmjit::a64::shift_op_to_ld_st_opt_map")
    chk.need(m is not None and isinstance(m.get("value"), list), "shift_op_to_ld_st_opt_map not dumped")
    byval = {}
    for n, v in so["enumerators"]:
        byval.setdefault(v, n)
    n_ent = 0
    for i, got in enumerate(m["value"]):
        name = byval.get(i)
        want = LDST_OPTION.get(name, 0xFF)
        n_ent += 1
        chk.ob(R, "shift_op_to_ld_st_opt_map[%s]" % (name or i), got == want, loc=UNIT,
               detail="shift_op_to_ld_st_opt_map[%s] is %d, the architecture's option field for that extend is %s" % (name or i, got, want if want != 0xFF else "none (0xFF)"))
    h = T.get("asmjit::a64::common_hi_reg_id_of_type_table")
    chk.need(h is not None, "common_hi_reg_id_of_type_table not dumped")
    hv = h["value"]["_data"] if isinstance(h["value"], dict) else h["value"]
    rtv = {}
    for n, v in rt["enumerators"]:
        rtv.setdefault(v, n)
    for i, got in enumerate(hv):
        name = rtv.get(i, "")
        want = 63 if name in ("kGp32", "kGp64") else 31 if name in ("kVec8", "kVec16", "kVec32", "kVec64", "kVec128") else 0
        n_ent += 1
        chk.ob(R, "common_hi_reg_id_of_type_table[%s]" % (name or i), got == want, loc=UNIT,
               detail="common_hi_reg_id_of_type_table[%s] is %d, expected %d" % (name or i, got, want))
    chk.floor(R + ":a64-entries", n_ent, 40)


def rule_mem_index(chk, A):
    """the index register of a memory operand is packed only after its register type was looked at"""
    from .must import Must
    R = "R-MEM-INDEX-TYPE-CHECKED"
    chk.rule(R, "a64 _emit: wherever Mem::index_id() is packed into an instruction (add_reg/add_imm directly or through a local), every path to "
                "that point passed, on its accepting edge, a test of the operand's index_type() - directly or through a unit helper whose body "
                "reads index_type() of its parameter (check_mem_base_index_rel): the 5-bit Rm field says nothing about the register's kind, so "
                "an untested index accepts a W or vector register as if it were X")
    emit, helpers = A["emit"], A["helpers"]
    type_checkers = set()
    for key, g in helpers.items():
        if (g.raw.get("ret") or "") == "bool" and any(x["k"] == "mcall" and x.get("cn") == "index_type" for x in g.ex.values()):
            type_checkers.add(g.name)

    def edge(b, si, atom, holds, fn=emit):
        x = fn.e(atom)
        if x is None:
            return ()
        if x["k"] == "call" and x.get("callee") in type_checkers and holds:
            return [("index-type-checked",)]
        if any((fn.e(j) or {}).get("k") == "mcall" and fn.e(j).get("cn") == "index_type" for j in fn.walk(atom)):
            return [("index-type-checked",)]
        return ()
    m = Must(emit, None, edge)
    # locals that carry an index id
    carriers = {}
    for i, x in emit.ex.items():
        src = None
        if x["k"] == "binop" and x["op"] == "=":
            l = emit.e(emit.strip(x["lhs"]))
            r = emit.e(emit.strip(x["rhs"]))
            if l is not None and l["k"] == "ref" and l.get("dk") == "local" and r is not None and r["k"] == "mcall" and r.get("cn") == "index_id":
                src = (l["did"], i)
        elif x["k"] == "decl":
            for v in x["vars"]:
                r = emit.e(emit.strip(v["init"])) if v.get("init") else None
                if r is not None and r["k"] == "mcall" and r.get("cn") == "index_id":
                    src = (v["did"], i)
        if src:
            carriers.setdefault(src[0], []).append(src[1])
    n = 0
    sites = []
    for i, x in emit.calls(lambda x: x["k"] == "mcall" and x.get("cn") in ("add_reg", "add_imm") and x.get("args")):
        a = emit.e(emit.strip(x["args"][0]))
        if a is None:
            continue
        if a["k"] == "mcall" and a.get("cn") == "index_id":
            sites.append((i, i))
        elif a["k"] == "ref" and a.get("did") in carriers:
            # judged where the id was read: the carrier is assigned under the same guards
            for d in carriers[a["did"]]:
                sites.append((i, d))
    seen = set()
    for pack, at in sites:
        if at in seen:
            continue
        seen.add(at)
        n += 1
        st = m.before(at)
        if st is None:
            st = frozenset()
        chk.ob(R, "a64::_emit|index_id@%d" % n, ("index-type-checked",) in st, loc=emit.loc(at),
               detail="`%s` takes the index register id of the memory operand on a path that never looked at index_type(): [x0], w1 or [x0], v1 is "
                      "encoded as if the index were x1" % " ".join(emit.text(at).split())[:60], key="memindex|%d" % n)
    chk.floor(R + ":sites", n, 2)
    chk.floor(R + ":type-checkers", len(type_checkers), 1)


def rule_mem_index_mode(chk, A):
    """a register index is packed only after the operand's offset mode (plain / pre-index / post-index) was looked at"""
    from .must import Must
    R = "R-INDEX-WRITEBACK-LOOKED-AT"
    chk.rule(R, "a64 _emit: wherever Mem::index_id() is packed into an instruction, every path to that point has read the operand's offset mode "
                "(is_pre_or_post / is_pre_index / is_post_index / is_fixed_offset / offset_mode): A64 has no pre/post-indexed register-offset "
                "form except the post-index of the structure loads, so a path that never looks at the mode encodes `[x1, x2]!` as `[x1, x2]` "
                "and drops the write-back")
    emit, helpers = A["emit"], A["helpers"]
    MODE = ("is_pre_or_post", "is_pre_index", "is_post_index", "is_fixed_offset", "offset_mode")
    mode_helpers = {g.name for g in helpers.values() if any(x["k"] == "mcall" and x.get("cn") in MODE for x in g.ex.values())}

    def elem(eid, x):
        if x["k"] == "mcall" and x.get("cn") in MODE:
            return ((("mode",),), ())
        if x["k"] == "call" and x.get("callee") in mode_helpers:
            return ((("mode",),), ())
        return None
    m = Must(emit, elem, None)
    n = 0
    par = emit.parent_map()
    for i, x in sorted(emit.ex.items()):
        if not (x["k"] == "mcall" and x.get("cn") == "index_id"):
            continue
        # packed (directly or through a local that is packed): every read of index_id() that is not a mere comparison
        p = i
        while p in par and (emit.e(par[p]) or {}).get("k") in ("paren", "cast"):
            p = par[p]
        px = emit.e(par[p]) if p in par else None
        if px is not None and px["k"] == "binop" and px["op"] in ("==", "!=", "<", "<=", ">", ">="):
            continue
        st = m.before(i)
        q = i
        while st is None and q in par:
            q = par[q]
            st = m.before(q)
        n += 1
        chk.ob(R, "a64::_emit|index_id@%d" % n, ("mode",) in (st or frozenset()), loc=emit.loc(i),
               detail="`%s` packs the index register of the memory operand on a path that never read the operand's offset mode: a pre- or "
                      "post-indexed `[base, index]!` is accepted and encoded without the write-back" %
                      " ".join(emit.text(par.get(p, p)).split())[:60], key="memindexmode|%d" % n)
    chk.floor(R + ":sites", n, 2)


# Arm ARM (DDI 0487) C4.1 "Data processing - register": op0:op1 bits 28..24 = 01011 with bit 21 = 0 is "Add/subtract (shifted register)", whose
# shift field 23:22 = 11 is RESERVED; bits 28..24 = 01010 is "Logical (shifted register)", where 11 is ROR.
def _shift_class(op):
    top = (op >> 24) & 0x1F
    if top == 0b01011 and not (op >> 21) & 1:
        return "addsub-shifted", 2
    if top == 0b01010:
        return "logical-shifted", 3
    return None, None


def rule_shift_class(chk, A):
    """a shift type taken from an operand is bounded by what the instruction class of every row of the case can encode"""
    from . import subscript, exprfold
    R = "R-SHIFT-TYPE-CLASS"
    chk.rule(R, "a64 _emit: where a shift type taken from an immediate operand's predicate is packed into bits 23:22, its upper bound on every "
                "path (dominating comparisons) does not exceed what the architectural class of *each* table row of that case allows - ASR (2) for "
                "add/subtract (shifted register) opcodes, whose value 3 is reserved, ROR (3) for logical (shifted register) opcodes; the base opcode "
                "of a row is folded from the case's opcode.reset() expression")
    emit, regions, db = A["emit"], A["regions"], A["db"]
    tables = db["tables"]
    case_arrays = {}
    for i, x in emit.ex.items():
        if x["k"] == "subscript":
            idx = emit.e(emit.strip(x["idx"]))
            base = emit.e(emit.strip(x["base"]))
            if idx and idx["k"] == "ref" and idx.get("name") == "encoding_index" and base and base["k"] == "ref" and base.get("dk") == "global":
                for reg in regions.group_of_line(x["l"]):
                    case_arrays.setdefault(reg, set()).add(base["qn"])
    inits = {}
    for i, x in emit.ex.items():
        if x["k"] == "decl":
            for v in x["vars"]:
                if v.get("init"):
                    inits[v["did"]] = v["init"]
    pred_vars = set()
    for did, e in inits.items():
        src = emit.e(emit.strip(e))
        if src is not None and src["k"] == "mcall" and src.get("cn") == "predicate":
            pred_vars.add(did)
    for i, x in emit.ex.items():
        if x["k"] == "binop" and x["op"] == "=":
            l, r = emit.e(emit.strip(x["lhs"])), emit.e(emit.strip(x["rhs"]))
            if l is not None and l["k"] == "ref" and "did" in l and r is not None and r["k"] == "mcall" and r.get("cn") == "predicate":
                pred_vars.add(l["did"])
    resets = sorted((x["l"], i) for i, x in emit.calls(lambda x: x["k"] == "mcall" and x.get("cn") == "reset" and "Opcode" in (x.get("cls") or "") and x.get("args")))
    hl = {}
    for key, g in A["helpers"].items():
        hl.setdefault(g.name, []).append(g)
    U = subscript.UB(emit, {}, {}, {}, helpers=hl)
    n = nrows = 0
    for i, x in sorted(emit.calls(lambda x: x["k"] == "mcall" and x.get("cn") == "add_imm" and len(x.get("args", [])) == 2)):
        sh = emit.e(emit.strip(x["args"][1]))
        v = emit.e(emit.strip(x["args"][0]))
        if sh is None or sh.get("cv") != 22 or v is None or v["k"] != "ref" or v.get("did") not in pred_vars:
            continue
        n += 1
        regs = [r for r in regions.group_of_line(x["l"]) if r.startswith("case:")]
        arrays = set()
        for r in regs:
            arrays |= case_arrays.get(r, set())
        lo = min(regions.lines[regions.names.index(r)] for r in regs) if regs else 0
        prev = [ri for (l, ri) in resets if lo <= l <= x["l"]]
        inst = "%s|%s@%d" % ("+".join(r[5:] for r in regs), v["name"], n)
        if len(arrays) != 1 or not prev:
            chk.ob(R, inst, False, loc=emit.loc(i), detail="cannot relate the shift-type pack to one EncodingData table and an opcode.reset() of its case", key="shiftclass|" + inst)
            continue
        rows = tables[next(iter(arrays))]["value"]
        reset = prev[-1]
        bound = U.ub(x["args"][0], i)
        worst = None
        for ri, row in enumerate(rows):
            def leaf(txt, node, row=row):
                m = re.match(r"op_data\.([a-z_0-9]+)(\(\))?$", txt)
                if m and m.group(1) in row:
                    return row[m.group(1)]
                raise exprfold.Unknown()
            try:
                op = exprfold.Folder({}, leaf, 32).fold(emit, emit.e(reset)["args"][0])
            except exprfold.Unknown:
                worst = (ri, None, "base opcode not foldable")
                break
            cls, lim = _shift_class(op)
            nrows += 1
            if cls is not None and bound > lim:
                # the guard may depend on the row (`op_data.opcode & B(24) ? kASR : kROR`): bound it again for this row alone
                bound_r = subscript.UB(emit, {}, {}, {}, row_leaf=leaf, helpers=hl).ub(x["args"][0], i)
                if bound_r <= lim:
                    continue
            if cls is None:
                worst = (ri, op, "opcode %08x of row %d belongs to no shifted-register class" % (op, ri))
                break
            if bound > lim:
                worst = (ri, op, "row %d (opcode %08x) is %s: shift types above %d are reserved, but %s can be as large as %s here" %
                         (ri, op, cls, lim, v["name"], bound if bound < (1 << 40) else "(unbounded)"))
                break
        chk.ob(R, inst, worst is None, loc=emit.loc(i), detail=worst[2] if worst else "", key="shiftclass|" + "+".join(r[5:] for r in regs))
    chk.floor(R + ":sites", n, 4)
    chk.floor(R + ":rows", nrows, 10)


def rule_sibling_checks(chk, A):
    """locals computed from the same operand-shape expression inside one encoding case are range-tested alike"""
    import collections
    R = "R-SIBLING-RANGE-CHECK"
    chk.rule(R, "a64 _emit: within one encoding case, integer locals initialised by the same expression over an operand's reg_type() / "
                "element_type() are either all compared in a branch condition or none is: a branch that packs the value its sibling "
                "range-tests accepts the register shapes the sibling rejects")
    emit, regions = A["emit"], A["regions"]
    groups = collections.defaultdict(list)
    for i, x in emit.ex.items():
        if x["k"] == "decl":
            for v in x["vars"]:
                if v.get("init") and v["ty"] in ("uint32_t", "uint64_t", "size_t"):
                    t = re.sub(r"\s+", "", emit.text(v["init"]))
                    if "reg_type" in t or "element_type" in t:
                        reg = tuple(sorted(r for r in regions.group_of_line(x["l"]) if r.startswith("case:")))
                        if reg:
                            groups[(reg, t)].append((v["did"], v["name"], i))
    compared = set()
    for b in emit.blocks.values():
        t = b.get("term")
        if t and t.get("cond"):
            for j in emit.walk(t["cond"]):
                y = emit.e(j)
                if y and y["k"] == "binop" and y["op"] in ("<", "<=", ">", ">=", "==", "!="):
                    for s_ in (y["lhs"], y["rhs"]):
                        for jj in emit.walk(s_):
                            z = emit.e(jj)
                            if z and z["k"] == "ref" and z.get("dk") == "local":
                                compared.add(z["did"])
    n = 0
    chk.floor(R + ":shape-locals", len(groups), 15)
    for (reg, t), lst in sorted(groups.items()):
        if len(lst) < 2:
            continue
        n += 1
        flags = [d in compared for d, _, _ in lst]
        odd = [(nm, emit.line_of(i)) for (d, nm, i), f in zip(lst, flags) if not f]
        good = [(nm, emit.line_of(i)) for (d, nm, i), f in zip(lst, flags) if f]
        ok = not (any(flags) and not all(flags))
        chk.ob(R, "%s|%s" % ("+".join(r[5:] for r in reg), t[:60]), ok, loc="%s:%d" % (UNIT, odd[0][1] if odd else emit.line_of(lst[0][2])),
               detail="`%s` is range-tested where it is computed at line(s) %s but used untested at line(s) %s of the same case" %
                      (t[:70], ",".join(str(l) for _, l in good), ",".join(str(l) for _, l in odd)), key="siblingcheck|%s|%s" % (reg[0][5:], t[:60]))
    # (groups with two or more members can legitimately disappear when the duplicated code is merged into a helper)


def _norm(fn, e, inits=None, depth=0):
    """structural rendering of an expression without casts / parentheses; immutable locals are replaced by their initialiser"""
    x = fn.e(e)
    if x is None or depth > 12:
        return "?"
    k = x["k"]
    if k in ("cast", "paren") or (k == "construct" and len(x.get("args", [])) == 1):
        return _norm(fn, x["sub"] if k != "construct" else x["args"][0], inits, depth + 1)
    if k == "binop":
        return "(%s%s%s)" % (_norm(fn, x["lhs"], inits, depth + 1), x["op"], _norm(fn, x["rhs"], inits, depth + 1))
    if k == "unop":
        return "%s%s" % (x["op"], _norm(fn, x["sub"], inits, depth + 1))
    if k in ("int", "bool") or (isinstance(x.get("cv"), int) and k != "ref"):
        return str(x.get("cv"))
    if k == "ref":
        if inits is not None and x.get("did") in inits:
            return _norm(fn, inits[x["did"]], inits, depth + 1)
        return x.get("name") or x.get("qn") or "?"
    if k == "member":
        return "%s.%s" % (_norm(fn, x.get("base"), inits, depth + 1), x.get("field"))
    if k in ("call", "mcall", "opcall"):
        args = ",".join(_norm(fn, a, inits, depth + 1) for a in x.get("args", []))
        obj = (_norm(fn, x["obj"], inits, depth + 1) + ".") if x.get("obj") else ""
        return "%s%s(%s)" % (obj, x.get("cn") or x.get("op"), args)
    return re.sub(r"\s+", "", fn.text(e))


def rule_shift_lossless(chk, A):
    """an operand value that is scaled down by a data-dependent shift was shown to lose no bits under the SAME shift"""
    from .must import Must
    R = "R-SHIFT-LOSSLESS"
    chk.rule(R, "a64 _emit: a local `v = E >> S` (E an offset / immediate of an operand, S not a literal) is packed only after a condition that "
                "proves no bit was dropped under the same S: the round trip `(v << S) == E` (or Support::shl(v, S)), a low-bits test "
                "`E & lsb_mask(S)`, or is_aligned(E, 1 << S) - S compared structurally with immutable locals expanded, so a test with the "
                "instruction's base shift does not cover a shift that also depends on the register width")
    emit = A["emit"]
    assigned = set()
    inits = {}
    for i, x in emit.ex.items():
        if x["k"] == "decl":
            for v in x["vars"]:
                if v.get("init"):
                    inits[v["did"]] = v["init"]
        elif x["k"] == "binop" and x["op"].endswith("=") and x["op"] not in ("==", "!=", "<=", ">="):
            l = emit.e(emit.strip(x["lhs"]))
            if l is not None and l["k"] == "ref" and "did" in l:
                assigned.add(l["did"])
        elif x["k"] == "unop" and x["op"] in ("++", "--", "&"):
            l = emit.e(emit.strip(x["sub"]))
            if l is not None and l["k"] == "ref" and "did" in l:
                assigned.add(l["did"])
    immut = {d: e for d, e in inits.items() if d not in assigned}
    # candidates
    cands = {}
    for i, x in emit.ex.items():
        if x["k"] != "decl":
            continue
        for v in x["vars"]:
            if not v.get("init"):
                continue
            y = emit.e(emit.strip(v["init"]))
            if y is None or y["k"] != "binop" or y["op"] != ">>":
                continue
            s_ = emit.e(emit.strip(y["rhs"]))
            lhs = emit.e(emit.strip(y["lhs"]))
            if s_ is None or isinstance(s_.get("cv"), int) or lhs is None or isinstance(lhs.get("cv"), int):
                continue
            lt = emit.text(y["lhs"])
            if not re.search(r"offset|Imm|imm", lt):
                continue
            imm2 = {d: e for d, e in immut.items() if d != v["did"]}
            cands[v["did"]] = {"decl": i, "name": v["name"], "S": _norm(emit, y["rhs"], imm2), "E": _norm(emit, y["lhs"], imm2), "imm": imm2}
    chk.floor(R + ":candidates", len(cands), 6)

    def facts_of(atom):
        out = []
        for j in emit.walk(atom):
            y = emit.e(j)
            if y is None:
                continue
            for did, c in cands.items():
                # round trip: (v << S) cmp E   /   shl(v, S) cmp E
                if y["k"] == "binop" and y["op"] in ("==", "!="):
                    sides = [_norm(emit, y["lhs"], c["imm"]), _norm(emit, y["rhs"], c["imm"])]
                    for a, b in (sides, sides[::-1]):
                        if a in ("(%s<<%s)" % (c["name"], c["S"]), "shl(%s,%s)" % (c["name"], c["S"])) and b == c["E"]:
                            out.append(("lossless", did))
                if y["k"] == "binop" and y["op"] == "&":
                    sides = [_norm(emit, y["lhs"], c["imm"]), _norm(emit, y["rhs"], c["imm"])]
                    for a, b in (sides, sides[::-1]):
                        if a == c["E"] and b in ("lsb_mask(%s)" % c["S"], "((1<<%s)-1)" % c["S"]):
                            out.append(("lossless", did))
                if y["k"] in ("call", "mcall") and y.get("cn") == "is_aligned" and len(y.get("args", [])) == 2:
                    a, b = _norm(emit, y["args"][0], c["imm"]), _norm(emit, y["args"][1], c["imm"])
                    if a == c["E"] and b == "(1<<%s)" % c["S"]:
                        out.append(("lossless", did))
        return out

    def edge(b, si, atom, holds):
        return facts_of(atom)              # the test was evaluated; one of its edges leaves (or falls back to another encoding)
    m = Must(emit, None, edge)
    n = 0
    for i, x in sorted(emit.calls(lambda x: x["k"] == "mcall" and x.get("cn") == "add_imm" and x.get("args"))):
        used = {(emit.e(j) or {}).get("did") for j in emit.walk(x["args"][0])} & set(cands)
        for did in used:
            n += 1
            c = cands[did]
            ok = ("lossless", did) in (m.before(i) or frozenset())
            chk.ob(R, "a64::_emit|%s@%d" % (c["name"], n), ok, loc=emit.loc(i),
                   detail="`%s` = %s >> %s is packed, but no condition on the way proved with the same shift that the dropped bits were zero: an "
                          "offset that is not a multiple of the real scale is silently rounded" % (c["name"], c["E"][:50], c["S"][:50]),
                   key="shiftlossless|%s|%s" % (c["name"], c["S"][:40]))
    chk.floor(R + ":packs", n, 6)


TYPE_READS = {"reg_type", "signature", "is_gp", "is_gp32", "is_gp64", "is_vec", "is_vec8", "is_vec16", "is_vec32", "is_vec64", "is_vec128", "is_reg",
              "reg_group", "is_vec_b16", "is_vec_d1", "is_vec_d2", "is_vec_s4", "has_element_type", "element_type", "is_gp_w", "is_gp_x"}


def rule_reg_type_seen(chk, A):
    """no register id is packed for an operand whose register type nobody looked at"""
    from .must import Must
    R = "R-REG-TYPE-LOOKED-AT"
    chk.rule(R, "a64 _emit: between `opcode.add_reg(oK, pos)` and the emission of the word some expression read oK's register type - before or after the pack - (reg_type / "
                "signature / is_gp* / is_vec* / element_type, directly or inside a unit helper that was handed oK): the register field holds "
                "only `id & 31`, so an operand whose type was never looked at is encoded as whatever register class the instruction implies")
    emit, helpers = A["emit"], A["helpers"]
    memo = {}

    def reads_type_params(g, seen=()):
        if (g.name, len(g.params)) in memo:
            return memo[(g.name, len(g.params))]
        out = set()
        pd = {p["did"]: k for k, p in enumerate(g.params)}
        for i, x in g.ex.items():
            if x["k"] == "mcall" and x.get("cn") in TYPE_READS and x.get("obj"):
                r = g.root_ref(x["obj"])
                rx = g.e(r) if r is not None else None
                if rx is not None and rx.get("did") in pd:
                    out.add(pd[rx["did"]])
            if x["k"] == "call" and x.get("callee") and x.get("args"):
                for h in helpers.values():
                    if h.name == x["callee"] and len(h.params) == len(x["args"]) and h is not g and h.name not in seen:
                        for j in reads_type_params(h, seen + (g.name,)):
                            r = g.root_ref(x["args"][j])
                            rx = g.e(r) if r is not None else None
                            if rx is not None and rx.get("did") in pd:
                                out.add(pd[rx["did"]])
        if not seen:
            memo[(g.name, len(g.params))] = out
        return out
    summ = {}
    for h in helpers.values():
        summ.setdefault((h.name, len(h.params)), set()).update(reads_type_params(h))
    ops = {p["did"]: p["name"] for p in emit.params if re.match(r"o\d$", p["name"])}

    def elem(eid, x):
        adds = []
        if x["k"] == "mcall" and x.get("cn") in TYPE_READS and x.get("obj"):
            r = emit.root_ref(x["obj"])
            rx = emit.e(r) if r is not None else None
            if rx is not None and rx.get("did") in ops:
                adds.append(("typed", rx["did"]))
        if x["k"] == "call" and x.get("callee") and x.get("args"):
            for j in summ.get((x["callee"], len(x["args"])), ()):
                r = emit.root_ref(x["args"][j])
                rx = emit.e(r) if r is not None else None
                if rx is not None and rx.get("did") in ops:
                    adds.append(("typed", rx["did"]))
        return (tuple(adds), ()) if adds else None
    m = Must(emit, elem, None)
    from .cfg import forward
    packs = {}
    for i, x in emit.calls(lambda x: x["k"] == "mcall" and x.get("cn") == "add_reg" and x.get("args")):
        a = emit.e(emit.strip(x["args"][0]))
        if a is not None and a["k"] == "ref" and a.get("did") in ops:
            packs[i] = a["did"]
    emits = {i for i, x in emit.calls(lambda x: x["k"] == "mcall" and x.get("cn") in ("emit32u_le", "emit32u"))}
    chk.need(len(emits) >= 1, "a64 _emit: no emit32u_le call found")
    reached = {}

    def transfer(b, st, report=False):
        st = set(st)
        for el in emit.blocks[b]["elems"]:
            if not isinstance(el, int):
                continue
            x = emit.e(el)
            if x is None:
                continue
            fx = elem(el, x)
            if fx:
                for f_ in fx[0]:
                    st = {t for t in st if t[0] != f_[1]}
            if el in packs and ("typed", packs[el]) not in (m.before(el) or frozenset()):
                st.add((packs[el], el))
            if el in emits and report:
                for t in st:
                    reached.setdefault(t[1], el)
        return frozenset(st)
    IN, OUT = forward(emit, frozenset(), lambda b, st: transfer(b, st), lambda ss: frozenset().union(*ss))
    for b in emit.blocks:
        if b in IN:
            transfer(b, IN[b], report=True)
    n = 0
    for i, did in sorted(packs.items()):
        x = emit.e(i)
        n += 1
        regs = [r[5:] for r in A["regions"].group_of_line(x["l"]) if r.startswith("case:")]
        chk.ob(R, "a64::_emit|%s|%s@%d" % ("+".join(regs) or "tail", ops[did], n), i not in reached, loc=emit.loc(i),
               detail="`%s` packs the id of %s and the instruction word can be emitted although no path between the start of the case and the "
                      "emission ever read that operand's register type: a register of another width or class is encoded as if it were the "
                      "expected one" % (" ".join(emit.text(i).split())[:40], ops[did]),
               key="regtype|%s|%s" % ("+".join(regs) or "tail", ops[did]))
    chk.floor(R + ":packs", n, 100)
    chk.floor(R + ":type-reading-helpers", sum(1 for v in summ.values() if v), 8)


def rule_mem_base_label(chk, A):
    """the base id of a memory operand is used as a label id only when the base is known to be a label"""
    from .must import Must
    R = "R-MEM-BASE-IS-LABEL"
    chk.rule(R, "a64 _emit: `<mem>.base_id()` flows into is_label_valid() / label_entry_of() only on paths on which the operand is known to have "
                "a label base (has_base_label() on the taken edge; `is_label() || (is_mem() && has_base_label())` followed by the not-a-label "
                "branch counts): for an absolute memory operand base_id() is 0, i.e. somebody else's label")
    emit = A["emit"]

    def edge(b, si, atom, holds, fn=emit):
        x = fn.e(atom)
        if x is None or x["k"] != "mcall":
            return ()
        if x.get("cn") == "has_base_label" and holds:
            return [("lob",), ("base-label",)]
        if x.get("cn") == "is_label":
            return [("lob",)] if holds else [("not-label",)]
        return ()
    m = Must(emit, None, edge, resolve_locals=True)
    # locals that receive a base_id() and are used as label ids
    label_users = set()
    for i, x in emit.calls(lambda x: x.get("cn") in ("is_label_valid", "label_entry_of") and x.get("args")):
        a = emit.e(emit.strip(x["args"][0]))
        if a is not None and a["k"] == "ref" and "did" in a:
            label_users.add(a["did"])
    n = 0
    for i, x in sorted(emit.ex.items()):
        tgt = None
        if x["k"] == "binop" and x["op"] == "=":
            l, r = emit.e(emit.strip(x["lhs"])), emit.e(emit.strip(x["rhs"]))
            if l is not None and l["k"] == "ref" and l.get("did") in label_users and r is not None and r["k"] == "mcall" and r.get("cn") == "base_id":
                tgt = i
        elif x["k"] == "decl":
            for v in x["vars"]:
                r = emit.e(emit.strip(v["init"])) if v.get("init") else None
                if v["did"] in label_users and r is not None and r["k"] == "mcall" and r.get("cn") == "base_id":
                    tgt = i
        if tgt is None:
            continue
        n += 1
        st = m.before(tgt) or frozenset()
        ok = ("base-label",) in st or (("lob",) in st and ("not-label",) in st)
        chk.ob(R, "a64::_emit|base_id@%d" % n, ok, loc=emit.loc(tgt),
               detail="`%s` takes the memory operand's base id as a label id on a path that never established has_base_label(): an absolute "
                      "address ([abs], base id 0) is resolved against label #0" % " ".join(emit.text(tgt).split())[:60], key="membaselabel|%d" % n)
    chk.floor(R + ":sites", n, 1)


def rule_q_sz_related(chk, A):
    """hand-written FP vector cases: the element size is related to the register width"""
    import collections
    R = "R-Q-SZ-RELATED"
    chk.rule(R, "a64 _emit: in a case that derives `q` from an operand's register width (diff(reg_type, kVec64)) and `sz` from the same "
                "operand's element type and accepts the D element size, some branch condition reads both values: a 64-bit vector of D "
                "elements (.1D, sz:Q with Q = 0) is a reserved arrangement of the vector FP classes, and without such a condition it "
                "cannot be refused")
    emit, regions = A["emit"], A["regions"]
    qs, szs = collections.defaultdict(list), collections.defaultdict(list)
    for i, x in emit.ex.items():
        if x["k"] != "decl":
            continue
        for v in x["vars"]:
            if not v.get("init"):
                continue
            t = re.sub(r"\s+", "", emit.text(v["init"]))
            reg = tuple(r for r in regions.group_of_line(x["l"]) if r.startswith("case:"))
            m1 = re.match(r"diff\((.*)\.reg_type\(\),RegType::kVec64\)$", t)
            m2 = re.match(r"diff\((.*)\.element_type\(\),VecElementType::k([BH])\)$", t)
            if m1:
                qs[reg].append((v["did"], v["name"], x["l"], re.sub(r"\.as<[^>]*>\(\)", "", m1.group(1))))
            if m2:
                szs[reg].append((v["did"], v["name"], x["l"], re.sub(r"\.as<[^>]*>\(\)", "", m2.group(1)), m2.group(2)))
    from .must import Must
    locals_ = set()
    for i, x in emit.ex.items():
        if x["k"] == "decl":
            for v in x["vars"]:
                locals_.add(v["did"])

    def relations(cond):
        out = []
        for j in emit.walk(cond):
            y = emit.e(j)
            # a relation: one comparison, or one conjunction, whose operands mention both values (`q > 1 || sz > 2` is two independent tests)
            if y is not None and y["k"] == "binop" and y["op"] in ("&&", "<", ">", "<=", ">=", "==", "!="):
                dids = sorted({(emit.e(j2) or {}).get("did") for j2 in emit.walk(j) if (emit.e(j2) or {}).get("k") == "ref" and (emit.e(j2) or {}).get("did") in locals_})
                for a_ in dids:
                    for b_ in dids:
                        if a_ < b_:
                            out.append(("rel", a_, b_))
        return out
    # the relation holds information as soon as the condition starts to be evaluated: attach it to the first evaluated leaf, so that
    # every way out of a short-circuit chain (`if (sz && !q)`) carries it
    blk = emit.block_of()
    gen_at = {}
    for x in emit.ex.values():
        if x["k"] == "s:IfStmt" and x.get("cond") is not None:
            rel = relations(x["cond"])
            if not rel:
                continue
            leaves = [j for j in emit.walk(x["cond"]) if j in blk]
            if not leaves:
                continue
            order = {b_: k_ for k_, b_ in enumerate(emit.rpo())}
            first = min(leaves, key=lambda j: (order.get(blk[j][0], 1 << 30), blk[j][1]))
            gen_at.setdefault(first, []).extend(rel)

    def elem_rel(eid, x):
        if eid in gen_at:
            return (tuple(gen_at[eid]), ())
        return None
    m = Must(emit, elem_rel, None)
    n = 0
    for reg in sorted(set(qs) & set(szs)):
        for qd, qn, ql, qop in qs[reg]:
            mates = [(sd, sn) for sd, sn, sl, sop, base in szs[reg] if sop == qop and abs(ql - sl) <= 12]
            if not mates:
                continue
            for i, x in sorted(emit.calls(lambda x: x["k"] == "mcall" and x.get("cn") == "add_imm" and len(x.get("args", [])) == 2)):
                a = emit.e(emit.strip(x["args"][0]))
                sh = emit.e(emit.strip(x["args"][1]))
                if a is None or a["k"] != "ref" or a.get("did") != qd or sh is None or sh.get("cv") != 30:
                    continue
                n += 1
                st = m.before(i) or frozenset()
                # connected component of q in the relation facts
                comp, grew = {qd}, True
                while grew:
                    grew = False
                    for f_ in st:
                        if f_[0] == "rel" and ((f_[1] in comp) != (f_[2] in comp)):
                            comp |= {f_[1], f_[2]}
                            grew = True
                ok = any(sd in comp for sd, _sn in mates)
                chk.ob(R, "%s|%s,%s@%d" % ("+".join(r[5:] for r in reg), qn, mates[0][1], emit.line_of(i)), ok, loc=emit.loc(i),
                       detail="`%s` (register width) is packed on a path on which it was range-tested on its own but never related to `%s` (element "
                              "size of %s): `.1D` is accepted and encoded with the reserved size:Q combination" % (qn, mates[0][1], qop),
                       key="qsz|%s|%d" % ("+".join(r[5:] for r in reg), n))
    chk.floor(R + ":cases", n, 4)


def rule_id_range_raw(chk, emit, tag):
    """the first range test of the instruction id looks at the id the caller passed"""
    from .cfg import forward
    R = "R-ID-RANGE-ON-RAW"
    chk.rule(R, "_emit: some comparison of the `inst_id` parameter with Inst::_kIdCount is evaluated while the parameter still holds the value "
                "the caller passed (no assignment to it can have happened): the id is masked / replaced afterwards, so a test that only sees the "
                "masked id lets ids with extra bits (a condition code on a non-branch, unknown high bits) take the fast path")
    pd = [p["did"] for p in emit.params if p["name"] == "inst_id"]
    chk.need(len(pd) == 1, "%s: parameter inst_id not found" % tag)
    pd = pd[0]
    assigns = set()
    tests = []
    for i, x in emit.ex.items():
        if x["k"] == "binop" and x["op"].endswith("=") and x["op"] not in ("==", "!=", "<=", ">="):
            l = emit.e(emit.strip(x["lhs"]))
            if l is not None and l["k"] == "ref" and l.get("did") == pd:
                assigns.add(i)
        if x["k"] == "binop" and x["op"] in ("<", "<=", ">", ">=") and "_kIdCount" in emit.text(i):
            if any((emit.e(j) or {}).get("did") == pd for j in emit.walk(i)):
                tests.append(i)
    chk.need(len(tests) >= 1, "%s: no comparison of inst_id with _kIdCount" % tag)

    def transfer(b, st):
        for el in emit.blocks[b]["elems"]:
            if isinstance(el, int) and el in assigns:
                st = True
        return st
    IN, OUT = forward(emit, False, transfer, lambda ss: any(ss))
    blk = emit.block_of()
    par = emit.parent_map()
    raw = []
    for t in tests:
        j = t
        while j not in blk and j in par:
            j = par[j]
        if j not in blk:
            continue
        b, idx = blk[j]
        dirty = IN.get(b, False)
        for el in emit.blocks[b]["elems"][:idx]:
            if isinstance(el, int) and el in assigns:
                dirty = True
        if not dirty:
            raw.append(t)
    chk.ob(R, "%s|inst_id" % tag, bool(raw), loc=emit.loc(tests[0]),
           detail="every comparison of inst_id with _kIdCount in %s can run after inst_id was re-assigned (masked): ids that carry extra bits are "
                  "not recognised as needing the checked path" % tag, key="idraw|%s" % tag)
