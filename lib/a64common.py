"""Facts and rules shared by the AArch64 clauses of C02 / C14."""
from . import cfg, vbe, narrow
from .regions import Regions

UNIT = "asmjit/arm/a64assembler.cpp"
DBUNIT = "asmjit/arm/a64instdb.cpp"
# _emit plus every free function of namespace a64 (the static helpers of the unit; filtered by file below)
FUNCS = r"a64::Assembler::_emit$|asmjit::a64::[a-z_0-9]+$"


def load(chk):
    f = chk.facts(UNIT, funcs=FUNCS, tables=r"a64::[A-Za-z0-9_]+_table$|a64::[a-z_]+_map$",
                  enums=r"a64::InstDB::EncodingId$")
    helpers = {}
    emit = None
    for fo in f["functions"]:
        fn = cfg.Fn(fo)
        if fn.name == "asmjit::a64::Assembler::_emit":
            emit = fn
        elif fn.file.endswith("/" + UNIT.split("/")[-1]):
            helpers["%s/%d" % (fn.name, len(fn.params))] = fn
    chk.need(emit is not None, "a64::Assembler::_emit not found in %s" % UNIT)
    summaries = vbe.close_summaries(helpers)
    regions = Regions(emit)
    chk.need(regions.dispatch is not None, "dispatch switch over kEncoding* not found in a64::Assembler::_emit")
    db = chk.facts(DBUNIT, tables=r"a64::InstDB::(_inst_info_table|EncodingData::[A-Za-z0-9_]+)$",
                   enums=r"a64::InstDB::EncodingId$|a64::Inst::Id$|a64::InstDB::InstFlags$")
    return {"facts": f, "emit": emit, "helpers": helpers, "summaries": summaries, "regions": regions, "db": db}


def rule_vbe(chk, A, clause):
    emit, summaries, regions = A["emit"], A["summaries"], A["regions"]
    rule = "R-VALIDATE-BEFORE-EMIT"
    chk.rule(rule, "every register id packed (masked with 31) into the a64 instruction word is range-tested on all "
                   "paths before emit32u_le; validators = callees whose body compares the parameter's id")
    r = vbe.analyse(emit, summaries)
    nvalidators = sum(1 for s in summaries.values() if s)
    chk.floor(rule + ":validators", nvalidators, 5)
    chk.floor(rule + ":validator-calls", r["stats"]["validator_calls"], 60)
    chk.floor(rule + ":emit-events", r["stats"]["emits"], 1)
    ordinals = {}
    n = 0
    for key, line, el, b in sorted(r["pack_sites"], key=lambda t: (t[1], t[0])):
        region = regions.of_line(line)
        o = ordinals.get((region, key), 0)
        ordinals[(region, key)] = o + 1
        inst = "%s|%s|%s#%d" % (emit.name.replace("asmjit::", ""), region, key, o)
        bad = (key, line) in r["reports"]
        n += 1
        chk.ob(rule, inst, not bad, loc="%s:%d" % (UNIT, line),
               detail=("register id of `%s` is packed here and reaches emit32u_le (line %d) on a path with no range "
                       "check of that id" % (key, r["reports"].get((key, line), 0))) if bad else "",
               key="vbe|%s" % inst)
    chk.floor(rule + ":pack-sites", n, 120)
    chk.extra.setdefault("vbe_stats", {})[emit.name] = dict(r["stats"], blocks=len(emit.blocks), edge_validators=r["edge_validators"],
                                                           validators={k: {str(i): s for i, s in v.items()} for k, v in summaries.items() if v})
    return r


def rule_dispatch(chk, A):
    emit, regions, db = A["emit"], A["regions"], A["db"]
    rule = "R-SWITCH-COVERS"
    chk.rule(rule, "the dispatch switch of a64 _emit has a case for every EncodingId enumerator (kEncodingNone excluded)")
    enum = db["enums"].get("asmjit::a64::InstDB::EncodingId")
    chk.need(enum is not None, "enum a64::InstDB::EncodingId not found")
    cases = {c["n"]: c for c in regions.dispatch["cases"]}
    names = [n for n, v in enum["enumerators"]]
    chk.floor(rule + ":enumerators", len(names), 80)
    for n in names:
        if n in ("kEncodingNone", "kEncodingCount"):
            continue
        chk.ob(rule, "a64::_emit|" + n, n in cases, loc=UNIT, detail="no `case InstDB::%s` in the dispatch switch" % n)

    # data index bounds
    rule2 = "R-ENCODING-DATA-INDEX"
    chk.rule(rule2, "for each _inst_info_table row: its _encoding is a declared class and its _encoding_data_index is "
                    "inside the EncodingData array that the class's case subscripts with encoding_index")
    tables = db["tables"]
    info = tables.get("asmjit::a64::InstDB::_inst_info_table")
    chk.need(info is not None and isinstance(info.get("value"), list), "a64 _inst_info_table not dumped")
    rows = info["value"]
    chk.floor(rule2 + ":rows", len(rows), 700)
    # case -> arrays subscripted by encoding_index
    case_arrays = {}
    for i, x in emit.ex.items():
        if x["k"] == "subscript":
            idx = emit.e(emit.strip(x["idx"]))
            base = emit.e(emit.strip(x["base"]))
            if idx and idx["k"] == "ref" and idx.get("name") == "encoding_index" and base and base["k"] == "ref" and base.get("dk") == "global":
                for reg in regions.group_of_line(x["l"]):
                    case_arrays.setdefault(reg, set()).add(base["qn"])
    chk.floor(rule2 + ":cases-with-array", len(case_arrays), 60)
    val2name = {v: n for n, v in enum["enumerators"]}
    ids = db["enums"].get("asmjit::a64::Inst::Id", {}).get("enumerators", [])
    id2name = {v: n for n, v in ids}
    for rid, row in enumerate(rows):
        enc = row["_encoding"]
        en = val2name.get(enc)
        nm = id2name.get(rid, str(rid))
        if en is None:
            chk.ob(rule2, "row:%s" % nm, False, loc=DBUNIT, detail="_encoding %d is not an EncodingId enumerator" % enc)
            continue
        if en == "kEncodingNone":
            chk.ob(rule2, "row:%s" % nm, rid == 0, loc=DBUNIT, detail="only id 0 may have kEncodingNone")
            continue
        arrays = case_arrays.get("case:" + en, set())
        ok = True
        det = ""
        for a in arrays:
            t = tables.get(a)
            if t is None or not isinstance(t.get("value"), list):
                raise_broken = "EncodingData array %s used by case %s was not dumped" % (a, en)
                chk.need(False, raise_broken)
            if row["_encoding_data_index"] >= len(t["value"]):
                ok = False
                det = "_encoding_data_index %d >= length %d of %s read by case %s" % (row["_encoding_data_index"], len(t["value"]), a, en)
        chk.ob(rule2, "row:%s" % nm, ok, loc=DBUNIT, detail=det)


def rule_db(chk, A):
    # database cross-checks are added by lib/a64db.py when available
    try:
        from . import a64db
    except ImportError:
        return
    a64db.run(chk, A)
    a64db.run_opcodes(chk, A)


def rule_imm(chk, A):
    """immediate clauses: 64-bit immediates are range-tested before they are narrowed, and condition codes are bounded by the enum"""
    emit = A["emit"]
    n = narrow.run(chk, [emit], rule="R-NARROW-GUARDED", floor=12)
    f = chk.facts("asmjit/arm/a64assembler.cpp", enums=r"asmjit::arm::CondCode$")
    en = f["enums"].get("asmjit::arm::CondCode")
    chk.need(en is not None, "enum arm::CondCode not found")
    limit = max(v for _, v in en["enumerators"] if v < 256)
    R = "R-COND-BOUNDED"
    chk.rule(R, "every 64-bit immediate passed to cond_code_to_opcode_field has, on all paths, an upper bound (from the dominating comparisons, "
                "`x - c > K` idiom included) not larger than the largest arm::CondCode enumerator: no out-of-range condition is encoded")
    k = narrow.bounded_sink(chk, R, emit, "cond_code_to_opcode_field", limit, "the largest arm::CondCode")
    chk.floor(R + ":sinks", k, 4)
