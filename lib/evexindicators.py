"""R-EVEX-INDICATORS-CONSULTED (C12): every place in x86 query_features() that drops the AVX-512 features has looked at all operand
properties that force the EVEX encoding.

An instruction with VEX and EVEX forms must be encoded with EVEX - and needs AVX512_F (+VL) - when it uses a zmm / k register, {k},
an EVEX option, a vector register 16..31 or an embedded broadcast.  query_features() collects the first three in
InstInternal_usesAvx512(), the last two in RegAnalysis::high_vec_used.  Rule:
  (a) every `out->remove(...)` whose arguments include Ext::kAVX512_F is controlled by a branch whose condition (a local is looked
      through to the expressions assigned to it) contains a call of InstInternal_usesAvx512() and a read of `high_vec_used`;
  (b) InstInternal_reg_analysis() folds Mem::has_broadcast() and a `>= 16` test of a vector id into the `high_vec_used` it returns."""
from . import cfg
from .must import Must


def _has(fn, e, pred, depth=0):
    x = fn.e(e)
    if x is None or depth > 14:
        return False
    if pred(x):
        return True
    return any(_has(fn, c, pred, depth + 1) for c in fn.children(e))


def run(chk, unit="asmjit/x86/x86instapi.cpp", rule="R-EVEX-INDICATORS-CONSULTED"):
    chk.rule(rule, "x86 query_features: each out->remove(.. kAVX512_F ..) is controlled by a condition that contains InstInternal_usesAvx512() "
                   "and RegAnalysis::high_vec_used; InstInternal_reg_analysis() feeds Mem::has_broadcast() and the ids 16..31 into high_vec_used")
    f = chk.facts(unit, funcs=r"x86::InstInternal::(query_features|InstInternal_reg_analysis|InstInternal_usesAvx512)$")
    fn = cfg.find_fn(f, "InstInternal::query_features")
    # expressions assigned to each local (initialiser and every = / |= right-hand side)
    assigned = {}
    for d in fn.ex.values():
        if d["k"] == "decl":
            for v in d["vars"]:
                if v.get("init") is not None:
                    assigned.setdefault(v["did"], []).append(v["init"])
        if d["k"] == "binop" and d["op"] in ("=", "|="):
            l = fn.e(fn.strip(d["lhs"]))
            if l is not None and l["k"] == "ref" and l.get("dk") == "local":
                assigned.setdefault(l["did"], []).append(d["rhs"])

    def exprs_of(atom):
        x = fn.e(fn.strip(atom))
        if x is not None and x["k"] == "ref" and x.get("did") in assigned:
            return assigned[x["did"]]
        return [atom]

    def edge(b, si, atom, holds):
        return [("ctl", fn.strip(atom))]
    m = Must(fn, None, edge)
    par = fn.parent_map()
    n = 0
    for i, x in sorted(fn.calls(lambda x: x["k"] == "mcall" and x.get("cn") == "remove")):
        if not any((fn.e(fn.strip(a)) or {}).get("cvn") == "kAVX512_F" for a in x.get("args") or []):
            continue
        n += 1
        st = m.before(i)
        j = i
        while st is None and j in par:
            j = par[j]
            st = m.before(j)
        ctl = [t[1] for t in (st or ()) if t[0] == "ctl"]
        ok = False
        for a in ctl:
            es = exprs_of(a)
            uses = any(_has(fn, e, lambda y: y["k"] == "call" and y.get("cn") == "InstInternal_usesAvx512") for e in es)
            high = any(_has(fn, e, lambda y: y["k"] == "member" and y.get("field") == "high_vec_used") for e in es)
            if uses and high:
                ok = True
        chk.ob(rule, "x86::query_features|remove(kAVX512_F)@%d" % n, ok, loc=fn.loc(i),
               detail="the AVX-512 features are dropped (line %d) under a condition that does not contain both InstInternal_usesAvx512() and "
                      "high_vec_used: a form that only EVEX can encode (registers 16..31, {k}, {1toN}) is reported with the VEX feature set" %
                      fn.line_of(i), key="evexind|remove%d" % n)
    chk.floor(rule + ":removes", n, 3)
    # (b)
    g = cfg.find_fn(f, "InstInternal_reg_analysis")
    ret_locals = set()
    for b, idx, r in g.return_sites():
        v = g.e(r).get("val")
        if v is not None:
            for c in g.walk(v):
                y = g.e(c)
                if y is not None and y["k"] == "ref" and y.get("dk") == "local":
                    ret_locals.add(y["did"])
    feeds = {"has_broadcast": False, "id16": False}
    for d in g.ex.values():
        if d["k"] == "binop" and d["op"] in ("|=", "="):
            l = g.e(g.strip(d["lhs"]))
            if l is None or l["k"] != "ref" or l.get("did") not in ret_locals or l.get("name") != "high_vec_used":
                continue
            if _has(g, d["rhs"], lambda y: y["k"] == "mcall" and y.get("cn") == "has_broadcast"):
                feeds["has_broadcast"] = True
            if _has(g, d["rhs"], lambda y: y["k"] == "binop" and y["op"] in (">=", ">") and (g.e(g.strip(y["rhs"])) or {}).get("cv") in (15, 16)):
                feeds["id16"] = True
    for k, v in sorted(feeds.items()):
        chk.ob(rule, "x86::reg_analysis|%s" % k, v, loc="%s:%d" % (unit, g.line),
               detail="InstInternal_reg_analysis() does not feed %s into the high_vec_used it returns: %s" %
                      ("Mem::has_broadcast()" if k == "has_broadcast" else "a register id >= 16 test",
                       "vaddps xmm0, xmm1, [rax]{1to4} (EVEX only) is reported as AVX" if k == "has_broadcast" else "vaddps xmm16, .. is reported as AVX"),
               key="evexind|%s" % k)
    return n
