"""C12.c (thorough): register-or-memory information vs the database.  For each instruction id, each of its two RW
records and each operand index in the record's rm_ops_mask: every database form (of matching operand count) that has
a register at that index must offer - itself or through a sibling form with the same other operands - a memory
operand there whose size is the one query_rw_info prescribes (fixed size, or the largest register size scaled by the
category: consistent / half / quarter / eighth)."""
import re
from . import x86db

REG_BITS = {"r8": 8, "r8lo": 8, "r8hi": 8, "r16": 16, "r32": 32, "r64": 64, "mm": 64, "xmm": 128, "ymm": 256, "zmm": 512, "k": 64, "tmm": 8192, "st": 80, "bnd": 128}
FIXED_REG = {"al": 8, "ax": 16, "eax": 32, "rax": 64, "cl": 8, "cx": 16, "ecx": 32, "rcx": 64, "dx": 16, "edx": 32, "rdx": 64, "ebx": 32, "rbx": 64, "xmm0": 128}


def reg_bits(o):
    r = o.get("reg") or ""
    if r in REG_BITS:
        return REG_BITS[r]
    if r in FIXED_REG:
        return FIXED_REG[r]
    return None


def explicit(e):
    return [o for o in e["ops"] if not o.get("implicit")]


def reg_class(r):
    if r in ("r8", "r8lo", "r8hi", "al", "cl"):
        return "gp8"
    if r in ("r16", "ax", "cx", "dx"):
        return "gp16"
    if r in ("r32", "eax", "ecx", "edx", "ebx"):
        return "gp32"
    if r in ("r64", "rax", "rcx", "rdx", "rbx"):
        return "gp64"
    if r == "xmm0":
        return "xmm"
    return r


def compatible(a, b):
    """operand a (its register alternative) of the asked form can also be written in form b at the same position"""
    if a.get("reg"):
        return bool(b.get("reg")) and reg_class(a["reg"]) == reg_class(b["reg"])
    if a.get("imm"):
        return bool(b.get("imm"))
    return a["s"] == b["s"]


def run(chk, fx):
    R = "R-RM-AGREE"
    chk.rule(R, "every operand that the RW tables flag as replaceable by memory has, for each register form of the instruction in "
                "db/isa_x86.json, a form with a memory operand of the prescribed size at that position (per instruction id and RW record)")
    T = fx["tables"]
    need = ("rw_info_index_a_table", "rw_info_index_b_table", "rw_info_a_table", "rw_info_b_table", "rw_info_rm_table")
    for t in need:
        chk.need("asmjit::x86::InstDB::" + t in T, "%s not dumped" % t)
    ia, ib = T["asmjit::x86::InstDB::rw_info_index_a_table"]["value"], T["asmjit::x86::InstDB::rw_info_index_b_table"]["value"]
    ra, rb = T["asmjit::x86::InstDB::rw_info_a_table"]["value"], T["asmjit::x86::InstDB::rw_info_b_table"]["value"]
    rm = T["asmjit::x86::InstDB::rw_info_rm_table"]["value"]
    pextrw_exempt = pextrw_special_case(chk)
    cats = {n: v for n, v in fx["enums"]["asmjit::x86::InstDB::RWInfoRm::Category"]["enumerators"]}
    flags = {n: v for n, v in fx["enums"]["asmjit::x86::InstDB::RWInfoRm::Flags"]["enumerators"]}
    rwc = {n: v for n, v in fx["enums"]["asmjit::x86::InstDB::RWInfo::Category"]["enumerators"]}
    generic = {rwc["kCategoryGeneric"], rwc["kCategoryGenericEx"]}
    div = {cats["kCategoryConsistent"]: 1, cats["kCategoryHalf"]: 2, cats["kCategoryQuarter"]: 4, cats["kCategoryEighth"]: 8}
    xid = [(n[3:].lower(), v) for n, v in fx["enums"]["asmjit::x86::Inst::Id"]["enumerators"] if n.startswith("kId")]
    db = x86db.load_db(chk)
    by_name = {}
    for e in db:
        by_name.setdefault(e["name"], []).append(e)
    seen_vals = set()
    n = 0
    stats = {"checked": 0, "skipped_ambiguous": 0}
    for name, idv in xid:
        if idv in seen_vals or idv >= len(ia) or name not in by_name:
            continue
        seen_vals.add(idv)
        for which, rec in (("a", ra[ia[idv]]), ("b", rb[ib[idv]])):
            if rec["category"] not in generic:
                continue          # mov/imul/vmov* ... have their own code paths in query_rw_info
            info = rm[rec["rm_info"]]
            mask = info["rm_ops_mask"]
            if not mask or info["category"] == cats["kCategoryNone"]:
                continue
            # the generator leaves APX / AVX10 forms out of the tables (tablegen-x86.js query filter)
            forms = [e for e in by_name[name] if not (set(e.get("ext") or ()) & {"APX_F", "AVX10_1", "AVX10_2"})]
            forms = [e for e in forms if (len(explicit(e)) == 2) == (which == "a")]
            for i in range(6):
                if not (mask >> i) & 1:
                    continue
                bad = None
                for e in forms:
                    ops = explicit(e)
                    # the query is about an all-register (plus immediates) operand list: take the register
                    # alternative of every reg/mem operand; forms with a memory-only operand are not asked about
                    if i >= len(ops) or not ops[i].get("reg") or any(not o.get("reg") and (o.get("mem") or o.get("rel")) for o in ops):
                        continue
                    if pextrw_exempt and info["flags"] & flags.get("kFlagPextrw", 0) and len(ops) == 3 and ops[1].get("reg") == "mm":
                        continue      # the special case of query_rw_info, established from its source by pextrw_special_case()
                    sizes = [reg_bits(o) for o in ops if o.get("reg")]
                    if None in sizes or not sizes:
                        continue
                    if info["category"] == cats["kCategoryFixed"]:
                        want = info["fixed_size"] * 8
                    else:
                        base = reg_bits(ops[i]) if info["category"] == cats["kCategoryConsistent"] else max(sizes)
                        want = base // div[info["category"]]
                    if want == 0:
                        continue

                    def same_but(e2):
                        o2 = explicit(e2)
                        if len(o2) != len(ops):
                            return False
                        for k in range(len(ops)):
                            if k != i and not compatible(ops[k], o2[k]):
                                return False
                        return o2[i].get("memSize") == want or (o2[i].get("mem") or "").endswith(str(want))
                    if not any(same_but(e2) for e2 in forms):
                        bad = (e, want)
                        break
                n += 1
                stats["checked"] += 1
                ambiguous = bool(info["flags"] & flags.get("kFlagAmbiguous", 0))
                chk.ob(R, "%s|%s|op%d" % (name, which, i), bad is None, loc="asmjit/x86/x86instdb.cpp",
                       detail=("`%s %s`: operand %d is flagged reg/mem with a %d-bit memory operand (category %s%s) but the database has no such memory form" % (
                           name, ", ".join(o["s"] for o in bad[0]["ops"]), i, bad[1], [k for k, v in cats.items() if v == info["category"]][0],
                           ", ambiguous" if ambiguous else "")) if bad else "",
                       key="rmagree|%s|%s|op%d" % (name, which, i))
    chk.floor(R + ":operands", n, 800)
    chk.extra["rm_agree"] = stats


def pextrw_special_case(chk):
    """True when query_rw_info() clears rm_ops_mask on the path `flags & kFlagPextrw` && operands[1].is_mm_reg(): only then may the
    agreement rule leave the MMX form of PEXTRW (which has no memory destination) out"""
    from . import cfg
    from .must import Must
    f = chk.facts("asmjit/x86/x86instapi.cpp", funcs=r"asmjit::x86::InstInternal::query_rw_info$")
    fns = [g for g in cfg.load_functions(f) if g.file.endswith("x86instapi.cpp")]
    if not fns:
        return False
    fn = fns[0]

    def edge(b, si, atom, holds):
        x = fn.e(atom)
        if x is None or not holds:
            return ()
        if x["k"] == "binop" and x["op"] == "&" and (fn.e(fn.strip(x["rhs"])) or {}).get("cvn") == "kFlagPextrw":
            return [("pextrw",)]
        if x["k"] == "mcall" and x.get("cn") == "is_mm_reg" and "operands[1]" in fn.text(x.get("obj") or 0):
            return [("mm1",)]
        return ()
    m = Must(fn, None, edge)
    for i, x in fn.ex.items():
        if x["k"] == "binop" and x["op"] == "=":
            l, r = fn.e(fn.strip(x["lhs"])), fn.e(fn.strip(x["rhs"]))
            if l is not None and l.get("name") == "rm_ops_mask" and r is not None and r.get("cv") == 0:
                st = m.before(i) or frozenset()
                if ("pextrw",) in st and ("mm1",) in st:
                    return True
    return False
