"""x86 emit-path ordering rules (C01), added after an independent probe of the unchanged tree found mis-ordered prefixes.

R-PREFIX-ORDER   REX is the last prefix: on no CFG path of x86::Assembler::_emit is a legacy prefix (segment / address-size
                 override, mandatory 66/F2/F3 through emit_pp, a literal prefix byte) written after the REX byte of the same
                 instruction and before its opcode (the CPU ignores a REX that is not immediately followed by the opcode).
R-FWAIT-FIRST    0x9B (FWAIT) is an instruction of its own: the byte is written before any override prefix of the FPU
                 instruction it belongs to.  emit_pp() can write 0x9B (opcode_pp_table) unless the PP field is known not to be
                 kPP_9B on that path; the rule is evaluated on the paths that start in the dispatch cases of the encodings
                 whose instruction rows carry kPP_9B.
R-GPB-COMPARE-AFTER-FIXUP  a register id that FIXUP_GPB later adjusts (AH/CH/DH/BH share ids 0..3 with AL/CL/DL/BL until
                 4 is added) is not compared with a constant before the adjustment on a path that reaches it.
"""
import re
from .cfg import forward
from .must import branch_atoms

LEGACY = {0x66, 0x67, 0xF0, 0xF2, 0xF3, 0x2E, 0x36, 0x3E, 0x26, 0x64, 0x65}


WRITER_HELPERS = {}      # qualified name of an X86BufferWriter method -> Fn (set by the check before the rules run)
_HELPER_KIND = {}


def helper_kind(name):
    """what a writer helper that is not one of the primitive emitters writes: 'rex' / 'ovr' / 'pp' / 'other' (by its body)"""
    if name in _HELPER_KIND:
        return _HELPER_KIND[name]
    _HELPER_KIND[name] = "other"
    g = WRITER_HELPERS.get(name)
    if g is not None:
        kinds = set()
        for el in g.ex:
            y = g.e(el)
            if y and y["k"] in ("mcall", "call") and (y.get("cn") or "").startswith("emit"):
                k = classify(g, el, inner=True)
                if k:
                    kinds.add(k)
        for k in ("rex", "ovr", "pp", "fwait"):
            if k in kinds:
                _HELPER_KIND[name] = k
                break
    return _HELPER_KIND[name]


def classify(fn, el, inner=False):
    x = fn.e(el)
    if not x or x["k"] not in ("mcall", "call") or not x.get("cn", "").startswith("emit"):
        return None
    if not inner and "writer" not in fn.text(x.get("obj", 0)):
        return None
    cn = x["cn"]
    if cn not in ("emit_segment_override", "emit_address_override", "emit_pp", "emit8", "emit8_if") and x.get("callee") in WRITER_HELPERS and not inner:
        return helper_kind(x["callee"])
    a0 = x["args"][0] if x.get("args") else None
    a0x = fn.e(fn.strip(a0)) if a0 else None
    t0 = fn.text(a0) if a0 else ""
    if cn in ("emit_segment_override", "emit_address_override"):
        return "ovr"
    if cn == "emit_pp":
        return "pp"
    if cn in ("emit8", "emit8_if"):
        if "kX86ByteRex" in t0 and "kX86ByteRexW" not in t0.replace("kX86ByteRex ", ""):
            return "rex"
        if a0x is not None and a0x.get("cv") is not None:
            if a0x["cv"] == 0x9B:
                return "fwait"
            if a0x["cv"] in LEGACY:
                return "ovr"
    return "other"


def prefix_order(chk, fn, unit, nine_b_encodings=None, dispatch_cases=None):
    R = "R-PREFIX-ORDER"
    chk.rule(R, "x86 _emit: on no path is a legacy prefix (segment/address override, emit_pp, literal prefix byte) written after the REX byte "
                "of the same instruction and before its opcode (may-analysis over the CFG; any other emission ends the prefix phase)")
    pp_not_9b = set()       # blocks entered on an edge where the PP field was tested against kPP_9B and differs - not needed today

    def transfer(b, st):
        rex, ovr = st
        for el in fn.blocks[b]["elems"]:
            if not isinstance(el, int):
                continue
            k = classify(fn, el)
            if k is None:
                continue
            if k == "rex":
                rex = el
            elif k == "ovr":
                ovr = el
            elif k in ("pp", "fwait"):
                pass
            else:
                rex = ovr = 0
        return (rex, ovr)

    def join(ss):
        return (max(s[0] for s in ss), max(s[1] for s in ss))
    IN, OUT = forward(fn, (0, 0), transfer, join)
    nrex = 0
    seen = {}
    for b in sorted(fn.blocks):
        if b not in IN:
            continue
        rex, ovr = IN[b]
        for el in fn.blocks[b]["elems"]:
            if not isinstance(el, int):
                continue
            k = classify(fn, el)
            if k is None:
                continue
            if k == "rex":
                rex = el
                nrex += 1
                seen.setdefault(el, [])
            elif k in ("ovr", "pp"):
                if rex:
                    seen.setdefault(rex, []).append(el)
                if k == "ovr":
                    ovr = el
            elif k == "fwait":
                pass
            else:
                rex = ovr = 0
    chk.floor(R + ":rex-sites", nrex, 4)
    ordinal = 0
    for rexel in sorted(seen, key=lambda e: fn.line_of(e)):
        ordinal += 1
        late = seen[rexel]
        chk.ob(R, "x86::Assembler::_emit|rex#%d" % ordinal, not late, loc=fn.loc(rexel),
               detail="the REX byte written here can be followed by a legacy prefix (line %s: `%s`) before the opcode: REX is ignored unless it "
                      "immediately precedes the opcode" % (", ".join(str(fn.line_of(e)) for e in late[:3]), " ".join(fn.text(late[0]).split())[:60] if late else ""),
               key="prefixorder|rex-then-prefix|%s" % region_label(fn, rexel))
    return IN


def region_label(fn, el):
    """name of the nearest label at or before the element's line (stable under line shifts)"""
    best = None
    line = fn.line_of(el)
    for b in fn.blocks.values():
        lab = b.get("label")
        if lab and lab.get("l", 0) <= line and (best is None or lab["l"] > best[0]):
            best = (lab["l"], lab["name"])
    return best[1] if best else "?"


def fwait_first(chk, fn, unit, starts):
    """starts: {encoding name: block id of its dispatch case} for the encodings that have kPP_9B rows"""
    R = "R-FWAIT-FIRST"
    chk.rule(R, "x86 _emit: on the paths of the encodings whose rows carry kPP_9B (fstsw/fstcw/fstenv/fsave/fclex/finit), the byte 0x9B is written "
                "before any segment/address override: emit_pp() after an override is accepted only where the PP field can no longer be kPP_9B "
                "(the FWAIT byte was already written and the field cleared on that path)")
    n = 0
    atoms = branch_atoms(fn)
    for enc, b0 in sorted(starts.items()):
        # may-analysis restricted to the blocks reachable from the case block; state: (override may have been written, pp may still be 9B)
        def transfer(b, st):
            ovr, nine = st
            bad = None
            for el in fn.blocks[b]["elems"]:
                if not isinstance(el, int):
                    continue
                x = fn.e(el)
                if x and x["k"] in ("binop", "opcall") and "&=" in fn.text(el) and "kPP_FPUMask" in fn.text(el) and "~" in fn.text(el):
                    nine = False
                k = classify(fn, el)
                if k == "ovr":
                    ovr = True
                elif k == "fwait":
                    pass
                elif k == "other":
                    ovr = False
            return (ovr, nine)

        def join(ss):
            return (any(s[0] for s in ss), any(s[1] for s in ss))
        reach = fn.reachable_from(b0) | {b0}
        IN = {}
        OUT = {}
        work = [b0]
        IN[b0] = (False, True)
        it = 0
        while work and it < 100000:
            it += 1
            b = work.pop()
            new = transfer(b, IN[b])
            if OUT.get(b) == new:
                continue
            OUT[b] = new
            for si, s in enumerate(fn.blocks[b]["succs"]):
                if s is None:
                    continue
                out = new
                if b in atoms:
                    atom, pol = atoms[b]
                    holds = (si == 0) == pol
                    ax = fn.e(atom)
                    if ax and ax["k"] == "binop" and ax["op"] in ("==", "!=") and "kPP_9B" in fn.text(atom) and "kPP_FPUMask" in fn.text(atom):
                        if (ax["op"] == "==") != holds:
                            out = (new[0], False)       # the PP field is known not to be kPP_9B on this edge
                old = IN.get(s)
                j = out if old is None else join([old, out])
                if j != old:
                    IN[s] = j
                    work.append(s)
                elif s not in OUT:
                    work.append(s)
        bad = []
        for b in reach:
            if b not in IN:
                continue
            ovr, nine = IN[b]
            for el in fn.blocks[b]["elems"]:
                if not isinstance(el, int):
                    continue
                x = fn.e(el)
                if x and x["k"] in ("binop", "opcall") and "&=" in fn.text(el) and "kPP_FPUMask" in fn.text(el) and "~" in fn.text(el):
                    nine = False
                k = classify(fn, el)
                if k == "ovr":
                    ovr = True
                elif k == "pp":
                    if ovr and nine:
                        bad.append(el)
                elif k == "other":
                    ovr = False
        n += 1
        chk.ob(R, "x86::Assembler::_emit|%s" % enc, not bad, loc=fn.loc(bad[0]) if bad else unit,
               detail="encoding %s has kPP_9B rows and reaches emit_pp() at line %s after an override prefix may have been written: the overrides "
                      "end up in front of FWAIT and no longer apply to the FPU instruction" % (enc, ", ".join(sorted({str(fn.line_of(e)) for e in bad}))),
               key="prefixorder|fwait|%s" % enc)
    chk.floor(R + ":encodings", n, 2)


def gpb_compare(chk, fn, unit):
    R = "R-GPB-COMPARE-AFTER-FIXUP"
    chk.rule(R, "x86 _emit: a register-id local that FIXUP_GPB adjusts is not compared with a constant on a path that still reaches that "
                "adjustment without re-assignment (before the adjustment AH/CH/DH/BH are indistinguishable from AL/CL/DL/BL)")
    fix = {}            # did -> [element ids of `v += 4` inside FIXUP_GPB]
    for i, x in fn.ex.items():
        if x.get("m") == "FIXUP_GPB" and x["k"] == "binop" and x["op"] == "+=":
            l = fn.e(fn.strip(x["lhs"]))
            if l and l["k"] == "ref" and "did" in l:
                fix.setdefault(l["did"], set()).add(i)
    chk.floor(R + ":fixups", sum(len(v) for v in fix.values()), 10)
    blk = fn.block_of()
    n = 0
    for i, x in sorted(fn.ex.items(), key=lambda t: (t[1].get("l", 0), t[0])):
        if not (x["k"] == "binop" and x["op"] in ("==", "!=")):
            continue
        sides = [fn.e(fn.strip(x["lhs"])), fn.e(fn.strip(x["rhs"]))]
        v = None
        for a, b in (sides, sides[::-1]):
            if a and a["k"] == "ref" and a.get("did") in fix and b is not None and b.get("cv") is not None:
                v = a["did"]
                name = a["name"]
        if v is None or x.get("m") == "FIXUP_GPB" or i not in blk:
            continue
        n += 1
        # forward search from the comparison: does a FIXUP of v lie ahead with no plain assignment to v in between?
        b0, idx0 = blk[i]
        hit = None
        seen = set()
        work = [(b0, idx0 + 1)]
        while work and hit is None:
            b, k = work.pop()
            stop = False
            for el in fn.blocks[b]["elems"][k:]:
                if not isinstance(el, int):
                    continue
                if el in fix[v]:
                    hit = el
                    stop = True
                    break
                y = fn.e(el)
                if y and y["k"] == "binop" and y["op"] == "=":
                    l = fn.e(fn.strip(y["lhs"]))
                    if l and l["k"] == "ref" and l.get("did") == v:
                        stop = True
                        break
            if stop:
                continue
            for s in fn.blocks[b]["succs"]:
                if s is not None and s not in seen:
                    seen.add(s)
                    work.append((s, 0))
        chk.ob(R, "x86::Assembler::_emit|%s|%s#%d" % (region_label(fn, i), " ".join(fn.text(i).split())[:40], n), hit is None, loc=fn.loc(i),
               detail="`%s` is evaluated before FIXUP_GPB (line %d) adjusts %s: AH (id 0 until fixed up) takes the AL-only path" % (
                   " ".join(fn.text(i).split())[:50], fn.line_of(hit) if hit else 0, name),
               key="gpbcompare|%s|%s#%d" % (region_label(fn, i), re.sub(r"\s+", "", fn.text(i))[:40], n))
    chk.floor(R + ":comparisons", n, 3)


def field_compare(chk, fn, unit):
    R = "R-FIELD-COMPARE-BEFORE-MERGE"
    chk.rule(R, "x86 _emit: a local that receives another field by `v += (e << k)` / `v |= (e << k)` is not compared (==, !=) with a constant "
                "below 2^k on a path after the merge: such a test describes the low field only and fails once the upper field is non-zero "
                "(16-bit ModRM: `[bp]` must get a displacement for every /r value)")
    merges = {}
    for i, x in fn.ex.items():
        if x["k"] == "binop" and x["op"] in ("+=", "|="):
            l = fn.e(fn.strip(x["lhs"]))
            r = fn.e(fn.strip(x["rhs"]))
            while r and r["k"] == "paren":
                r = fn.e(r["sub"])
            if l and l["k"] == "ref" and l.get("dk") == "local" and r and r["k"] == "binop" and r["op"] == "<<":
                kx = fn.e(fn.strip(r["rhs"]))
                if kx is not None and kx.get("cv") is not None and 0 < kx["cv"] < 32:
                    merges.setdefault(l["did"], []).append((i, kx["cv"], l["name"]))
    blk = fn.block_of()
    n = 0
    for did, ms in sorted(merges.items()):
        for (mi, k, name) in ms:
            if mi not in blk:
                continue
            n += 1
            b0, idx0 = blk[mi]
            hit = None
            seen = set()
            work = [(b0, idx0 + 1)]
            while work and hit is None:
                b, j = work.pop()
                stop = False
                for el in fn.blocks[b]["elems"][j:]:
                    if not isinstance(el, int):
                        continue
                    y = fn.e(el)
                    if not y or y["k"] != "binop":
                        continue
                    if y["op"] == "=":
                        l = fn.e(fn.strip(y["lhs"]))
                        if l and l["k"] == "ref" and l.get("did") == did:
                            stop = True
                            break
                    if y["op"] in ("==", "!="):
                        a, c = fn.e(fn.strip(y["lhs"])), fn.e(fn.strip(y["rhs"]))
                        for p, q in ((a, c), (c, a)):
                            if p and p["k"] == "ref" and p.get("did") == did and q is not None and q.get("cv") is not None and 0 <= q["cv"] < (1 << k):
                                hit = el
                        if hit:
                            stop = True
                            break
                if stop:
                    continue
                for s in fn.blocks[b]["succs"]:
                    if s is not None and s not in seen:
                        seen.add(s)
                        work.append((s, 0))
            chk.ob(R, "x86::Assembler::_emit|%s|%s<<%d#%d" % (region_label(fn, mi), name, k, n), hit is None, loc=fn.loc(mi),
                   detail="`%s` merges a field at bit %d into %s and line %d then tests `%s`: the test only holds while the merged field is zero" % (
                       " ".join(fn.text(mi).split())[:40], k, name, fn.line_of(hit) if hit else 0, " ".join(fn.text(hit).split())[:40] if hit else ""),
                   key="fieldcompare|%s|%s<<%d" % (region_label(fn, mi), name, k))
    chk.floor(R + ":merges", n, 1)


def nodisp_not_bp(chk, emit, unit):
    """mod = 00 (no displacement) is chosen only when the base is not BP/R13 (16-bit: not the [disp16] slot)"""
    R = "R-NODISP-NOT-BP"
    chk.rule(R, "x86 _emit: every test `rel_offset == 0` that selects the displacement-less ModRM/SIB form is conjoined with `rb_reg != Gp::kIdBp` "
                "(32/64-bit addressing: mod = 00 with base 101 means [disp32], so [rbp]/[r13] always need a disp8 of zero) or, in the 16-bit "
                "form, with `mod != 6` ([bp] is the [disp16] slot)")
    n = 0
    for i, x in sorted(emit.ex.items()):
        if x["k"] != "binop" or x["op"] != "==":
            continue
        l, r = emit.e(emit.strip(x["lhs"])), emit.e(emit.strip(x["rhs"]))
        if l is None or r is None or l.get("name") != "rel_offset" or r.get("cv") != 0:
            continue
        # the whole conjunction this test is part of
        par = emit.parent_map()
        top = i
        while top in par and (emit.e(par[top]) or {}).get("k") in ("binop", "paren", "cast", "unop") and \
                ((emit.e(par[top]) or {}).get("op") in ("&&", None) or (emit.e(par[top]) or {}).get("k") in ("paren", "cast")):
            if (emit.e(par[top]) or {}).get("k") == "unop":
                break
            top = par[top]
        ok = False
        for j in emit.walk(top):
            y = emit.e(j)
            if y is not None and y["k"] == "binop" and y["op"] == "!=":
                a, b = emit.e(emit.strip(y["lhs"])), emit.e(emit.strip(y["rhs"]))
                for u, v in ((a, b), (b, a)):
                    if u is not None and v is not None and u["k"] == "ref" and (v.get("cvn") == "kIdBp" or (u.get("name") == "mod" and v.get("cv") == 6)):
                        ok = True
        n += 1
        chk.ob(R, "x86::_emit|rel_offset==0@%d" % n, ok, loc=emit.loc(i),
               detail="`%s` selects the form without displacement without excluding BP/R13 as base: [rbp] is then encoded as mod = 00, base = 101, "
                      "which the CPU reads as [disp32] and consumes the next four bytes" % " ".join(emit.text(top).split())[:70], key="nodispbp|%d" % n)
    chk.floor(R + ":tests", n, 3)


def index_scale_seen(chk, emit, unit):
    """every path of the ModRM/SIB emission that knows the operand has an index register looks at its scale"""
    from .relational import Relational
    R = "R-INDEX-SCALE-LOOKED-AT"
    chk.rule(R, "x86 _emit: on every path of the ModRM/SIB emission on which the memory operand is known to have an index register "
                "(`rm_info & kX86MemInfo_Index` taken, or `(rm_info & kBaseGpIdx) == kBaseGpIdx`) the operand's shift() has been read "
                "(encoded as the SIB scale, or tested to be zero where the addressing form has none) before the immediate that closes the "
                "instruction is written: an index scale is never silently dropped")

    def has_index_const(e):
        x = emit.e(emit.strip(e))
        if x is None:
            return False
        if x.get("cvn") == "kX86MemInfo_Index":
            return True
        if x["k"] == "ref" and x.get("name") == "kBaseGpIdx":
            return True
        return False

    def idx_test(x):
        """`rm_info & <constant that includes the index bit only together with ...>`: the taken edge proves an index"""
        if x is None:
            return None
        if x["k"] == "binop" and x["op"] == "&":
            a, b = emit.e(emit.strip(x["lhs"])), x["rhs"]
            if a is not None and a.get("name") == "rm_info" and (emit.e(emit.strip(b)) or {}).get("cvn") == "kX86MemInfo_Index":
                return "true"
        if x["k"] == "binop" and x["op"] == "==":
            for u, v in ((x["lhs"], x["rhs"]), (x["rhs"], x["lhs"])):
                ux = emit.e(emit.strip(u))
                if ux is not None and ux["k"] == "binop" and ux["op"] == "&" and (emit.e(emit.strip(ux["lhs"])) or {}).get("name") == "rm_info" \
                   and has_index_const(ux["rhs"]) and has_index_const(v):
                    return "true"
        return None

    def elem_fx(eid, x, facts):
        if x["k"] == "mcall" and x.get("cn") == "shift" and "Mem" in (x.get("callee") or ""):
            return ([("shift",)], [])
        if x["k"] == "binop" and x["op"] == "=":
            l = emit.e(emit.strip(x["lhs"]))
            if l is not None and l.get("name") == "rm_info":
                return ([], [f for f in facts if f in (("shift",), ("idx",), ("noidx",))])
        return None

    def plain_idx_test(x):
        if x is not None and x["k"] == "binop" and x["op"] == "&":
            a = emit.e(emit.strip(x["lhs"]))
            return a is not None and a.get("name") == "rm_info" and (emit.e(emit.strip(x["rhs"])) or {}).get("cvn") == "kX86MemInfo_Index"
        return False

    def edge_fx(b, si, atom, holds, facts):
        x = emit.e(atom)
        if plain_idx_test(x):
            # the same test of the same (unchanged) rm_info is decided the same way on one path
            if holds and ("noidx",) in facts:
                return "INFEASIBLE"
            if not holds and ("idx",) in facts:
                return "INFEASIBLE"
            return [("idx",)] if holds else [("noidx",)]
        if holds and idx_test(x) == "true":
            if ("noidx",) in facts:
                return "INFEASIBLE"
            return [("idx",)]
        return ()
    rel = Relational(emit, elem_fx, edge_fx)
    n = ntests = 0
    for i, x in sorted(emit.ex.items()):
        if idx_test(x):
            ntests += 1
    for i, x in emit.calls(lambda x: x.get("cn") == "emit_immediate"):
        states = rel.before(i)
        if states is None:
            continue
        n += 1
        bad = any(("idx",) in facts and ("shift",) not in facts for facts, flags in states)
        chk.ob(R, "x86::_emit|emit_immediate@%d" % n, not bad, loc=emit.loc(i),
               detail="a path reaches this end of the ModRM/SIB emission knowing that the memory operand has an index register without ever "
                      "having read its shift(): `[index*scale + disp]` is encoded as `[index + disp]`", key="indexscale|%d" % n)
    chk.floor(R + ":index-tests", ntests, 3)
    chk.floor(R + ":ends", n, 2)
