"""R-PADDING-TO-NONEMPTY (C10): flatten() gives alignment padding only to sections that have content.

flatten(), code_size() and the overflow pre-pass all skip empty sections (`if (real_size)`).  The padding in front of an aligned
section is stored as the *virtual size of the section laid out before it*; if that section is empty it thereby becomes non-empty at
an offset that violates its own alignment, code_size() then counts it (the reported size is no longer the end of the last section) and
a second flatten() moves everything behind it.

Rule: in CodeHolder::flatten() every local through which `_virtual_size` is stored (`prev->_virtual_size = ...`) is assigned a
section only on the edge where that section's real size was tested non-zero."""
from . import cfg
from .must import Must


def run(chk, unit="asmjit/core/codeholder.cpp", rule="R-PADDING-TO-NONEMPTY"):
    chk.rule(rule, "CodeHolder::flatten(): the section variable whose `_virtual_size` is extended to cover alignment padding is only ever "
                   "assigned under the true edge of the `real_size` test of that section: an empty section never receives padding (it would "
                   "become non-empty at a misaligned offset and be counted again by code_size() and the next flatten())")
    f = chk.facts(unit, funcs=r"asmjit::CodeHolder::flatten$")
    fns = [g for g in cfg.load_functions(f) if g.file.endswith(unit.split("/")[-1])]
    chk.need(fns, "CodeHolder::flatten not found")
    fn = fns[0]
    # locals that are the base of a store to _virtual_size
    targets = set()
    for i, x in fn.ex.items():
        if x["k"] == "binop" and x["op"] == "=":
            l = fn.e(fn.strip(x["lhs"]))
            if l is not None and l["k"] == "member" and l.get("field") == "_virtual_size":
                b = fn.e(fn.strip(l["base"]))
                if b is not None and b["k"] == "ref" and b.get("dk") == "local":
                    targets.add(b["did"])
    chk.need(targets, "flatten(): no store to <local>->_virtual_size")
    # locals holding real_size()
    size_locals = set()
    for i, x in fn.ex.items():
        if x["k"] == "decl":
            for v in x["vars"]:
                if v.get("init") is not None and any((fn.e(j) or {}).get("k") == "mcall" and fn.e(j).get("cn") == "real_size" for j in fn.walk(v["init"])):
                    size_locals.add(v["did"])

    def edge(b, si, atom, holds):
        x = fn.e(atom)
        if x is None:
            return ()
        nz = None
        if x["k"] == "ref" and x.get("did") in size_locals:
            nz = holds
        elif x["k"] == "mcall" and x.get("cn") == "real_size":
            nz = holds
        elif x["k"] == "binop" and x["op"] in ("!=", "==", ">"):
            l, r = fn.e(fn.strip(x["lhs"])), fn.e(fn.strip(x["rhs"]))
            if l is not None and r is not None and r.get("cv") == 0 and (l.get("did") in size_locals or (l["k"] == "mcall" and l.get("cn") == "real_size")):
                nz = holds if x["op"] in ("!=", ">") else not holds
        return [("nonempty",)] if nz else ()
    m = Must(fn, None, edge, resolve_locals=True)       # `bool is_empty = real_size == 0; if (is_empty) continue;`
    n = 0
    for i, x in sorted(fn.ex.items()):
        if x["k"] == "binop" and x["op"] == "=":
            l = fn.e(fn.strip(x["lhs"]))
            r = fn.e(fn.strip(x["rhs"]))
            if l is not None and l["k"] == "ref" and l.get("did") in targets and r is not None and r.get("cv") != 0 and r["k"] != "nullptr":
                n += 1
                chk.ob(rule, "flatten|%s=%s@%d" % (l.get("name"), " ".join(fn.text(x["rhs"]).split())[:20], fn.line_of(i) - fn.line),
                       ("nonempty",) in (m.before(i) or frozenset()), loc=fn.loc(i),
                       detail="`%s` makes a section the receiver of the next section's alignment padding without knowing that it has content: an "
                              "empty section gets a virtual size, is no longer skipped by code_size() / flatten() and sits at a misaligned offset" %
                              " ".join(fn.text(i).split())[:50], key="paddingnonempty|%s" % l.get("name"))
    chk.floor(rule + ":assignments", n, 1)
    return n


def run_every_offset(chk, unit="asmjit/core/codeholder.cpp", rule="R-EVERY-SECTION-GETS-OFFSET"):
    """flatten() assigns an offset to every section it iterates over - empty ones included"""
    chk.rule(rule, "CodeHolder::flatten(): in the loop that lays the sections out, every path through one iteration (from the loop variable's "
                   "definition to the iterator increment) calls Section::set_offset(): no section - an empty one included - leaves flatten() "
                   "without an offset (copy_flattened_data() refuses a holder that has one)")
    f = chk.facts(unit, funcs=r"asmjit::CodeHolder::flatten$")
    fns = [g for g in cfg.load_functions(f) if g.file.endswith(unit.split("/")[-1])]
    chk.need(fns, "CodeHolder::flatten not found")
    fn = fns[0]
    sets = [i for i, x in fn.calls(lambda x: x.get("cn") == "set_offset")]
    chk.need(sets, "flatten(): no call of set_offset()")
    pos = fn.block_of()

    def is_iter_decl(x):
        return x["k"] == "decl" and any(v.get("init") is not None and "__begin" in fn.text(v["init"]) for v in x["vars"])

    def elem(eid, x):
        if eid in sets:
            return ((("set",),), ())
        if is_iter_decl(x):
            return ((), (("set",),))
        return None
    m = Must(fn, elem, None)
    n = 0
    for s_ in sets:
        bs = pos[s_][0]
        fwd = set(fn.reachable_from(bs))
        for i, x in sorted(fn.ex.items()):
            if x["k"] == "unop" and x["op"] == "++" and "__begin" in fn.text(x["sub"]) and i in pos:
                bi = pos[i][0]
                if bi in fwd and bs in set(fn.reachable_from(bi)):
                    n += 1
                    chk.ob(rule, "flatten|iteration@%d" % (fn.line_of(i) - fn.line), ("set",) in (m.before(i) or frozenset()), loc=fn.loc(s_),
                           detail="an iteration of the layout loop can reach the next section without having called set_offset(): that section "
                                  "keeps `kNoSectionOffset`, has_offset() stays false and the flattened image can no longer be copied",
                           key="everyoffset|flatten")
    chk.floor(rule + ":loops", n, 1)
    return n
