"""R-PCREL-ACCOUNTS-IMM (x86): a RIP-relative displacement is relative to the END of the instruction,
so every displacement / fixup addend that is derived from a label position or from an absolute
address converted at assembly time must depend on the size of the trailing immediate
(`imm_size`), unless no immediate can follow on that path (imm_size is still its initial 0).

Must-taint analysis over the clang CFG of x86::Assembler::_emit:
  imm-taint(v)  v's value depends on imm_size on every path
  pc-taint(v)   v's value depends on a label offset or on the code's base address
Sinks: the `rel_offset` handed to the shared EmitRel tail (`goto EmitRel`), every emit32u_le()
of a pc-tainted value, and the trailing-size argument of set_leading_and_trailing_size()."""
from .must import Must


def run(chk, fn, unit, rule="R-PCREL-ACCOUNTS-IMM"):
    chk.rule(rule, "x86 _emit: each pc-relative displacement (label- or base-address-derived value emitted as disp32, the addend passed to the "
                   "EmitRel tail, the trailing size recorded in a relocation format) depends on imm_size on every path, or no immediate can follow")
    imm_did = None
    for i, x in fn.ex.items():
        if x["k"] == "decl":
            for v in x["vars"]:
                if v["name"] == "imm_size":
                    imm_did = v["did"]
                    imm_init = fn.e(fn.strip(v["init"])) if v.get("init") else None
    chk.need(imm_did is not None, "local imm_size not found in %s" % fn.name)

    def local_of(eid):
        x = fn.e(fn.strip(eid))
        if x and x["k"] == "ref" and x.get("dk") == "local":
            return x["did"], x["name"]
        return None, None

    def taints_of(eid, st):
        imm = pc = False
        for j in fn.walk(eid):
            y = fn.e(j)
            if y["k"] == "ref" and y.get("dk") == "local":
                if y["did"] == imm_did:
                    imm = True
                if ("imm", y["did"]) in st:
                    imm = True
                if ("pc", y["did"]) in st:
                    pc = True
                if y["name"] in ("base_address",):
                    pc = True
            elif y["k"] == "mcall" and y.get("cn") == "offset" and "LabelEntry" in y.get("cls", ""):
                pc = True
        return imm, pc

    # the analysis needs the state while evaluating an element, so run a custom must-analysis
    class T(Must):
        def _apply(self_, s, el):
            x = fn.e(el)
            if not x:
                return s
            if x["k"] == "decl":
                for v in x["vars"]:
                    s = {f for f in s if not (f[0] in ("imm", "pc") and f[1] == v["did"])}
                    if v["did"] == imm_did:
                        s.discard(("immzero",))
                        iv = fn.e(fn.strip(v["init"])) if v.get("init") else None
                        if iv is not None and iv.get("cv") == 0:
                            s.add(("immzero",))
                    elif v.get("init"):
                        imm, pc = taints_of(v["init"], s)
                        if imm:
                            s.add(("imm", v["did"]))
                        if pc:
                            s.add(("pc", v["did"]))
            elif x["k"] == "binop" and x["op"].endswith("=") and x["op"] not in ("==", "!=", "<=", ">="):
                did, _ = local_of(x["lhs"])
                if did is not None:
                    if did == imm_did:
                        s.discard(("immzero",))
                        return s
                    imm, pc = taints_of(x["rhs"], s)
                    if x["op"] == "=":
                        s = {f for f in s if not (f[0] in ("imm", "pc") and f[1] == did)}
                    if imm:
                        s.add(("imm", did))
                    if pc:
                        s.add(("pc", did))
            return s

        def _transfer(self_, b, st):
            s = set(st)
            for el in fn.blocks[b]["elems"]:
                if isinstance(el, int):
                    s = self_._apply(s, el)
            return frozenset(s)

        def before(self_, eid):
            pos = fn.block_of().get(eid)
            if not pos or pos[0] not in self_.IN:
                return None
            s = set(self_.IN[pos[0]])
            for el in fn.blocks[pos[0]]["elems"]:
                if el == eid:
                    break
                if isinstance(el, int):
                    s = self_._apply(s, el)
            return frozenset(s)

        def at_end(self_, b):
            return self_.OUT.get(b)
    m = T(fn, None, None)

    # --- S1: goto EmitRel
    rel_did = None
    for i, x in fn.ex.items():
        if x["k"] == "decl":
            for v in x["vars"]:
                if v["name"] == "rel_offset":
                    rel_did = v["did"]
    chk.need(rel_did is not None, "local rel_offset not found")
    n1 = 0
    for b in fn.blocks.values():
        t = b.get("term")
        if t and t.get("kind") == "GotoStmt" and t.get("label") == "EmitRel":
            st = m.at_end(b["id"])
            if st is None:
                continue
            n1 += 1
            ok = ("imm", rel_did) in st or ("immzero",) in st
            chk.ob(rule, "goto-EmitRel#%d" % n1, ok, loc="%s:%d" % (unit, t["l"]),
                   detail="rel_offset handed to the EmitRel tail does not account for the trailing immediate (imm_size) on every path, "
                          "and an immediate may follow", key="pcrel|goto-EmitRel#%d" % n1)
    chk.floor(rule + ":goto-EmitRel", n1, 4)

    # --- S2: emit32u_le of a pc-tainted value
    n2 = 0
    for i, x in sorted(fn.calls(lambda x: x.get("cn") == "emit32u_le"), key=lambda t: t[1]["l"]):
        st = m.before(i)
        if st is None or not x.get("args"):
            continue
        imm, pc = taints_of(x["args"][0], st)
        if not pc:
            continue
        n2 += 1
        ok = imm or ("immzero",) in st
        chk.ob(rule, "emit-pcrel-disp#%d" % n2, ok, loc=fn.loc(i),
               detail="a displacement derived from a label offset / base address is emitted without accounting for imm_size (`%s`)" % fn.text(x["args"][0])[:60],
               key="pcrel|emit-pcrel-disp#%d" % n2)
    chk.floor(rule + ":pcrel-emits", n2, 2)

    # --- S3: trailing size recorded in relocation formats
    n3 = 0
    for i, x in sorted(fn.calls(lambda x: x.get("cn") == "set_leading_and_trailing_size"), key=lambda t: t[1]["l"]):
        st = m.before(i) or frozenset()
        n3 += 1
        imm, _ = taints_of(x["args"][1], st)
        chk.ob(rule, "reloc-trailing-size#%d" % n3, imm, loc=fn.loc(i),
               detail="set_leading_and_trailing_size(.., %s): the trailing size is not imm_size" % fn.text(x["args"][1])[:40])
    chk.floor(rule + ":reloc-formats", n3, 4)


def run_position(chk, fn, unit, rule="R-PC-FROM-WRITER"):
    """In an emit function bytes of the current instruction may already have been written through the CodeWriter, while
    BaseAssembler::offset() still reports the start of the instruction (it only moves at writer.done()).  Every sum that
    combines a branch / memory target (a label entry's offset, the code's base address) with the current position must take
    the position from the writer's cursor."""
    chk.rule(rule, "x86 _emit: every additive expression that combines a target (LabelEntry::offset(), base address) with the current "
                   "position takes the position from writer.offset_from(_buffer_data) - directly or through a local - never from "
                   "BaseAssembler::offset(), which does not include the prefix bytes already written by this call")
    cls = {}

    def classify(eid):
        cur = stale = pc = False
        for j in fn.walk(eid):
            y = fn.e(j)
            if y["k"] == "mcall" and y.get("cn") == "offset_from" and "_buffer_data" in fn.text(j):
                cur = True
            elif y["k"] == "mcall" and y.get("cn") == "offset" and (y.get("cls") or "").endswith("BaseAssembler"):
                stale = True
            elif y["k"] == "mcall" and y.get("cn") == "offset" and "LabelEntry" in (y.get("cls") or ""):
                pc = True
            elif y["k"] == "mcall" and y.get("cn") == "base_address":
                pc = True
            elif y["k"] == "ref" and y.get("did") in cls:
                c = cls[y["did"]]
                cur, stale, pc = cur or c[0], stale or c[1], pc or c[2]
        return cur, stale, pc
    # locals in declaration order (ids grow with source order inside one function)
    for i, x in sorted(fn.ex.items(), key=lambda t: (t[1].get("l", 0), t[0])):
        if x["k"] == "decl":
            for v in x["vars"]:
                if v.get("init"):
                    c = classify(v["init"])
                    if any(c):
                        cls[v["did"]] = c
    par = fn.parent_map()
    n = 0
    for i, x in sorted(fn.ex.items(), key=lambda t: (t[1].get("l", 0), t[0])):
        if not (x["k"] == "binop" and x["op"] in ("+", "-")):
            continue
        p = par.get(i)
        px = fn.e(p) if p is not None else None
        while px and px["k"] in ("paren", "cast"):
            p = par.get(p)
            px = fn.e(p) if p is not None else None
        if px and px["k"] == "binop" and px["op"] in ("+", "-"):
            continue
        cur, stale, pc = classify(i)
        if not pc or not (cur or stale):
            continue
        n += 1
        chk.ob(rule, "%s|sum#%d" % (fn.name.replace("asmjit::", ""), n), not stale, loc=fn.loc(i),
               detail="`%s` combines a target with BaseAssembler::offset(): the prefix bytes already written by this call are not counted, the "
                      "displacement is off by their number" % " ".join(fn.text(i).split())[:90],
               key="pcpos|%s|sum#%d" % (fn.name.replace("asmjit::", ""), n))
    chk.floor(rule + ":sums", n, 2)
