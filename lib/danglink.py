"""R-FREED-BLOCK-NOT-LINKED (C18): no function of the arena returns with a block it has handed back to the C heap still linked.

"The arena ... returns blocks that do not overlap any live block and recycles only released ones."  The arena's managed blocks form a
singly linked list (ManagedBlock::next, Arena::_first_block / _current_block), its dynamic blocks a doubly linked list
(DynamicBlock::prev / next, Arena::_dynamic_blocks).  A block passed to Arena_free() that is still the target of a link of a live
block or of a member of the arena is used by the next soft reset + allocation, walked by statistics() and freed a second time by
reset(kHard).

Shape analysis over symbolic block names (powerset of small points-to graphs, canonically renamed, so the fixpoint is finite):
  * a state maps the block-pointer locals and members of `this` to symbols, holds the links `sym.field -> sym` that were read or
    written, and the set of symbols passed to Arena_free();  reading an unknown link creates a fresh symbol (for a struct with `prev` and
    `next` the doubly-linked invariant x.prev.next == x / x.next.prev == x is assumed for what is read);
  * `if (p)` / `while (p)` refine p to null on the failing edge;
  * at every return: no member of `this` and no link of a block that is not freed points to a freed symbol."""
import re
from . import cfg
from .must import branch_atoms

PTR_RE = re.compile(r"(ManagedBlock|DynamicBlock)\s*\*$")
NULL = 0


def _canon(env, heap, freed):
    """garbage-collect and rename symbols in a deterministic order"""
    held = set(env.values())
    heap = {k: v for k, v in heap.items() if k[0] in held and k[0] != NULL}
    order = {NULL: NULL}

    def name(s):
        if s not in order:
            order[s] = len(order)
        return order[s]
    for loc in sorted(env):
        name(env[loc])
    for k in sorted(heap, key=lambda k: (order[k[0]], k[1])):
        name(heap[k])
    env2 = tuple(sorted((loc, order[s]) for loc, s in env.items()))
    heap2 = tuple(sorted(((order[k[0]], k[1]), order[v]) for k, v in heap.items()))
    freed2 = frozenset(order[s] for s in freed if s in order and s != NULL)
    return (env2, heap2, freed2)


class _St:
    def __init__(self, t):
        self.env = dict(t[0])
        self.heap = dict(t[1])
        self.freed = set(t[2])
        self.n = max([0] + list(self.env.values()) + [v for v in self.heap.values()] + [k[0] for k in self.heap] + list(self.freed)) + 1

    def fresh(self):
        self.n += 1
        return self.n - 1

    def freeze(self):
        return _canon(self.env, self.heap, self.freed)


def run(chk, unit="asmjit/support/arena.cpp", rule="R-FREED-BLOCK-NOT-LINKED", free_fns=("Arena_free",), floor=3):
    chk.rule(rule, "arena.cpp: in every function that calls Arena_free() on a block, at every return no member of the arena and no link "
                   "(next / prev) of a block that was not freed points to a freed block (shape analysis over symbolic blocks; links are "
                   "refined by null tests)")
    f = chk.facts(unit, funcs=r"asmjit::Arena::[A-Za-z_0-9]+$")
    nfn = nfree = 0
    for fn in cfg.load_functions(f):
        if not fn.file.endswith(unit.split("/")[-1]):
            continue
        frees = [i for i, x in fn.ex.items() if x["k"] == "call" and x.get("cn") in free_fns and x.get("args")]
        if not frees:
            continue
        nfn += 1
        nfree += len(frees)
        has_prev = any(x["k"] == "member" and x.get("field") == "prev" for x in fn.ex.values())

        def ev(st, e):
            x = fn.e(fn.strip(e))
            while x is not None and x["k"] in ("cast", "paren"):
                x = fn.e(fn.strip(x["sub"]))
            if x is None:
                return st.fresh()
            if x["k"] == "null" or (x["k"] == "int" and x.get("cv") == 0):
                return NULL
            if x["k"] == "ref" and x.get("dk") in ("local", "parm") and PTR_RE.search(x.get("ty") or ""):
                loc = "L%s" % x["did"]
                if loc not in st.env:
                    st.env[loc] = st.fresh()
                return st.env[loc]
            if x["k"] == "member" and PTR_RE.search(x.get("ty") or ""):
                if x.get("this"):
                    loc = "T." + x["field"]
                    if loc not in st.env:
                        st.env[loc] = st.fresh()
                    return st.env[loc]
                b = ev(st, x["base"])
                if b == NULL:
                    return st.fresh()
                k = (b, x["field"])
                if k not in st.heap:
                    v = st.fresh()
                    st.heap[k] = v
                    other = {"prev": "next", "next": "prev"}.get(x["field"])
                    if has_prev and other and (v, other) not in st.heap:
                        st.heap[(v, other)] = b
                return st.heap[k]
            return st.fresh()

        def assign(st, lhs, v):
            x = fn.e(fn.strip(lhs))
            if x is None:
                return
            if x["k"] == "ref" and x.get("dk") in ("local", "parm"):
                st.env["L%s" % x["did"]] = v
            elif x["k"] == "member":
                if x.get("this"):
                    st.env["T." + x["field"]] = v
                else:
                    b = ev(st, x["base"])
                    if b != NULL:
                        st.heap[(b, x["field"])] = v

        def step(t, el):
            x = fn.e(el)
            if x is None:
                return t
            if x["k"] == "decl":
                st = None
                for v in x["vars"]:
                    if PTR_RE.search(v.get("ty") or ""):
                        st = st or _St(t)
                        st.env["L%s" % v["did"]] = ev(st, v["init"]) if v.get("init") is not None else st.fresh()
                return st.freeze() if st else t
            if x["k"] == "binop" and x["op"] == "=" and PTR_RE.search(x.get("ty") or ""):
                st = _St(t)
                assign(st, x["lhs"], ev(st, x["rhs"]))
                return st.freeze()
            if x["k"] == "call" and x.get("cn") in free_fns and x.get("args"):
                st = _St(t)
                s = ev(st, x["args"][0])
                if s != NULL:
                    st.freed.add(s)
                    # keep the symbol alive in the graph through a pseudo location so that links to it stay visible
                    st.env["F%d" % el] = s
                return st.freeze()
            return t

        def transfer(b, states):
            out = set()
            for t in states:
                for el in fn.blocks[b]["elems"]:
                    if isinstance(el, int):
                        t = step(t, el)
                out.add(t)
            return frozenset(out)
        atoms = branch_atoms(fn)

        def refine(t, atom, holds):
            """the edge on which `atom` has the truth value `holds`"""
            x = fn.e(fn.strip(atom))
            if x is None:
                return t
            if x["k"] == "unop" and x["op"] == "!":
                return refine(t, x["sub"], not holds)
            if x["k"] == "binop" and x["op"] in ("==", "!="):
                l, r = fn.e(fn.strip(x["lhs"])), fn.e(fn.strip(x["rhs"]))
                if r is not None and r["k"] == "null":
                    return refine(t, x["lhs"], holds == (x["op"] == "!="))
                return t
            if x["k"] in ("ref", "member") and PTR_RE.search(x.get("ty") or ""):
                st = _St(t)
                s = ev(st, fn.strip(atom))
                if holds:
                    return None if s == NULL else st.freeze()
                if s == NULL:
                    return st.freeze()
                if s in st.freed:
                    return st.freeze()
                # s is null on this edge
                st.env = {k: (NULL if v == s else v) for k, v in st.env.items()}
                st.heap = {k: (NULL if v == s else v) for k, v in st.heap.items() if k[0] != s}
                return st.freeze()
            return t

        def edge(b, si, succ, states):
            if b not in atoms:
                return states
            atom, pol = atoms[b]
            holds = (si == 0) == pol
            out = set()
            for t in states:
                r = refine(t, atom, holds)
                if r is not None:
                    out.add(r)
            return frozenset(out)
        init = frozenset([_canon({}, {}, set())])
        IN, OUT = cfg.forward(fn, init, transfer, lambda xs: frozenset().union(*xs), edge=edge)
        bad = None
        nstates = 0
        for p in fn.preds[fn.exit]:
            for t in OUT.get(p, ()):
                nstates += 1
                env, heap, freed = dict(t[0]), dict(t[1]), t[2]
                for loc, s in env.items():
                    if loc.startswith("T.") and s in freed:
                        bad = bad or ("the member `%s` still points to a block that was passed to Arena_free()" % loc[2:], p)
                for (k, fld), v in heap.items():
                    if k not in freed and v in freed:
                        holders = [loc for loc, s in env.items() if s == k and not loc.startswith("F")]
                        bad = bad or ("the link `%s` of a live block (%s) still points to a block that was passed to Arena_free()" %
                                      (fld, ", ".join(_locname(fn, h) for h in holders) or "reached through the list"), p)
        short = fn.name.replace("asmjit::", "")
        line = fn.line
        if bad:
            for el in reversed(fn.blocks[bad[1]]["elems"]):
                if isinstance(el, int):
                    line = fn.line_of(el)
                    break
        chk.ob(rule, "%s|%d frees" % (short, len(frees)), bad is None, loc="%s:%d" % (unit, line),
               detail="%s returns (line %d) while %s: the arena keeps using memory it no longer owns (next soft reset + allocation, "
                      "statistics(), a second free in reset(kHard))" % (short, line, bad[0] if bad else ""), key="danglink|%s" % short)
        chk.extra.setdefault("danglink_states", {})[short] = nstates
    chk.floor(rule + ":functions", nfn, floor)
    chk.floor(rule + ":frees", nfree, 4)
    return nfn


def _locname(fn, loc):
    if loc.startswith("T."):
        return "this->" + loc[2:]
    for d in fn.ex.values():
        if d["k"] == "decl":
            for v in d["vars"]:
                if "L%s" % v["did"] == loc:
                    return v["name"]
    for p in fn.params:
        if "L%s" % p["did"] == loc:
            return p["name"]
    return loc
