"""Name the part of a large emit function a source line belongs to: the nearest preceding
`case kEncodingXxx:` of the dispatch switch or goto label (EmitOp_Rd0_Rn5, ...).  Used only to
give rule instances stable names that do not contain line numbers."""
import bisect


class Regions:
    def __init__(self, fn, case_prefix="kEncoding"):
        marks = []
        for i, x in fn.ex.items():
            if x["k"] == "label":
                marks.append((x["l"], "label:" + x["name"]))
        # dispatch switch = the switch with most cases whose names start with case_prefix
        best = None
        for i, x in fn.ex.items():
            if x["k"] == "s:SwitchStmt":
                n = sum(1 for c in x["cases"] if c.get("n", "").startswith(case_prefix))
                if best is None or n > best[0]:
                    best = (n, i, x)
        self.dispatch = best[2] if best and best[0] > 0 else None
        self.dispatch_id = best[1] if best and best[0] > 0 else None
        if self.dispatch:
            for c in self.dispatch["cases"]:
                if c.get("n", "").startswith(case_prefix):
                    marks.append((c["l"], "case:" + c["n"]))
        marks.sort()
        self.lines = [m[0] for m in marks]
        self.names = [m[1] for m in marks]
        self.first_line = fn.line

    def of_line(self, line):
        i = bisect.bisect_right(self.lines, line) - 1
        if i < 0:
            return "prologue"
        # consecutive `case A: case B:` labels share a body: report the last label of the run
        return self.names[i]

    def group_of_line(self, line):
        """All case names that share the body containing `line` (case A: case B: { ... })."""
        i = bisect.bisect_right(self.lines, line) - 1
        if i < 0:
            return ["prologue"]
        out = [self.names[i]]
        j = i - 1
        while j >= 0 and self.names[j].startswith("case:") and self.names[i].startswith("case:") and self.lines[j + 1] - self.lines[j] <= 1:
            out.append(self.names[j])
            j -= 1
        return out
