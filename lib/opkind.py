"""R-OPERAND-KIND-CAST (C02, C14, C01): an operand is reinterpreted (`oI.as<T>()`) only as the kind the dominating test established.

The emitters dispatch on a packed operand signature (`isign4 == ENC_OPS3(Reg, Imm, Imm)`, 3 bits of OperandType per operand) or on
`oI.is_imm()` / `is_reg()` / `is_mem()` / `is_label()`.  `as<T>()` is an unchecked reinterpretation of the operand's 16 bytes, so
reading, say, `o0.as<Imm>().value()` where o0 is known to be a register reads register fields as an immediate.

Must-analysis (intersection at joins) of facts (operand parameter, kind) generated on the true edges of those tests; every
`oI.as<T>()` that is reached with a known kind K must name a T of kind K.  Sites reached without a known kind are counted, not
judged (the a64 encoder often tests the kind through the instruction's encoding class)."""
import re
from .must import Must

KINDS = {0: "None", 1: "Reg", 2: "Mem", 3: "RegList", 4: "Imm", 5: "Label"}
IS_TESTS = {"is_imm": "Imm", "is_reg": "Reg", "is_mem": "Mem", "is_label": "Label", "is_reg_list": "RegList", "is_vec": "Reg", "is_gp": "Reg",
            "is_reg_or_mem": None, "is_none": "None"}


def kind_of_type(t):
    t = t.split("::")[-1].replace(">", "").strip()
    if t in ("Imm",):
        return "Imm"
    if t in ("Label",):
        return "Label"
    if t in ("Mem", "BaseMem"):
        return "Mem"
    if t in ("BaseRegList", "RegList") or t.endswith("RegList"):
        return "RegList"
    if t in ("Reg", "Vec", "Gp", "BaseReg", "KReg", "Mm", "SReg", "CReg", "DReg", "St", "Bnd", "Tmm", "Rip", "Operand_", "Operand") or t.endswith("Reg"):
        return "Reg" if t not in ("Operand_", "Operand") else None
    return None


def run(chk, fn, rule="R-OPERAND-KIND-CAST", floor=50, tag=None):
    chk.rule(rule, "every `oI.as<T>()` in an emitter that is reached with the operand's kind known (from the packed-signature test "
                   "`isignN == ENC_OPSn(...)` or from oI.is_imm()/is_reg()/is_mem()/is_label() on the taken edge) names a T of that kind: "
                   "as<T>() is an unchecked reinterpretation, so a mismatch reads the fields of one operand kind as another")
    tag = tag or fn.name.replace("asmjit::", "")
    ops = {}
    for p in fn.params:
        m = re.match(r"o(\d)$", p["name"])
        if m and "Operand_" in p["ty"]:
            ops[p["did"]] = int(m.group(1))
    chk.need(len(ops) >= 3, "%s: operand parameters o0..o2 not found" % tag)

    def sig_facts(x, holds):
        """isignN == CONST on the true edge -> kinds of o0..o(N-1)"""
        if not (x and x["k"] == "binop" and x["op"] in ("==", "!=")):
            return ()
        if (x["op"] == "==") != holds:
            return ()
        for a, b in ((x["lhs"], x["rhs"]), (x["rhs"], x["lhs"])):
            v = fn.e(fn.strip(a))
            c = fn.e(fn.strip(b))
            if v is not None and v["k"] == "ref" and re.match(r"isign\d$", v.get("name") or "") and c is not None and isinstance(c.get("cv"), int) \
               and (c.get("m") or "").startswith("ENC_OPS"):
                n = int(v["name"][-1])
                out = []
                for did, idx in ops.items():
                    if idx < n:
                        k = KINDS.get((c["cv"] >> (3 * idx)) & 7)
                        if k:
                            out.append(("kind", did, k))
                return out
        return ()

    def edge(b, si, atom, holds):
        x = fn.e(atom)
        out = list(sig_facts(x, holds))
        if x and x["k"] == "mcall" and x.get("cn") in IS_TESTS and holds and IS_TESTS[x["cn"]]:
            o = fn.e(fn.strip(x["obj"]))
            if o is not None and o["k"] == "ref" and o.get("did") in ops:
                out.append(("kind", o["did"], IS_TESTS[x["cn"]]))
        return out
    m = Must(fn, None, edge)
    par = fn.parent_map()
    n_known = n_unknown = 0
    k = 0
    for i, x in sorted(fn.ex.items()):
        if not (x["k"] == "mcall" and x.get("cn") == "as" and x.get("targs")):
            continue
        o = fn.e(fn.strip(x["obj"]))
        if o is None or o["k"] != "ref" or o.get("did") not in ops:
            continue
        want = kind_of_type(x["targs"][0])
        if want is None:
            continue
        st = m.before(i)
        if st is None:
            # sub-expression of a larger element: use the enclosing element
            j = i
            while j in par and m.before(j) is None:
                j = par[j]
            st = m.before(j) or frozenset()
        known = {f[2] for f in st if f[0] == "kind" and f[1] == o["did"]}
        # short-circuit conjunct in the same condition: `oJ.is_imm() && oJ.as<Imm>()`
        j = i
        while j in par:
            pj = fn.e(par[j])
            if pj and pj["k"] == "binop" and pj["op"] == "&&" and pj["rhs"] == j:
                for c in _conjuncts(fn, pj["lhs"]):
                    cx = fn.e(fn.strip(c))
                    if cx and cx["k"] == "mcall" and cx.get("cn") in IS_TESTS and IS_TESTS[cx["cn"]]:
                        oo = fn.e(fn.strip(cx["obj"]))
                        if oo is not None and oo.get("did") == o["did"]:
                            known.add(IS_TESTS[cx["cn"]])
                    known |= {f[2] for f in sig_facts(cx, True) if f[1] == o["did"]}
            j = par[j]
        if not known:
            n_unknown += 1
            continue
        n_known += 1
        ok = want in known
        if not ok or True:
            chk.ob(rule, "%s|%s.as<%s>@%d" % (tag, o["name"], x["targs"][0].split("::")[-1], k), ok, loc=fn.loc(i),
                   detail="`%s` reinterprets %s as %s although the dominating test established that it is %s" %
                          (" ".join(fn.text(par.get(i, i)).split())[:70], o["name"], want, "/".join(sorted(known))),
                   key="opkind|%s|%s|%s|%d" % (tag, o["name"], want, fn.line_of(i)))
        k += 1
    chk.floor(rule + ":known", n_known, floor)
    return n_known, n_unknown


def _conjuncts(fn, e):
    x = fn.e(fn.strip(e))
    if x and x["k"] == "binop" and x["op"] == "&&":
        return _conjuncts(fn, x["lhs"]) + _conjuncts(fn, x["rhs"])
    return [e]
