"""C01.b — every row of x86::InstDB::_inst_info_table agrees with db/isa_x86.json.

For each instruction id the main and alternative opcode words are decoded with the bit layout
dumped from Opcode::Bits into (mandatory prefix, opcode map, opcode byte, /digit).  Obligation:
some database form of the same mnemonic has that (prefix, map, byte) - after the transformation
documented for the row's encoding class in rules/x86_opcode_classes.json (classes whose stored
opcode is not simply "prefix + map + byte").  One direction only (table => database)."""
import json
import os
import re
import subprocess
import tempfile
from . import core

HEX2 = re.compile(r"^[0-9A-Fa-f]{2}$")
MAPS = {"0F": "0F", "0F38": "0F38", "0F3A": "0F3A", "MAP4": "MAP4", "MAP5": "MAP5", "MAP6": "MAP6",
        "MAP8": "XOP8", "MAP9": "XOP9", "MAPA": "XOPA", "M08": "XOP8", "M09": "XOP9", "M0A": "XOPA"}


def load_db(chk):
    out = os.path.join(core.CACHE, "dbx86v2-%s.json" % core.tree_hash()[:16])
    if not os.path.exists(out):
        os.makedirs(core.CACHE, exist_ok=True)
        tmp = out + ".%d.tmp" % os.getpid()
        p = subprocess.run(["node", os.path.join(core.VERIF, "tools", "dbnorm", "x86.js"), core.REPO, tmp],
                           stdout=subprocess.PIPE, stderr=subprocess.STDOUT, text=True, timeout=120)
        chk.need(p.returncode == 0 and os.path.exists(tmp), "db normaliser failed: %s" % p.stdout[-800:])
        os.replace(tmp, out)
    with open(out) as fh:
        return json.load(fh)


def parse_opcode_string(s):
    """-> dict(pp, map, bytes[list of ints], digit, plus, vex(kind), w, l) ; None if unparsable."""
    toks = s.split()
    r = {"pp": "", "map": "", "bytes": [], "digit": None, "plus": False, "kind": "", "w": None, "l": None, "modrm": None}
    i = 0
    if toks and (toks[0].startswith("VEX.") or toks[0].startswith("EVEX.") or toks[0].startswith("XOP.")):
        parts = toks[0].split(".")
        r["kind"] = parts[0]
        for p in parts[1:]:
            if p in ("66", "F2", "F3"):
                r["pp"] = p
            elif p in ("NP", "P0", "Pv"):
                if p == "Pv":
                    r["pp"] = "v"          # operand-size dependent (66 for 16-bit forms)
            elif p in MAPS:
                r["map"] = MAPS[p]
            elif p in ("W0", "W1", "WIG", "Wy", "Wv", "Wx"):
                r["w"] = p
            elif p in ("128", "256", "512", "LIG", "LZ", "L0", "L1", "Lxy", "xyz", "LLZ"):
                r["l"] = p
        i = 1
    # legacy prefixes / escapes
    while i < len(toks):
        t = toks[i]
        if t in ("66", "F2", "F3") and not r["bytes"] and not r["map"] and not r["kind"] and i + 1 < len(toks) and (toks[i + 1] in ("0F", "REX.W", "66", "F2", "F3") or HEX2.match(toks[i + 1] or "")):
            # a mandatory prefix only if an escape or opcode follows; a lone `66` `F3` could be the opcode itself (none in db)
            r["pp"] = (r["pp"] + t) if r["pp"] and r["pp"] != t else t
            i += 1
            continue
        if t in ("NP", "NFx"):
            i += 1
            continue
        if t.startswith("REX.W"):
            r["w"] = "W1"
            i += 1
            continue
        if t == "9B" and not r["bytes"] and not r["kind"] and i + 1 < len(toks) and HEX2.match(toks[i + 1]):
            r["pp"] = "9B"
            i += 1
            continue
        break
    if i < len(toks) and toks[i] == "0F" and not r["kind"]:
        r["map"] = "0F"
        i += 1
        if i < len(toks) and toks[i] in ("38", "3A") and i + 1 < len(toks) and (HEX2.match(toks[i + 1]) or "+" in toks[i + 1]):
            r["map"] = "0F" + toks[i]
            i += 1
    while i < len(toks):
        t = toks[i]
        if HEX2.match(t):
            r["bytes"].append(int(t, 16))
        elif re.match(r"^[0-9A-Fa-f]{2}\+[a-z]+$", t):
            r["bytes"].append(int(t[:2], 16))
            r["plus"] = True
        elif re.match(r"^/[0-7]$", t):
            r["digit"] = int(t[1])
        elif t == "/r":
            r["digit"] = "r"
        elif ":" in t:
            r["modrm"] = t
        i += 1
    return r


def decode(opc, B):
    """Decode an asmjit opcode word using the dumped Opcode::Bits."""
    mm = (opc & B["kMM_Mask"]) >> B["kMM_Shift"]
    d = {
        "byte": opc & 0xFF,
        "mm": mm & 0x0F, "force_evex": bool(opc & B["kMM_ForceEvex"]),
        "pp": (opc >> B["kPP_Shift"]) & 7,
        "modo": (opc & B["kModO_Mask"]) >> B["kModO_Shift"],
        "w": bool(opc & B["kW"]), "evex_w": bool(opc & B["kEvex_W_1"]),
        "ll": (opc & B["kLL_Mask"]) >> B["kLL_Shift"],
        "cdshl": (opc & B["kCDSHL_Mask"]) >> B["kCDSHL_Shift"],
        "cdtt": (opc & B["kCDTT_Mask"]) >> B["kCDTT_Shift"],
        "fpu2": (opc & B["kFPU_2B_Mask"]) >> B["kFPU_2B_Shift"],
    }
    return d


def run(chk, enc_enum):
    R = "R-DB-AGREE"
    chk.rule(R, "for every _inst_info_table row: the decoded main (and alternative) opcode (mandatory prefix, map, opcode byte) occurs in a "
                "db/isa_x86.json form of the same mnemonic, after the documented per-encoding-class transformation")
    f = chk.facts("asmjit/x86/x86instdb.cpp",
                  tables=r"asmjit::x86::InstDB::(_inst_info_table|main_opcode_table|alt_opcode_table)$",
                  enums=r"asmjit::x86::Inst::Id$|asmjit::x86::Opcode::Bits$")
    B = {n: v for n, v in f["enums"]["asmjit::x86::Opcode::Bits"]["enumerators"]}
    ids = f["enums"]["asmjit::x86::Inst::Id"]["enumerators"]
    rows = f["tables"]["asmjit::x86::InstDB::_inst_info_table"]["value"]
    main = f["tables"]["asmjit::x86::InstDB::main_opcode_table"]["value"]
    alt = f["tables"]["asmjit::x86::InstDB::alt_opcode_table"]["value"]
    chk.floor(R + ":rows", len(rows), 1500)
    enc_name = {v: n for n, v in enc_enum["enumerators"]}
    classes = core.load_json("rules/x86_opcode_classes.json")
    db = load_db(chk)
    by_name = {}
    for e in db:
        p = parse_opcode_string(e["op"])
        e["_p"] = p
        by_name.setdefault(e["name"], []).append(e)
    chk.floor(R + ":db-forms", len(db), 5000)

    PPN = {(B["kPP_66"] >> B["kPP_Shift"]): "66", (B["kPP_F3"] >> B["kPP_Shift"]): "F3", (B["kPP_F2"] >> B["kPP_Shift"]): "F2", 0: "",
           (B["kPP_9B"] >> B["kPP_Shift"]): "9B"}
    MMN = {0: "", B["kMM_0F"] >> 8: "0F", B["kMM_0F38"] >> 8: "0F38", B["kMM_0F3A"] >> 8: "0F3A", B["kMM_0F01"] >> 8: "0F01",
           B["kMM_MAP5"] >> 8: "MAP5", B["kMM_MAP6"] >> 8: "MAP6", B["kMM_XOP08"] >> 8: "XOP8", B["kMM_XOP09"] >> 8: "XOP9", B["kMM_XOP0A"] >> 8: "XOPA"}

    stats = {"rows": 0, "cells": 0, "direct": 0, "by_class": {}, "no_db_name": 0}
    seen_vals = set()
    for rid, (idname, idval) in enumerate(ids):
        if idname == "_kIdCount":
            break
        if idval in seen_vals:
            continue
        seen_vals.add(idval)
        if idval >= len(rows) or not idname.startswith("kId") or idname in ("kIdNone",):
            continue
        row = rows[idval]
        name = idname[3:].lower()
        enc = enc_name.get(row["_encoding"], "?")
        forms = by_name.get(name)
        cls = classes["classes"].get(enc, {})
        for extra in classes["name_aliases"].get(name, []):
            forms = (forms or []) + by_name.get(extra, [])
        if forms is None:
            stats["no_db_name"] += 1
            chk.ob(R, "row:%s|name" % name, False, loc="asmjit/x86/x86instdb.cpp",
                   detail="instruction id %s has no form named `%s` in db/isa_x86.json" % (idname, name))
            continue
        stats["rows"] += 1
        cells = [("main", main[row["_main_opcode_index"]] | row["_main_opcode_value"])]
        a = alt[row["_alt_opcode_index"]]
        if a:
            cells.append(("alt", a))
        for which, opc in cells:
            d = decode(opc, B)
            if which == "main" and opc == 0 and cls.get("main_may_be_zero"):
                continue
            stats["cells"] += 1
            ok, how = match(d, forms, cls, which, PPN, MMN)
            if how == "direct":
                stats["direct"] += 1
            else:
                stats["by_class"][enc] = stats["by_class"].get(enc, 0) + 1
            chk.ob(R, "row:%s|%s" % (name, which), ok, loc="asmjit/x86/x86instdb.cpp",
                   detail="%s opcode of `%s` (class %s) decodes to pp=%s map=%s byte=%02X /%d which no database form of `%s` has (forms: %s)" % (
                       which, name, enc, PPN.get(d["pp"], d["pp"]), MMN.get(d["mm"], d["mm"]), d["byte"], d["modo"], name,
                       "; ".join(sorted({e["op"] for e in forms}))[:300]),
                   key="dbagree|%s|%s" % (name, which))
    chk.extra["x86_db_agree"] = stats


def match(d, forms, cls, which, PPN, MMN):
    pp = PPN.get(d["pp"])
    mp = MMN.get(d["mm"])
    if "fpu" in cls.get("transforms", []):
        # x87 rows reuse the map bits for the FPU_2B field: never interpret them as an opcode map
        for e in forms:
            if e["_p"]["bytes"] and fpu_match(d, e["_p"]) and (PPN.get(d["pp"] & 7) in ("", "9B")) and ((e["_p"]["pp"] == "9B") == (PPN.get(d["pp"]) == "9B")):
                return True, "fpu"
        return False, "fpu"
    if pp is None or mp is None:
        return False, "direct"
    # direct: prefix + map + byte (+ /digit when every matching database form fixes one)
    cands = [e["_p"] for e in forms if e["_p"]["bytes"] and direct_eq(e["_p"], pp, mp, d["byte"])]
    if cands:
        if all(isinstance(p["digit"], int) for p in cands) and not any(p["digit"] == d["modo"] for p in cands):
            return False, "direct"
        return True, "direct"
    for tr in cls.get("transforms", []):
        for e in forms:
            p = e["_p"]
            if not p["bytes"]:
                continue
            if tr == "ignore-66" and direct_eq(p, "", mp, d["byte"], ignore_pp=True):
                return True, tr
            if tr == "byte+1" and direct_eq(p, pp, mp, d["byte"] + 1):
                return True, tr
            if tr == "byte-1" and direct_eq(p, pp, mp, d["byte"] - 1):
                return True, tr
            if tr == "0F01-as-second-byte" and mp == "0F01" and p["map"] == "0F" and p["bytes"][0] == 0x01 and (
                    (len(p["bytes"]) > 1 and p["bytes"][1] == d["byte"]) or (p["modrm"] or p["digit"] is not None)):
                return True, tr
            if tr == "second-byte-is-modrm" and p["map"] == (mp if mp != "0F01" else "0F") and len(p["bytes"]) >= 2:
                # stored opcode keeps only the first byte; the database lists the complete ModRM byte (11:ooo:rm)
                if p["bytes"][0] == d["byte"] and (p["bytes"][1] >> 3) & 7 == d["modo"] and p["bytes"][1] >= 0xC0:
                    return True, tr
                if mp == "0F01" and p["bytes"][0] == 0x01 and p["bytes"][1] == d["byte"]:
                    return True, tr
            if tr == "fpu" and fpu_match(d, p):
                return True, tr
            if tr == "3dnow-suffix" and p["map"] == "0F" and p["bytes"][0] == 0x0F and p["bytes"][-1] == d["byte"]:
                return True, tr
            if tr == "any-pp" and p["map"] == mp and p["bytes"][0] == d["byte"]:
                return True, tr
            if tr == "map-from-vex" and p["bytes"][0] == d["byte"] and (p["pp"] in (pp, "v")):
                return True, tr
    return False, "direct"


def fpu_match(d, p):
    """x87 rows: the word holds up to two opcode bytes (FPU_2B field = first byte D8..DF or the second byte of
    the alternative form, low byte = second byte / register base) and the /digit.  Accept when a database form
    of the mnemonic is built from exactly these bytes."""
    b = p["bytes"]
    lo, hi = d["byte"], d["fpu2"]
    if len(b) >= 2:
        if (b[0] == hi and b[1] == lo) or (b[1] == lo and 0xD8 <= b[0] <= 0xDF and hi in (0, b[1], b[0])) or (b[1] == hi and 0xD8 <= b[0] <= 0xDF):
            return True
    if len(b) == 1 and 0xD8 <= b[0] <= 0xDF and p["digit"] not in (None, "r"):
        if p["digit"] == d["modo"] and (b[0] == lo or b[0] == hi or (lo & 0xF8) in (0xC0, 0xC8, 0xD0, 0xD8, 0xE0, 0xE8, 0xF0, 0xF8)):
            return True
    return False


def direct_eq(p, pp, mp, byte, ignore_pp=False):
    pm = p["map"]
    if mp != "0F01" and p["bytes"][0] != (byte & 0xFF):
        return False
    if mp == "0F01":
        # kMM_0F01: two escape bytes 0F 01, the stored byte is the third byte of the database form
        return pm == "0F" and len(p["bytes"]) >= 2 and p["bytes"][0] == 0x01 and p["bytes"][1] == (byte & 0xFF) and (ignore_pp or p["pp"] == pp)
    if pm != mp:
        return False
    if ignore_pp:
        return True
    ppp = p["pp"]
    if ppp == "v":
        return pp in ("", "66")
    return ppp == pp


def run_modmr(chk, emit, enc_enum):
    """the alternative (MR) opcode selected by the mod_mr() option for an all-register form exists for registers"""
    from .regions import Regions
    from .must import branch_atoms
    R = "R-MODMR-REG-FORM"
    chk.rule(R, "x86 _emit: where an all-register form switches to another opcode under InstOptions::kX86_ModMR (alternative opcode of the row, or "
                "the main opcode plus a constant), every instruction of that encoding class has a database form with that opcode byte whose "
                "operands can all be registers - an opcode that only exists with a memory operand is never emitted with mod=11")
    f = chk.facts("asmjit/x86/x86instdb.cpp",
                  tables=r"asmjit::x86::InstDB::(_inst_info_table|main_opcode_table|alt_opcode_table)$",
                  enums=r"asmjit::x86::Inst::Id$|asmjit::x86::Opcode::Bits$")
    B = {n: v for n, v in f["enums"]["asmjit::x86::Opcode::Bits"]["enumerators"]}
    ids = {}
    for n_, v_ in f["enums"]["asmjit::x86::Inst::Id"]["enumerators"]:
        ids.setdefault(v_, n_)
    rows = f["tables"]["asmjit::x86::InstDB::_inst_info_table"]["value"]
    main = f["tables"]["asmjit::x86::InstDB::main_opcode_table"]["value"]
    alt = f["tables"]["asmjit::x86::InstDB::alt_opcode_table"]["value"]
    enc_name = {v: n for n, v in enc_enum["enumerators"]}
    db = load_db(chk)
    by_name = {}
    for e in db:
        if set(e.get("ext") or ()) & {"APX_F", "AVX10_1", "AVX10_2"}:
            continue
        e["_p"] = parse_opcode_string(e["op"])
        by_name.setdefault(e["name"], []).append(e)
    reg = Regions(emit)
    atoms = branch_atoms(emit)
    arch_ok = core.load_json("rules/x86_modmr.json")["register_form_exists"]
    sites = []
    for b, (atom, pol) in sorted(atoms.items()):
        t = emit.text(atom)
        if "kX86_ModMR" not in t or "kX86_ModRM" in t:
            continue
        succs = emit.blocks[b]["succs"]
        if len(succs) != 2 or None in succs:
            continue
        # the atom may be the first operand of `!test(..) || ...`: the ModMR-true edge is the one on which test() holds
        mr_b = succs[0] if pol else succs[1]
        kind = None
        label_blocks = {bb["id"] for bb in emit.blocks.values() if bb.get("label") and bb["label"].get("kind") == "label"}
        frontier, seen = [(mr_b, 0)], set()
        while frontier and kind is None:
            cur, depth = frontier.pop(0)
            if cur is None or cur in seen or cur in label_blocks or depth > 3:
                continue
            seen.add(cur)
            for el in emit.blocks[cur]["elems"]:
                if not isinstance(el, int):
                    continue
                x = emit.e(el)
                if x["k"] in ("opcall", "binop") and "alt_opcode_of" in emit.text(el) and "opcode" in emit.text(el).split("=")[0]:
                    kind = ("alt", 0)
                elif x["k"] == "mcall" and x.get("cn") == "add" and x.get("args") and "opcode" in emit.text(x.get("obj", 0)):
                    c = emit.e(emit.strip(x["args"][0]))
                    if c is not None and isinstance(c.get("cv"), int):
                        kind = ("main+", c["cv"])
            frontier += [(s_, depth + 1) for s_ in emit.blocks[cur]["succs"] if s_ is not None]
        line = emit.line_of(atom)
        classes = [r[5:] for r in reg.group_of_line(line) if r.startswith("case:")]
        if kind and classes:
            sites.append((line, classes, kind))
    chk.floor(R + ":sites", len(sites), 1)
    n = 0
    for line, classes, kind in sites:
        for rid, row in enumerate(rows):
            enc = enc_name.get(row["_encoding"], "?")
            if enc not in classes:
                continue
            name = (ids.get(rid, "") or "")[3:].lower()
            forms = by_name.get(name)
            if not forms:
                continue
            if kind[0] == "alt":
                a = alt[row["_alt_opcode_index"]]
                if not a:
                    continue            # the code only switches when an alternative opcode exists
                byte = a & 0xFF
            else:
                byte = ((main[row["_main_opcode_index"]] | row["_main_opcode_value"]) & 0xFF) + kind[1]
            mbyte = (main[row["_main_opcode_index"]] | row["_main_opcode_value"]) & 0xFF
            base_reg = [e for e in forms if e["_p"] and e["_p"]["bytes"] and e["_p"]["bytes"][-1] == mbyte and
                        all(o.get("reg") for o in e["ops"] if not o.get("implicit"))]
            if not base_reg:
                continue            # the mnemonic has no all-register form at all: such operands are invalid input, not a mod_mr() matter
            n += 1
            with_byte = [e for e in forms if e["_p"] and e["_p"]["bytes"] and e["_p"]["bytes"][-1] == byte]
            regform = [e for e in with_byte if all(o.get("reg") for o in e["ops"] if not o.get("implicit"))]
            if not regform and name in arch_ok:
                chk.ob(R, "%s|%s@%d" % (name, kind[0], kind[1]), True, loc="asmjit/x86/x86assembler.cpp:%d" % line, detail="accepted: " + arch_ok[name])
                continue
            chk.ob(R, "%s|%s@%d" % (name, kind[0], kind[1]), bool(regform), loc="asmjit/x86/x86assembler.cpp:%d" % line,
                   detail="`%s`: under mod_mr() the all-register form is emitted with opcode byte %02X, which the database only knows as %s - there "
                          "is no register form of that opcode (mod=11 is undefined)" % (name, byte, "; ".join(", ".join(o["s"] for o in e["ops"]) for e in with_byte[:2]) or "nothing"),
                   key="modmr|%s" % name)
    chk.floor(R + ":instructions", n, 3)
