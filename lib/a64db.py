"""C02.c / C02.f — AArch64 encoder vs db/isa_aarch64.json: register field positions used by each
encoding-class case, and register-run checks."""
import re
from . import nametables
from .regions import Regions

REG_FIELD = re.compile(r"^(R|V|W|X|Z)?[a-z]{1,2}\d?$|^R[a-z]\d?$|^V[a-z]$")


def load_db(chk):
    from checks.C17 import load_a64_db
    return load_a64_db(chk)


def is_sve(e):
    return any(re.search(r"(^|[^A-Za-z])(Z[a-z]|P[a-z]|ZA|ZT)", o["s"]) for o in e["ops"])


def run(chk, A):
    emit, regions, dbf = A["emit"], A["regions"], A["db"]
    db = load_db(chk)
    T = dbf["tables"]
    rows = T["asmjit::a64::InstDB::_inst_info_table"]["value"]
    f2 = chk.facts("asmjit/arm/a64instdb.cpp", tables=r"asmjit::a64::InstDB::(_inst_name_string_table|_inst_name_index_table)$")
    strtab = f2["tables"]["asmjit::a64::InstDB::_inst_name_string_table"]["value"]
    names = [nametables.decode(v, strtab) for v in f2["tables"]["asmjit::a64::InstDB::_inst_name_index_table"]["value"]]
    enc_name = {v: n for n, v in dbf["enums"]["asmjit::a64::InstDB::EncodingId"]["enumerators"]}
    by_name = {}
    for e in db:
        if not is_sve(e):
            by_name.setdefault(e["name"], []).append(e)
    class_names = {}
    for rid in range(1, len(rows)):
        class_names.setdefault(enc_name.get(rows[rid]["_encoding"], "?"), set()).add(names[rid])

    # ------------------------------------------------------------------ C02.c register field positions
    R = "R-DB-AGREE"
    chk.rule(R, "every literal bit position at which an encoding-class case packs a register (add_reg(x, s)) is the position of a register "
                "field in the bit template of at least one db/isa_aarch64.json form of an instruction of that class")
    nsites = 0
    ords = {}
    for i, x in sorted(emit.calls(lambda x: x.get("cn") == "add_reg" and x["k"] == "mcall"), key=lambda t: t[1]["l"]):
        if len(x.get("args", [])) < 2:
            continue
        s = emit.e(emit.strip(x["args"][1]))
        if s is None or "cv" not in s:
            continue
        a0 = emit.e(emit.strip(x["args"][0]))
        if a0 is not None and "cv" in a0:
            continue        # a fixed register number (e.g. ZR of the cmp/tst/stadd aliases) is part of the opcode, not an operand field
        shift = s["cv"]
        region = regions.of_line(x["l"])
        if region.startswith("case:"):
            classes = [r[5:] for r in regions.group_of_line(x["l"])]
        else:
            classes = None         # shared tail: any class
        fields = set()
        pool = set()
        if classes is None:
            pool = set(by_name)
        else:
            for c in classes:
                pool |= class_names.get(c, set())
        for nm in pool:
            for e in by_name.get(nm, []):
                for fld, parts in e["fields"].items():
                    if re.match(r"^(R|V)[a-z]\d?$|^(R|V)[a-z][a-z]?$", fld) or fld in ("Rt2", "Rs", "Rd", "Rn", "Rm", "Ra", "Rt", "Vd", "Vn", "Vm", "Va", "Vt", "Vt2", "Vx", "Vdn"):
                        for p in parts:
                            if p["size"] == 5 or p["size"] == 4:
                                fields.add(p["index"])
        o = ords.get((region, shift), 0)
        ords[(region, shift)] = o + 1
        nsites += 1
        chk.ob(R, "a64::_emit|%s|add_reg@%d#%d" % (region, shift, o), (shift in fields) or not pool, loc=emit.loc(i),
               detail="register packed at bit %d in %s, but no database form of its instructions (%s...) has a register field there (fields at %s)" % (
                   shift, region, sorted(pool)[:4], sorted(fields)), key="a64field|%s|%d#%d" % (region, shift, o))
    chk.floor(R + ":add_reg-sites", nsites, 100)

    # ------------------------------------------------------------------ C02.f register runs are enforced
    R2 = "R-RUN-CHECKED"
    chk.rule(R2, "for every implemented mnemonic whose database forms contain a register run Nx{..} (N >= 2), the case of its encoding class "
                 "calls check_consecutive with N operands (a list that is not consecutive is refused, not encoded as a consecutive one)")
    run_len = {}
    for nm, forms in by_name.items():
        for e in forms:
            for o in e["ops"]:
                m = re.match(r"^([2-9])x\{", o["s"])
                if m:
                    run_len.setdefault(nm, set()).add(int(m.group(1)))
    arities = {}
    for i, x in emit.calls(lambda x: x.get("cn") == "check_consecutive"):
        for r in regions.group_of_line(x["l"]):
            arities.setdefault(r, set()).add(len(x["args"]))
    nrun = 0
    for cls, nms in sorted(class_names.items()):
        need = set()
        for nm in nms:
            need |= run_len.get(nm, set())
        if not need:
            continue
        have = arities.get("case:" + cls, set())
        for n in sorted(need):
            nrun += 1
            chk.ob(R2, "%s|run-of-%d" % (cls, n), n in have, loc="asmjit/arm/a64assembler.cpp",
                   detail="class %s encodes %s with runs of %d registers but its case never calls check_consecutive with %d operands" % (
                       cls, sorted(nm for nm in nms if n in run_len.get(nm, set()))[:4], n, n), key="consecutive|a64|%s|%d" % (cls.replace("kEncoding", ""), n))
    chk.floor(R2 + ":obligations", nrun, 6)


def core_load(rel):
    from . import core
    return core.load_json(rel)


def field_mask(e):
    m = 0
    for parts in e["fields"].values():
        for p in parts:
            m |= ((1 << p["size"]) - 1) << p["index"]
    return m & 0xFFFFFFFF


def run_opcodes(chk, A):
    """C02.d — stored opcode constants vs the database templates (thorough tier)."""
    import re as _re
    emit, regions, dbf = A["emit"], A["regions"], A["db"]
    db = load_db(chk)
    R = "R-OPCODE-TEMPLATE"
    chk.rule(R, "for every instruction row and every `opcode.reset(<EncodingData field> << k)` of its class: the stored constant sets no bit that "
                "every candidate database template of the mnemonic fixes to 0 (some non-SVE form has no conflict with the fixed bits)")
    T = dbf["tables"]
    rows = T["asmjit::a64::InstDB::_inst_info_table"]["value"]
    f2 = chk.facts("asmjit/arm/a64instdb.cpp", tables=r"asmjit::a64::InstDB::(_inst_name_string_table|_inst_name_index_table)$")
    strtab = f2["tables"]["asmjit::a64::InstDB::_inst_name_string_table"]["value"]
    names = [nametables.decode(v, strtab) for v in f2["tables"]["asmjit::a64::InstDB::_inst_name_index_table"]["value"]]
    enc_name = {v: n for n, v in dbf["enums"]["asmjit::a64::InstDB::EncodingId"]["enumerators"]}
    by_name = {}
    for e in db:
        if not is_sve(e):
            by_name.setdefault(e["name"], []).append(e)
    # accessor shapes: EncodingData::X::opcode() { return uint32_t(_opcode) << 10; }
    fa = chk.facts("asmjit/arm/a64assembler.cpp", funcs=r"a64::InstDB::EncodingData::[A-Za-z0-9_]+::[a-zA-Z_0-9]+$")
    from . import cfg as _cfg
    acc = {}
    for fn in _cfg.load_functions(fa):
        rets = list(fn.return_sites())
        if len(rets) != 1:
            continue
        sh = shape(fn, fn.e(rets[0][2]).get("val"))
        if sh:
            acc[fn.name.replace("asmjit::a64::InstDB::EncodingData::", "")] = sh
    # case -> array (struct) used
    arr_of_case = {}
    for i, x in emit.ex.items():
        if x["k"] == "subscript":
            idx = emit.e(emit.strip(x["idx"]))
            base = emit.e(emit.strip(x["base"]))
            if idx and idx["k"] == "ref" and idx.get("name") == "encoding_index" and base and base["k"] == "ref" and base.get("dk") == "global":
                for reg in regions.group_of_line(x["l"]):
                    arr_of_case[reg] = base["qn"]
    sites = {}
    for i, x in emit.calls(lambda x: x.get("cn") == "reset" and x["k"] == "mcall" and "Opcode" in x.get("cls", "")):
        sh = shape(emit, x["args"][0])
        if not sh:
            continue
        for reg in regions.group_of_line(x["l"]):
            if reg.startswith("case:"):
                sites.setdefault(reg[5:], set()).add(sh)
    n = 0
    recs = []
    aliases = core_load("rules/a64_opcode_aliases.json")["aliases"]
    stats = {"rows": 0, "constants": 0, "skipped_zero": 0}
    for rid in range(1, len(rows)):
        cls = enc_name.get(rows[rid]["_encoding"], "?")
        arr = arr_of_case.get("case:" + cls)
        if not arr or arr not in T:
            continue
        if rows[rid]["_encoding_data_index"] >= len(T[arr]["value"]):
            continue        # out-of-range index: reported by R-ENCODING-DATA-INDEX
        data = T[arr]["value"][rows[rid]["_encoding_data_index"]]
        sname = T[arr]["ty"].split("::")[-1].split("[")[0]
        forms = by_name.get(names[rid], [])
        if not forms:
            continue
        stats["rows"] += 1
        for (fld, k, via) in sorted(sites.get(cls, ())):
            f, kk = fld, k
            if via == "accessor":
                a = acc.get("%s::%s" % (sname, fld))
                if not a:
                    continue
                f, kk = a[0], a[1] + k
            if f not in data:
                continue
            S = (data[f] << kk) & 0xFFFFFFFF
            if S == 0:
                stats["skipped_zero"] += 1
                continue
            stats["constants"] += 1
            best = None
            al = aliases.get("%s|%s.%s" % (names[rid], sname, f))
            cand = by_name.get(al["use"], []) if al else forms
            for e in cand:
                M = (~field_mask(e)) & 0xFFFFFFFF
                V = e["opv"] & 0xFFFFFFFF
                conflict = bin(S & M & ~V & 0xFFFFFFFF).count("1")
                if best is None or conflict < best[0]:
                    best = (conflict, e["op"])
            bf = [e for e in cand if bin(S & ((~field_mask(e)) & 0xFFFFFFFF) & ~(e["opv"] & 0xFFFFFFFF) & 0xFFFFFFFF).count("1") == 0]
            missing = min(bin((e["opv"] & 0xFFFFFFFF) & ((~field_mask(e)) & 0xFFFFFFFF) & ~S).count("1") for e in bf) if bf else None
            recs.append((cls, sname, f, names[rid], missing, S))
            n += 1
            chk.ob(R, "row:%s|%s.%s" % (names[rid] if True else rid, sname, f), best[0] == 0, loc="asmjit/arm/a64instdb.cpp",
                   detail="`%s`: stored %s.%s << %d = %08X sets %d bit(s) that the closest database template (%s) fixes to 0" % (names[rid], sname, f, kk, S, best[0], best[1]),
                   key="a64opcode|%s|%s.%s" % (names[rid], sname, f))
    chk.floor(R + ":constants", n, 600)
    chk.extra["a64_opcode_template"] = stats
    # complete constants: classes whose case only ORs operand fields into the stored word (frozen list, confirmed on the pinned tree):
    # the stored constant must contain every bit that the matching template fixes to 1
    R2 = "R-OPCODE-COMPLETE"
    chk.rule(R2, "for the encoding classes whose case adds only operand fields to the stored opcode (frozen list in rules/a64_opcode_full.json), "
                 "the stored constant contains every bit that a conflict-free database template of the mnemonic fixes to 1")
    full = set(core_load("rules/a64_opcode_full.json")["complete"])
    m = 0
    for (cls, sname, f, nm, missing, S) in recs:
        if "%s|%s.%s" % (cls, sname, f) in full and missing is not None:
            m += 1
            chk.ob(R2, "row:%s|%s.%s" % (nm, sname, f), missing == 0, loc="asmjit/arm/a64instdb.cpp",
                   detail="`%s`: stored %s.%s = %08X lacks %d bit(s) that its database template fixes to 1" % (nm, sname, f, S, missing),
                   key="a64opcodefull|%s|%s.%s" % (nm, sname, f))
    chk.floor(R2 + ":constants", m, 400)
    chk.extra["a64_opcode_records"] = len(recs)
    return recs


def shape(fn, eid):
    """Recognise `uint32_t(op_data.F) << k`, `op_data.F`, `op_data.F()`, `uint32_t(_F) << k` (inside accessors).
    Returns (field, shift, via) or None."""
    x = fn.e(fn.strip(eid)) if eid else None
    if x is None:
        return None
    k = 0
    if x["k"] == "binop" and x["op"] == "<<":
        r = fn.e(fn.strip(x["rhs"]))
        if r is None or "cv" not in r:
            return None
        k = r["cv"]
        x = fn.e(fn.strip(x["lhs"]))
        if x is None:
            return None
    if x["k"] == "member" and not x.get("method"):
        return (x["field"], k, "field")
    if x["k"] == "mcall" and not x.get("args") and x.get("obj"):
        o = fn.e(fn.strip(x["obj"]))
        if o and o["k"] == "ref" and o.get("name") == "op_data":
            return (x["cn"], k, "accessor")
    return None


def run_widths(chk, A):
    """C02.c' — general-purpose register width accepted per instruction vs the database operand notation."""
    emit, regions, dbf = A["emit"], A["regions"], A["db"]
    db = load_db(chk)
    R = "R-GP-WIDTH-AGREE"
    chk.rule(R, "for every instruction row whose encoding case tests an operand with check_gp_type(oK, op_data.<field>): the widths allowed by "
                "the row's field (kW / kX / kWX) equal the widths the database writes for operand K of that mnemonic (W.. / X.. / R..)")
    T = dbf["tables"]
    rows = T["asmjit::a64::InstDB::_inst_info_table"]["value"]
    f2 = chk.facts("asmjit/arm/a64instdb.cpp", tables=r"asmjit::a64::InstDB::(_inst_name_string_table|_inst_name_index_table)$")
    strtab = f2["tables"]["asmjit::a64::InstDB::_inst_name_string_table"]["value"]
    names = [nametables.decode(v, strtab) for v in f2["tables"]["asmjit::a64::InstDB::_inst_name_index_table"]["value"]]
    enc_name = {v: n for n, v in dbf["enums"]["asmjit::a64::InstDB::EncodingId"]["enumerators"]}
    by_name = {}
    for e in db:
        if not is_sve(e):
            by_name.setdefault(e["name"], []).append(e)
    arr_of_case = {}
    for i, x in emit.ex.items():
        if x["k"] == "subscript":
            idx = emit.e(emit.strip(x["idx"]))
            base = emit.e(emit.strip(x["base"]))
            if idx and idx["k"] == "ref" and idx.get("name") == "encoding_index" and base and base["k"] == "ref" and base.get("dk") == "global":
                for reg in regions.group_of_line(x["l"]):
                    arr_of_case[reg] = base["qn"]
    # (case, operand index, field) from the check_gp_type calls
    tests = {}
    for i, x in emit.calls(lambda x: x.get("cn") == "check_gp_type"):
        args = x.get("args", [])
        if len(args) < 2:
            continue
        fld = None
        ops = []
        for a in args:
            ax = emit.e(emit.strip(a))
            if ax and ax["k"] == "member" and "op_data" in emit.text(ax["base"]):
                fld = ax["field"]
            elif ax and ax["k"] == "ref" and re.match(r"^o[0-5]$", ax.get("name", "")):
                ops.append(int(ax["name"][1]))
        if fld is None or not ops:
            continue
        for reg in regions.group_of_line(x["l"]):
            if reg.startswith("case:"):
                for k in ops:
                    tests.setdefault(reg[5:], set()).add((k, fld))
    chk.floor(R + ":tested-classes", len(tests), 8)
    n = 0
    for rid in range(1, len(rows)):
        cls = enc_name.get(rows[rid]["_encoding"], "?")
        arr = arr_of_case.get("case:" + cls)
        if cls not in tests or not arr or arr not in T:
            continue
        vals = T[arr]["value"]
        if rows[rid]["_encoding_data_index"] >= len(vals):
            continue
        d = vals[rows[rid]["_encoding_data_index"]]
        forms = by_name.get(names[rid], [])
        for k, fld in sorted(tests[cls]):
            if fld not in d:
                continue
            w = set()
            for e in forms:
                if len(e["ops"]) <= k:
                    continue
                s = e["ops"][k]["s"]
                if re.match(r"^W[a-z]", s) or s.startswith("WSP") or s.startswith("W|"):
                    w.add(1)
                elif re.match(r"^X[a-z]", s) or s.startswith("X|") or s.startswith("SP"):
                    w.add(2)
                elif re.match(r"^R[a-z]", s):
                    w |= {1, 2}
            if not w:
                continue
            n += 1
            want = sum(w)
            chk.ob(R, "%s|o%d" % (names[rid], k), d[fld] == want, loc="asmjit/arm/a64instdb.cpp",
                   detail="`%s`: EncodingData field %s allows %s for operand %d, the database forms use %s (%s)" % (
                       names[rid], fld, {1: "W", 2: "X", 3: "W and X"}.get(d[fld], d[fld]), k, {1: "W only", 2: "X only", 3: "W and X"}[want],
                       "; ".join(" ".join(o["s"] for o in e["ops"]) for e in forms[:2])),
                   key="gpwidth|%s|o%d" % (names[rid], k))
    chk.floor(R + ":rows", n, 150)
