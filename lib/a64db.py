"""C02.c / C02.f — AArch64 encoder vs db/isa_aarch64.json: register field positions used by each
encoding-class case, and register-run checks."""
import re
from . import nametables
from .regions import Regions

REG_FIELD = re.compile(r"^(R|V|W|X|Z)?[a-z]{1,2}\d?$|^R[a-z]\d?$|^V[a-z]$")


def load_db(chk):
    from checks.C17 import load_a64_db
    return load_a64_db(chk)


def is_sve(e):
    return any(re.search(r"(^|[^A-Za-z])(Z[a-z]|P[a-z]|ZA|ZT)", o["s"]) for o in e["ops"])


def run(chk, A):
    emit, regions, dbf = A["emit"], A["regions"], A["db"]
    db = load_db(chk)
    T = dbf["tables"]
    rows = T["asmjit::a64::InstDB::_inst_info_table"]["value"]
    f2 = chk.facts("asmjit/arm/a64instdb.cpp", tables=r"asmjit::a64::InstDB::(_inst_name_string_table|_inst_name_index_table)$")
    strtab = f2["tables"]["asmjit::a64::InstDB::_inst_name_string_table"]["value"]
    names = [nametables.decode(v, strtab) for v in f2["tables"]["asmjit::a64::InstDB::_inst_name_index_table"]["value"]]
    enc_name = {v: n for n, v in dbf["enums"]["asmjit::a64::InstDB::EncodingId"]["enumerators"]}
    by_name = {}
    for e in db:
        if not is_sve(e):
            by_name.setdefault(e["name"], []).append(e)
    class_names = {}
    for rid in range(1, len(rows)):
        class_names.setdefault(enc_name.get(rows[rid]["_encoding"], "?"), set()).add(names[rid])

    # ------------------------------------------------------------------ C02.c register field positions
    R = "R-DB-AGREE"
    chk.rule(R, "every literal bit position at which an encoding-class case packs a register (add_reg(x, s)) is the position of a register "
                "field in the bit template of at least one db/isa_aarch64.json form of an instruction of that class")
    nsites = 0
    ords = {}
    for i, x in sorted(emit.calls(lambda x: x.get("cn") == "add_reg" and x["k"] == "mcall"), key=lambda t: t[1]["l"]):
        if len(x.get("args", [])) < 2:
            continue
        s = emit.e(emit.strip(x["args"][1]))
        if s is None or "cv" not in s:
            continue
        a0 = emit.e(emit.strip(x["args"][0]))
        if a0 is not None and "cv" in a0:
            continue        # a fixed register number (e.g. ZR of the cmp/tst/stadd aliases) is part of the opcode, not an operand field
        shift = s["cv"]
        region = regions.of_line(x["l"])
        if region.startswith("case:"):
            classes = [r[5:] for r in regions.group_of_line(x["l"])]
        else:
            classes = None         # shared tail: any class
        fields = set()
        pool = set()
        if classes is None:
            pool = set(by_name)
        else:
            for c in classes:
                pool |= class_names.get(c, set())
        for nm in pool:
            for e in by_name.get(nm, []):
                for fld, parts in e["fields"].items():
                    if re.match(r"^(R|V)[a-z]\d?$|^(R|V)[a-z][a-z]?$", fld) or fld in ("Rt2", "Rs", "Rd", "Rn", "Rm", "Ra", "Rt", "Vd", "Vn", "Vm", "Va", "Vt", "Vt2", "Vx", "Vdn"):
                        for p in parts:
                            if p["size"] == 5 or p["size"] == 4:
                                fields.add(p["index"])
        o = ords.get((region, shift), 0)
        ords[(region, shift)] = o + 1
        nsites += 1
        chk.ob(R, "a64::_emit|%s|add_reg@%d#%d" % (region, shift, o), (shift in fields) or not pool, loc=emit.loc(i),
               detail="register packed at bit %d in %s, but no database form of its instructions (%s...) has a register field there (fields at %s)" % (
                   shift, region, sorted(pool)[:4], sorted(fields)), key="a64field|%s|%d#%d" % (region, shift, o))
    chk.floor(R + ":add_reg-sites", nsites, 100)

    # ------------------------------------------------------------------ C02.f register runs are enforced
    R2 = "R-RUN-CHECKED"
    chk.rule(R2, "for every implemented mnemonic whose database forms contain a register run Nx{..} (N >= 2), the case of its encoding class "
                 "calls check_consecutive with N operands (a list that is not consecutive is refused, not encoded as a consecutive one)")
    run_len = {}
    for nm, forms in by_name.items():
        for e in forms:
            for o in e["ops"]:
                m = re.match(r"^([2-9])x\{", o["s"])
                if m:
                    run_len.setdefault(nm, set()).add(int(m.group(1)))
    arities = {}
    for i, x in emit.calls(lambda x: x.get("cn") == "check_consecutive"):
        for r in regions.group_of_line(x["l"]):
            arities.setdefault(r, set()).add(len(x["args"]))
    nrun = 0
    for cls, nms in sorted(class_names.items()):
        need = set()
        for nm in nms:
            need |= run_len.get(nm, set())
        if not need:
            continue
        have = arities.get("case:" + cls, set())
        for n in sorted(need):
            nrun += 1
            chk.ob(R2, "%s|run-of-%d" % (cls, n), n in have, loc="asmjit/arm/a64assembler.cpp",
                   detail="class %s encodes %s with runs of %d registers but its case never calls check_consecutive with %d operands" % (
                       cls, sorted(nm for nm in nms if n in run_len.get(nm, set()))[:4], n, n), key="consecutive|a64|%s|%d" % (cls.replace("kEncoding", ""), n))
    chk.floor(R2 + ":obligations", nrun, 6)
