"""R-REGISTRY-NODE-INACTIVE (C08, C14): a node that comes out of a registry of the Builder (label_node_of / section_node_of /
the `_const_pools[]` slots) may already be linked into the node list.  add_node / add_after / add_before link their argument
unconditionally (their `!is_active()` precondition is a debug assertion), so such a node may be passed to them only

  (a) on the edge where `node->is_active()` is known to be false, or
  (b) when the registry slot it was read from is cleared on every path from the call to the function's exit (one shot).

Nodes created in the same function (output of a new_*/_new_* callee) are inactive by construction and are counted, not
checked; nodes that are parameters or are derived from parameters (add_func(func)) are the caller's obligation."""
import re
from . import cfg
from .must import Must

ADDERS = ("add_node", "add_after", "add_before")
REGISTRIES = ("label_node_of", "section_node_of")
UNITS = [("asmjit/core/builder.cpp", r"asmjit::BaseBuilder::[A-Za-z_0-9]+$"),
         ("asmjit/core/compiler.cpp", r"asmjit::BaseCompiler::[A-Za-z_0-9]+$|GlobalConstPoolPass::run$")]


def _local_of(fn, e):
    x = fn.e(fn.strip(e))
    while x is not None and x["k"] == "unop" and x["op"] in ("*", "&"):
        x = fn.e(fn.strip(x["sub"]))
    if x is not None and x["k"] == "ref" and "did" in x:
        return x
    return None


def provenance(fn, did):
    """-> list of (kind, detail) for every definition of the local/parameter `did`."""
    out = []
    for p in fn.params:
        if p["did"] == did:
            out.append(("param", p["name"]))
    for i, x in fn.ex.items():
        if x["k"] == "decl":
            for v in x["vars"]:
                if v["did"] == did and v.get("init"):
                    out.append(_classify_value(fn, v["init"]))
        elif x["k"] == "binop" and x["op"] == "=":
            l = _local_of(fn, x["lhs"])
            if l is not None and l["did"] == did and fn.e(fn.strip(x["lhs"]))["k"] == "ref":
                out.append(_classify_value(fn, x["rhs"]))
        elif x["k"] in ("call", "mcall"):
            for a in x.get("args", []):
                l = _local_of(fn, a)
                ax = fn.e(a)
                passes_out = l is not None and l["did"] == did and (
                    "Out<" in (ax.get("ty") or "") or (fn.e(fn.strip(a)) or {}).get("k") == "unop" or
                    any(p["did"] == did and "Out<" in p["ty"] for p in fn.params))
                if passes_out:
                    cn = x.get("cn") or ""
                    if cn in REGISTRIES:
                        out.append(("registry", cn))
                    elif re.match(r"_?new_", cn):
                        out.append(("fresh", cn))
                    elif cn not in ADDERS and not cn.startswith("__builtin"):
                        out.append(("outparam", cn))
    return out


def _classify_value(fn, e):
    v = fn.e(fn.strip(e))
    if v is None:
        return ("unknown", "")
    txt = re.sub(r"\s+", "", fn.text(e))
    if v["k"] == "subscript" and "_const_pools" in txt:
        return ("slot", txt)
    if v["k"] in ("call", "mcall") and re.match(r"_?new_", v.get("cn") or ""):
        return ("fresh", v.get("cn"))
    if v.get("cvn") == "nullptr" or v["k"] == "nullptr" or txt in ("nullptr", "NULL"):
        return ("null", "")
    return ("derived", txt[:40])


def run(chk):
    R = "R-REGISTRY-NODE-INACTIVE"
    chk.rule(R, "a node taken from a Builder registry (label_node_of, section_node_of, a _const_pools[] slot) is linked with add_node/add_after/"
                "add_before only on the edge where is_active() is false, or when the slot it came from is cleared on every path to the exit; "
                "the adders' own !is_active() precondition is a debug assertion")
    sites = {"fresh": 0, "caller": 0}
    checked = 0
    for unit, fre in UNITS:
        f = chk.facts(unit, funcs=fre)
        for fo in f["functions"]:
            fn = cfg.Fn(fo)
            if not fn.file.endswith(unit.split("/")[-1]) or fn.name.split("::")[-1] in ADDERS:
                continue
            adds = [(i, x) for i, x in fn.calls(lambda x: x["k"] == "mcall" and x.get("cn") in ADDERS and x.get("args"))]
            if not adds:
                continue

            def edge(b, si, atom, holds, fn=fn):
                x = fn.e(atom)
                if x and x["k"] == "mcall" and x.get("cn") == "is_active" and not holds:
                    return [("inactive", fn.access_path(x["obj"]))]
                if x and x["k"] == "unop" and x["op"] == "!" and holds:
                    y = fn.e(fn.strip(x["sub"]))
                    if y and y["k"] == "mcall" and y.get("cn") == "is_active":
                        return [("inactive", fn.access_path(y["obj"]))]
                return ()
            must = None
            for k, (i, x) in enumerate(adds):
                l = _local_of(fn, x["args"][0])
                if l is None:
                    sites["caller"] += 1          # func->exit_node() etc.: derived from a parameter
                    continue
                prov = provenance(fn, l["did"])
                kinds = {p[0] for p in prov}
                if kinds & {"registry", "slot"}:
                    checked += 1
                    if must is None:
                        must = Must(fn, None, edge, resolve_locals=True)
                    path = fn.access_path(fn.strip(x["args"][0]))
                    ok = ("inactive", path) in (must.before(i) or frozenset())
                    how = "is_active() false edge"
                    if not ok:
                        slots = [p[1] for p in prov if p[0] == "slot"]
                        if slots and "registry" not in kinds:
                            ok = all(_cleared_after(fn, i, s) for s in slots)
                            how = "slot cleared on every path to the exit"
                    inst = "%s|%s#%d" % (fn.name.replace("asmjit::", ""), x["cn"], k)
                    chk.ob(R, inst, ok, loc=fn.loc(i),
                           detail="`%s` links a node obtained from %s that may already be part of the node list (second bind()/second flush): "
                                  "the list is relinked around a live node, nodes between the two positions are lost or the list becomes cyclic"
                                  % (" ".join(fn.text(i).split())[:50], ", ".join(sorted("%s %s" % p for p in prov if p[0] in ("registry", "slot")))),
                           key="nodeinactive|" + inst)
                elif kinds and kinds <= {"fresh", "null"}:
                    sites["fresh"] += 1
                else:
                    sites["caller"] += 1
    chk.need(checked >= 3, "fewer than 3 registry-sourced add_node/add_after/add_before sites found (%d)" % checked)
    chk.need(sites["fresh"] >= 8, "fewer than 8 fresh-node adder sites found (%d): provenance classification broken" % sites["fresh"])


def _cleared_after(fn, call_eid, slot_txt):
    """Every path from the adder call to the exit assigns nullptr to the slot."""
    blk = fn.block_of()
    if call_eid not in blk:
        return False
    b0, idx0 = blk[call_eid]
    clearing = {}
    for i, x in fn.ex.items():
        if x["k"] == "binop" and x["op"] == "=" and re.sub(r"\s+", "", fn.text(x["lhs"])) == slot_txt:
            r = fn.e(fn.strip(x["rhs"]))
            if r is not None and (r.get("cvn") == "nullptr" or re.sub(r"\s+", "", fn.text(x["rhs"])) == "nullptr") and i in blk:
                clearing.setdefault(blk[i][0], []).append(blk[i][1])
    if any(j > idx0 for j in clearing.get(b0, [])):
        return True
    avoid = set(clearing)
    reach = fn.reachable_from(b0, avoid=avoid)
    exits = {b["id"] for b in fn.blocks.values() if not [s for s in b["succs"] if s is not None]}
    return not (reach & exits - {b0}) and bool(avoid)
