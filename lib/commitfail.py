"""R-COMMIT-THEN-FAIL: once CodeHolder::new_reloc_entry() succeeded, every failing exit of the creating function
must first neutralise the entry (`re->_reloc_type = RelocType::kNone`, which relocate_to_base skips) - otherwise a
half-built relocation stays in the holder after a reported failure.  May-analysis: 'live entry' is generated on the
success edge of the creation's own error test, killed by the neutralising assignment; reported at failing exits
(returns of a non-kOk value, and in the big emit functions the error labels)."""
from .cfg import forward
from .must import branch_atoms
from .rollback import err_compare


def analyse(fn):
    atoms = branch_atoms(fn)
    pos = fn.block_of()
    labels = {v: k for k, v in fn.label_blocks().items()}
    err_label_blocks = {b for b, n in labels.items() if n in ("OutOfMemory", "Failed") or n.startswith("Invalid")}
    reports = {}

    def step(el, st, report):
        x = fn.e(el)
        if not x:
            return st
        if x["k"] in ("call", "mcall") and x.get("cn") == "new_reloc_entry":
            return st | {("pending", el)}
        if x["k"] == "binop" and x["op"] == "=" and (fn.access_path(x["lhs"]) or "").endswith("._reloc_type"):
            r = fn.e(fn.strip(x["rhs"]))
            if r is not None and r.get("cvn") == "kNone":
                return frozenset(f for f in st if f[0] != "live")
        if x["k"] == "return" and report:
            if x.get("cvn") != "kOk":
                v = fn.e(fn.strip(x.get("val", 0))) if x.get("val") else None
                if not (v and v["k"] in ("call", "mcall") and v.get("cn") == "log_instruction_failed"):
                    for f in st:
                        if f[0] == "live":
                            reports.setdefault(f[1], el)
        return st

    def transfer(b, st):
        if b in err_label_blocks:
            return st
        for el in fn.blocks[b]["elems"]:
            if isinstance(el, int):
                st = step(el, st, False)
        return st

    # the pointer variable that receives the entry: new_reloc_entry(Out(re), ..)
    out_vars = set()
    for i, x in fn.calls(lambda x: x.get("cn") == "new_reloc_entry"):
        for j in fn.walk(x["args"][0]):
            y = fn.e(j)
            if y["k"] == "ref" and y.get("dk") == "local":
                out_vars.add(y["did"])

    def edge(b, si, succ, st):
        if b in atoms and any(f[0] == "live" for f in st):
            atom, pol = atoms[b]
            a = fn.e(atom)
            if a and a["k"] == "ref" and a.get("did") in out_vars and ((si == 0) == pol) is False:
                # `if (re)` is false: no entry was created on this path
                st = frozenset(f for f in st if f[0] != "live")
        pend = [f for f in st if f[0] == "pending"]
        if pend and b in atoms:
            atom, pol = atoms[b]
            ec = err_compare(fn, atom)
            if ec:
                holds = (si == 0) == pol
                ok = (ec[1] == holds)
                st = frozenset(f for f in st if f[0] != "pending")
                if ok:
                    st = st | {("live", p[1]) for p in pend}
                return st
        return st

    def join(states):
        s = set()
        for t in states:
            s |= t
        return frozenset(s)
    IN, OUT = forward(fn, frozenset(), transfer, join, edge=edge)
    for b in fn.blocks:
        if b in IN:
            st = IN[b]
            if b in err_label_blocks:
                for f in st:
                    if f[0] == "live":
                        reports.setdefault(f[1], ("label", labels[b]))
                continue
            for el in fn.blocks[b]["elems"]:
                if isinstance(el, int):
                    st = step(el, st, True)
    return reports
