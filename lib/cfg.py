"""Python view of the facts written by bin/astfacts for one function: expression trees, the
clang CFG, and small generic dataflow solvers used by the rule drivers."""
from collections import deque


class Fn:
    def __init__(self, fo):
        self.raw = fo
        self.name = fo["name"]
        self.file = fo["file"]
        self.line = fo["line"]
        self.end_line = fo["end_line"]
        self.params = fo.get("params", [])
        self.ex = {int(k): v for k, v in fo.get("exprs", {}).items()}
        self.blocks = {b["id"]: b for b in fo.get("blocks", [])}
        for b in self.blocks.values():
            if b.get("noreturn"):
                # a failed ASMJIT_ASSERT / abort never continues: do not let it reach the exit block
                b["succs"] = []
        self.entry = fo.get("entry")
        self.exit = fo.get("exit")
        self.preds = {b: [] for b in self.blocks}
        for b in self.blocks.values():
            for s in b["succs"]:
                if s is not None:
                    self.preds[s].append(b["id"])
        self._parent = None
        self._blk_of = None

    # ---------------------------------------------------------------- expression helpers
    def e(self, eid):
        return self.ex.get(eid)

    def kind(self, eid):
        x = self.ex.get(eid)
        return x["k"] if x else None

    def text(self, eid):
        x = self.ex.get(eid)
        return x.get("t", "") if x else ""

    def line_of(self, eid):
        x = self.ex.get(eid)
        return x.get("l", 0) if x else 0

    def loc(self, eid):
        return "%s:%d" % (self.file.replace("/repo/", ""), self.line_of(eid))

    def children(self, eid):
        x = self.ex.get(eid)
        if not x:
            return []
        out = []
        for key in ("obj", "callee_expr", "base", "idx", "lhs", "rhs", "sub", "c", "a", "b", "val", "init", "cond"):
            v = x.get(key)
            if isinstance(v, int) and v:
                out.append(v)
        for key in ("args", "placement", "ch"):
            for v in x.get(key, []) or []:
                if isinstance(v, int) and v:
                    out.append(v)
        if x["k"] == "decl":
            for v in x.get("vars", []):
                if v.get("init"):
                    out.append(v["init"])
        # dedupe keeping order
        seen = set()
        res = []
        for v in out:
            if v not in seen:
                seen.add(v)
                res.append(v)
        return res

    def walk(self, eid):
        """Pre-order iteration over the subtree rooted at eid (ids)."""
        stack = [eid]
        seen = set()
        while stack:
            i = stack.pop()
            if i in seen or i not in self.ex:
                continue
            seen.add(i)
            yield i
            stack.extend(reversed(self.children(i)))

    def parent_map(self):
        if self._parent is None:
            self._parent = {}
            for i in self.ex:
                for c in self.children(i):
                    self._parent.setdefault(c, i)
        return self._parent

    def strip(self, eid):
        """Skip explicit casts, single-argument constructions, unary & and *, `.as<T>()`."""
        while True:
            x = self.ex.get(eid)
            if not x:
                return eid
            k = x["k"]
            if k == "cast":
                eid = x["sub"]
                continue
            if k == "construct" and len(x.get("args", [])) == 1:
                eid = x["args"][0]
                continue
            if k == "unop" and x["op"] in ("&", "*"):
                eid = x["sub"]
                continue
            if k == "mcall" and x.get("cn") in ("as",) and x.get("obj"):
                eid = x["obj"]
                continue
            return eid

    def root_ref(self, eid):
        """The declaration an lvalue expression is rooted in: follows member accesses,
        subscripts, casts, `as<>()`. Returns the `ref`/`this` node id or None."""
        for _ in range(64):
            eid = self.strip(eid)
            x = self.ex.get(eid)
            if not x:
                return None
            k = x["k"]
            if k in ("ref", "this"):
                return eid
            if k == "member":
                eid = x["base"]
            elif k == "subscript":
                eid = x["base"]
            elif k in ("mcall", "opcall") and x.get("obj"):
                eid = x["obj"]
            else:
                return None
        return None

    def access_path(self, eid):
        """Canonical text of an lvalue: 'this->_a._b', 'impl->x', 'v[i]' -> used to compare lvalues
        syntactically. Returns None for non-lvalue shapes."""
        eid = self.strip(eid)
        x = self.ex.get(eid)
        if not x:
            return None
        k = x["k"]
        if k == "ref":
            return x["name"]
        if k == "this":
            return "this"
        if k == "member":
            b = self.access_path(x["base"])
            if b is None:
                return None
            return b + "." + x["field"]
        if k == "subscript":
            b = self.access_path(x["base"])
            return None if b is None else b + "[]"
        if k == "mcall" and x.get("obj") and not x.get("args"):
            b = self.access_path(x["obj"])
            return None if b is None else b + "." + x.get("cn", "?") + "()"
        return None

    def calls(self, pred=None):
        for i, x in self.ex.items():
            if x["k"] in ("call", "mcall", "opcall") and (pred is None or pred(x)):
                yield i, x

    # ---------------------------------------------------------------- CFG helpers
    def block_of(self):
        """Map expression id -> (block id, index in block)."""
        if self._blk_of is None:
            m = {}
            for b in self.blocks.values():
                for idx, el in enumerate(b["elems"]):
                    if isinstance(el, int):
                        m.setdefault(el, (b["id"], idx))
            self._blk_of = m
        return self._blk_of

    def rpo(self):
        order, seen = [], set()
        stack = [(self.entry, iter(self.succs(self.entry)))]
        seen.add(self.entry)
        while stack:
            b, it = stack[-1]
            adv = False
            for s in it:
                if s not in seen:
                    seen.add(s)
                    stack.append((s, iter(self.succs(s))))
                    adv = True
                    break
            if not adv:
                order.append(b)
                stack.pop()
        order.reverse()
        return order

    def succs(self, b):
        return [s for s in self.blocks[b]["succs"] if s is not None]

    def reachable_from(self, b0, avoid=()):
        seen = {b0}
        dq = deque([b0])
        while dq:
            b = dq.popleft()
            for s in self.succs(b):
                if s not in seen and s not in avoid:
                    seen.add(s)
                    dq.append(s)
        return seen

    def label_blocks(self):
        return {b["label"]["name"]: b["id"] for b in self.blocks.values()
                if b.get("label") and b["label"].get("kind") == "label"}

    def return_sites(self):
        """(block id, index, return expr id)."""
        for b in self.blocks.values():
            for idx, el in enumerate(b["elems"]):
                if isinstance(el, int) and self.kind(el) == "return":
                    yield b["id"], idx, el


def forward(fn, init, transfer, join, edge=None, top=None, max_iter=200000):
    """Generic forward dataflow.  transfer(block_id, state) -> state at block end.
    edge(block_id, succ_index, succ_id, state) -> state on that edge (optional, for branch
    refinement).  join(list_of_states) -> state.  `top` is the optimistic initial value used
    for not-yet-visited predecessors (None = ignore unvisited predecessors).
    Returns (IN, OUT) dicts."""
    IN, OUT = {}, {}
    order = fn.rpo()
    pos = {b: i for i, b in enumerate(order)}
    work = deque(order)
    inwork = set(order)
    IN[fn.entry] = init
    it = 0
    while work:
        it += 1
        if it > max_iter:
            raise RuntimeError("dataflow did not converge in %s" % fn.name)
        b = work.popleft()
        inwork.discard(b)
        if b != fn.entry:
            ins = []
            for p in fn.preds[b]:
                if p not in OUT:
                    continue
                blk = fn.blocks[p]
                for si, s in enumerate(blk["succs"]):
                    if s == b:
                        st = OUT[p]
                        if edge is not None:
                            st = edge(p, si, b, st)
                        ins.append(st)
            if not ins:
                continue
            IN[b] = join(ins)
        new = transfer(b, IN[b])
        if b not in OUT or OUT[b] != new:
            OUT[b] = new
            for s in fn.succs(b):
                if s not in inwork and s in pos:
                    inwork.add(s)
                    work.append(s)
    return IN, OUT


def load_functions(facts):
    return [Fn(f) for f in facts.get("functions", []) if not f.get("cfg_failed")]


def find_fn(facts, suffix, required=True):
    """The unique function whose qualified name ends with `suffix`."""
    hits = [f for f in facts.get("functions", []) if f["name"] == suffix or f["name"].endswith("::" + suffix)]
    if not hits:
        if required:
            from .core import AnalysisBroken
            raise AnalysisBroken("function %s not found in %s" % (suffix, facts.get("unit")))
        return None
    return Fn(hits[0])


def find_fns(facts, suffix):
    return [Fn(f) for f in facts.get("functions", []) if f["name"] == suffix or f["name"].endswith("::" + suffix)]


def callee_closure(root, fns, depth=3):
    """root plus the functions of `fns` (a list of Fn of the same unit) that root calls, transitively (by qualified callee name)"""
    by = {}
    for g in fns:
        by.setdefault(g.name, []).append(g)
    out, seen, work = [root], {id(root)}, [(root, 0)]
    while work:
        g, d = work.pop()
        if d >= depth:
            continue
        for i, x in g.calls():
            for h in by.get(x.get("callee") or "", []):
                if id(h) not in seen and len(h.params) == len(x.get("args", [])):
                    seen.add(id(h))
                    out.append(h)
                    work.append((h, d + 1))
    return out
