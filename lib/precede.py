"""R-MUST-PRECEDE (config driven): in function F every call of `at` is preceded on all paths by a call
of `requires` (must-analysis over the CFG)."""
import re
from . import cfg
from .must import Must


def short(n):
    return n.replace("asmjit::", "")


def run(chk, entries, rule="R-MUST-PRECEDE"):
    chk.rule(rule, "every call of callee A inside function F is preceded on all CFG paths by a call of callee B (instances in the rules file)")
    for ent in entries:
        f = chk.facts(ent["unit"], funcs="asmjit::" + ent["function"] + "$")
        fns = cfg.load_functions(f)
        chk.need(len(fns) >= 1, "function %s not found in %s" % (ent["function"], ent["unit"]))
        at = re.compile(ent["at"])
        req = re.compile(ent["requires"])
        n = 0
        for fn in fns:
            def elem_fx(eid, x):
                if x["k"] in ("call", "mcall") and x.get("callee") and req.search(x["callee"]):
                    return ((("done",),), ())
                return None
            m = Must(fn, elem_fx, None)
            for i, x in fn.calls(lambda x: x.get("callee") and at.search(x["callee"])):
                n += 1
                st = m.before(i) or frozenset()
                chk.ob(rule, "%s|%s<-%s#%d" % (short(fn.name), ent["at"].rstrip("$"), ent["requires"].rstrip("$"), n), ("done",) in st, loc=fn.loc(i),
                       detail="%s: %s is reachable without a preceding %s (%s)" % (short(fn.name), short(x["callee"]), ent["requires"].rstrip("$"), ent.get("why", "")))
        chk.floor(rule + ":" + ent["function"], n, ent.get("min_sites", 1))
