"""R-EVEX-CAPABILITY-SIBLINGS (C13, C01): the validator and the register allocator agree on what decides whether SIMD registers 16..31
can be used with an instruction form.

Registers xmm/ymm/zmm16..31 (and VSIB indexes 16..31) exist only under the EVEX prefix.  Whether a given *form* has an EVEX encoding
is decided from per-instruction database flags: kEvex, and for instructions that also have a VEX encoding kEvexCompat (same
signatures), kEvexKReg (EVEX only with a mask destination - the compares) and kEvexTwoOp (EVEX only in the two operand form - the
gathers).  The x86 register allocator consults exactly these to restrict the allocable registers to 0..15.  A validator that accepts
ids 16..31 without consulting the same flags accepts forms the encoder can only emit as a different (or no) instruction.

Rule: every capability accessor the register allocator reads in a branch condition is also read in InstInternal::validate(), at a
point from which a `return make_error(Error::kInvalidPhysId)` is still reachable (so the read can lead to a refusal)."""
from . import cfg

ACCESSORS = {"is_evex": "kEvex", "is_vex": "kVex", "is_evex_compatible": "kEvexCompat", "is_evex_kreg_only": "kEvexKReg",
             "is_evex_two_op_only": "kEvexTwoOp"}
BY_FLAG = {v: k for k, v in ACCESSORS.items()}


def _reads(fn):
    """element id -> accessor name, for every read of a capability flag (accessor call or has_flag(InstFlags::kX))"""
    out = {}
    for i, x in fn.ex.items():
        if x["k"] != "mcall":
            continue
        if x.get("cn") in ACCESSORS and not x.get("args"):
            out[i] = x["cn"]
        elif x.get("cn") == "has_flag" and x.get("args"):
            a = fn.e(fn.strip(x["args"][0]))
            if a is not None and a.get("cvn") in BY_FLAG:
                out[i] = BY_FLAG[a["cvn"]]
    return out


def run(chk):
    R = "R-EVEX-CAPABILITY-SIBLINGS"
    chk.rule(R, "every EVEX-capability flag of the instruction database that the x86 register allocator reads in a branch condition to restrict "
                "SIMD registers to 0..15 (is_evex / is_vex / is_evex_compatible / is_evex_kreg_only / is_evex_two_op_only) is also read by "
                "InstInternal::validate() at a point from which `return make_error(Error::kInvalidPhysId)` is reachable: the validator can "
                "refuse xmm16..31 exactly for the forms the allocator would never give them to")
    fr = chk.facts("asmjit/x86/x86rapass.cpp", funcs=r"asmjit::x86::.*")
    ra = set()
    where = {}
    for fn in cfg.load_functions(fr):
        if not fn.file.endswith("x86rapass.cpp"):
            continue
        conds = set()
        for b in fn.blocks.values():
            t = b.get("term")
            if t and t.get("cond") is not None:
                conds |= set(fn.walk(t["cond"]))
        for i, a in _reads(fn).items():
            if i in conds:
                ra.add(a)
                where.setdefault(a, fn.loc(i))
    chk.need(len(ra) >= 3, "x86 register allocator: EVEX capability reads not found (%s)" % sorted(ra))
    fv = chk.facts("asmjit/x86/x86instapi.cpp", funcs=r"asmjit::x86::InstInternal::validate$")
    vfns = [g for g in cfg.load_functions(fv) if g.file.endswith("x86instapi.cpp")]
    chk.need(len(vfns) >= 1, "x86::InstInternal::validate not found")
    val = max(vfns, key=lambda g: len(g.ex))
    pos = val.block_of()
    par = val.parent_map()
    refuse_blocks = set()
    for b, idx, r in val.return_sites():
        if "kInvalidPhysId" in val.text(r):
            refuse_blocks.add(b)
    chk.need(refuse_blocks, "validate(): no `return make_error(Error::kInvalidPhysId)`")
    can = {}
    # reads made by unit-local helpers count where the helper is called (the decision may live in a bool helper)
    fh = chk.facts("asmjit/x86/x86instapi.cpp", funcs=r"asmjit::x86::[A-Za-z_0-9:]+$")
    helpers = {}
    for g in cfg.load_functions(fh):
        if g.file.endswith("x86instapi.cpp") and g.name != val.name:
            helpers.setdefault(g.name, g)

    def helper_reads(g, depth=0, seen=()):
        out = set(_reads(g).values())
        if depth < 2:
            for ci, cx in g.calls(lambda x: x.get("callee") in helpers and x.get("callee") not in seen):
                out |= helper_reads(helpers[cx["callee"]], depth + 1, seen + (g.name,))
        return out
    all_reads = dict(_reads(val))
    via = {}
    for ci, cx in val.calls(lambda x: x.get("callee") in helpers):
        for a in helper_reads(helpers[cx["callee"]]):
            via.setdefault(ci, set()).add(a)
    items = list(all_reads.items()) + [(ci, a) for ci, aset in via.items() for a in sorted(aset)]
    for i, a in items:
        j = i
        while j not in pos and j in par:
            j = par[j]
        if j not in pos:
            # inside a branch condition: find the block whose terminator condition holds it
            for b in val.blocks.values():
                t = b.get("term")
                if t and t.get("cond") is not None and i in set(val.walk(t["cond"])):
                    j = None
                    blk = b["id"]
                    break
            else:
                continue
        else:
            blk = pos[j][0]
        reach = val.reachable_from(blk)
        if refuse_blocks & (set(reach) | {blk}):
            can.setdefault(a, val.loc(i))
    n = 0
    for a in sorted(ra):
        n += 1
        chk.ob(R, "validate|%s" % a, a in can, loc=can.get(a) or "asmjit/x86/x86instapi.cpp:%d" % val.line,
               detail="the register allocator decides from %s() (%s) whether an instruction form may use SIMD registers 16..31, but "
                      "InstInternal::validate() never reads InstFlags::%s where it could still refuse with kInvalidPhysId: it accepts xmm16..31 "
                      "for forms that have no EVEX encoding, which the encoder emits as EVEX + the VEX opcode (another instruction)" %
                      (a, where.get(a), ACCESSORS[a]), key="evexsiblings|%s" % a)
    chk.floor(R + ":capabilities", n, 4)
