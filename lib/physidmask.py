"""R-PHYS-ID-MASK-APPLIED (C14, C13): every physical register id the x86 validator reads is tested against the mode's register mask.

InstInternal::validate() reads four kinds of register id: the id of a register operand, the base id and the index id of a memory
operand and the id of the {k} extra register.  X86ValidationData::allowed_reg_mask[type] says which physical ids exist for a
register type in the mode (8 / 16 / 32 registers, k0..k7).  For each id source the function contains a branch on
Support::bit_test(vd->allowed_reg_mask[<type of the same register>], <id>) whose failing side returns an error - an id that only
"fits the mask word" (id < 32) is not enough: the emitter keeps the low bits it can encode (`[gpq(20)]` became `[rsp]`, {k9} became
{k1} with a changed vvvv)."""
from . import cfg
from .must import branch_atoms

SOURCES = {"id": "type", "base_id": "base_type", "index_id": "index_type"}
ALIAS = {"reg_type": "type"}


def _obj(fn, x):
    """the register an accessor is applied to: `op.as<Reg>()` is `op`"""
    import re
    return re.sub(r"\.as<[A-Za-z_:]+>\(\)", "", "".join(fn.text(x["obj"]).split())) if x.get("obj") is not None else ""


def run(chk, unit="asmjit/x86/x86instapi.cpp", rule="R-PHYS-ID-MASK-APPLIED"):
    chk.rule(rule, "x86 InstInternal::validate: for every register id it reads (operand id, memory base id, memory index id, {k} extra "
                   "register id) there is a branch on Support::bit_test(vd->allowed_reg_mask[T], id) - T being the type read from the same "
                   "register - and the side on which the bit is clear returns a failing status")
    f = chk.facts(unit, funcs=r"InstInternal::validate$")
    fn = cfg.find_fn(f, "validate")
    atoms = branch_atoms(fn)
    # locals by the accessor they are initialised from: did -> (accessor, object text)
    src = {}
    for d in fn.ex.values():
        if d["k"] != "decl":
            continue
        for v in d["vars"]:
            if v.get("init") is None:
                continue
            x = fn.e(fn.strip(v["init"]))
            if x is not None and x["k"] == "mcall" and not x.get("args"):
                src[v["did"]] = (ALIAS.get(x.get("cn"), x.get("cn")), _obj(fn, x), v["name"])

    def source_of(e):
        """(accessor, object) a value was read with: `op.id()` / a local initialised from it"""
        x = fn.e(fn.strip(e))
        if x is None:
            return None
        if x["k"] == "ref" and x.get("did") in src:
            return src[x["did"]][:2]
        if x["k"] == "mcall" and not x.get("args"):
            return (ALIAS.get(x.get("cn"), x.get("cn")), _obj(fn, x))
        return None

    def fails(b, pol_clear):
        """the successor of b taken when the bit is clear reaches, before any join with the other side, a failing return"""
        succs = fn.blocks[b]["succs"]
        if len(succs) != 2 or None in succs:
            return False
        bad = succs[1] if pol_clear else succs[0]
        for _ in range(4):
            for el in fn.blocks[bad]["elems"]:
                x = fn.e(el) if isinstance(el, int) else None
                if x is not None and x["k"] == "return" and x.get("val") is not None:
                    v = fn.e(fn.strip(x["val"]))
                    return v is not None and (v["k"] in ("call", "mcall") and v.get("cn") == "make_error" or (v.get("cvn") or "kOk") != "kOk")
            nx = [q for q in fn.blocks[bad]["succs"] if q is not None]
            if len(nx) != 1:
                return False
            bad = nx[0]
        return False

    tests = []       # (id source, type source or enumerator, fails)
    for b, (atom, pol) in atoms.items():
        x = fn.e(fn.strip(atom))
        if x is not None and x["k"] == "binop" and x["op"] in ("==", "!=") and fn.text(x["rhs"]).strip() in ("0", "0u", "false"):
            pol = pol if x["op"] == "!=" else not pol
            x = fn.e(fn.strip(x["lhs"]))
        if x is None or x["k"] not in ("call", "mcall") or x.get("cn") != "bit_test" or len(x.get("args") or []) != 2:
            continue
        m = fn.e(fn.strip(x["args"][0]))
        if m is None or m["k"] != "subscript" or "allowed_reg_mask" not in fn.text(m["base"]):
            continue
        idx = m["idx"]
        ix = fn.e(fn.strip(idx))
        while ix is not None and ix["k"] in ("cast", "paren", "fcast", "construct") and (ix.get("sub") is not None or ix.get("args")):
            idx = ix["sub"] if ix.get("sub") is not None else ix["args"][0]
            ix = fn.e(fn.strip(idx))
        ty = ix.get("cvn") if ix is not None and ix.get("cvn") else source_of(idx)
        tests.append((source_of(x["args"][1]), ty, fails(b, pol), fn.line_of(atom)))

    # the id sources of the function
    wanted = []
    for did, (acc, obj, name) in sorted(src.items()):
        if acc in SOURCES:
            wanted.append(((acc, obj), (SOURCES[acc], obj), name))
    # {k}: the extra register whose type is compared with RegType::kMask
    for i, x in sorted(fn.ex.items()):
        if x["k"] == "binop" and x["op"] in ("!=", "==") and fn.e(fn.strip(x["rhs"])) is not None and fn.e(fn.strip(x["rhs"])).get("cvn") == "kMask":
            s_ = source_of(x["lhs"])
            if s_ and s_[0] == "type" and (("id", s_[1]), "kMask", s_[1] + ".id()") not in wanted:
                wanted.append((("id", s_[1]), "kMask", s_[1] + ".id()"))
    n = 0
    for ids, ty, name in wanted:
        n += 1
        hit = [t for t in tests if t[0] == ids]
        ok = any(t[1] == ty and t[2] for t in hit)
        why = ("no branch tests it against vd->allowed_reg_mask[]" if not hit else
               "the mask it is tested against is not the one of its own register type" if not any(t[1] == ty for t in hit) else
               "the side on which the bit is clear does not return an error")
        chk.ob(rule, "x86::validate|%s" % name, ok, loc="%s:%d" % (unit, fn.line),
               detail="the physical id `%s` is accepted by validate() although %s: an id the mode does not have (gpq(20) as base / index, {k9}) "
                      "passes strict validation and is encoded with its low bits" % (name, why), key="physidmask|%s" % name)
    chk.floor(rule + ":ids", n, 4)
    return n
