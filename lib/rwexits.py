"""R-RW-AVX512-EXITS (C12): within one category case of x86 query_rw_info either every success exit goes through
rw_handle_avx512() (which adds the {k} read and, under merge masking, the destination read) or none does."""
from . import cfg
from .regions import Regions


def run(chk):
    R = "R-RW-AVX512-EXITS"
    chk.rule(R, "x86 query_rw_info: in a category case where one success exit returns through rw_handle_avx512(), every success exit does - the "
                "{k} register and the merge-masked destination are reported as read for every operand form of an AVX-512 capable category")
    unit = "asmjit/x86/x86instapi.cpp"
    f = chk.facts(unit, funcs=r"asmjit::x86::InstInternal::query_rw_info$")
    fn = cfg.find_fn(f, "query_rw_info")
    reg = Regions(fn, case_prefix="kCategory")
    chk.need(reg.dispatch is not None, "category switch not found in query_rw_info")
    groups = {}
    for b, idx, r in fn.return_sites():
        x = fn.e(r)
        v = fn.e(fn.strip(x["val"])) if x.get("val") else None
        if v is None:
            continue
        kind = None
        if v["k"] in ("call", "mcall") and v.get("cn") == "rw_handle_avx512":
            kind = "avx512"
        elif v.get("cvn") == "kOk":
            kind = "plain"
        if kind is None:
            continue
        region = tuple(sorted(reg.group_of_line(x["l"])))
        if not region or not region[0].startswith("case:"):
            continue
        groups.setdefault(region, []).append((r, kind))
    n = 0
    for region, rets in sorted(groups.items()):
        kinds = {k for _, k in rets}
        if "avx512" not in kinds:
            continue
        n += 1
        plain = [r for r, k in rets if k == "plain"]
        chk.ob(R, "|".join(x[5:] for x in region), not plain, loc=fn.loc(plain[0]) if plain else "%s:%d" % (unit, fn.line),
               detail="category %s: %d exits go through rw_handle_avx512() but the exit at line %s returns kOk directly: a {k}-masked form of "
                      "these instructions does not report the mask and the merged destination as read" % (
                          ", ".join(x[5:] for x in region), len(rets) - len(plain), ", ".join(str(fn.line_of(r)) for r in plain[:4])),
               key="rwexits|%s" % "|".join(x[5:] for x in region))
    chk.floor(R + ":categories", n, 3)


def run_bitmask(chk):
    R = "R-BITMASK-HOMOGENEOUS"
    chk.rule(R, "every multi-argument Support::bit_mask<>() call in the instruction-API units builds its mask from enumerators of one enum type "
                "(type-resolved): a mask that mixes RegType with RegGroup (or any two enums) tests bits that mean something else")
    n = 0
    for unit, rex in (("asmjit/x86/x86instapi.cpp", r"asmjit::x86::InstInternal::[A-Za-z_0-9]+$|asmjit::x86::InstInternal_[A-Za-z_0-9]+$"),
                      ("asmjit/arm/a64instapi.cpp", r"asmjit::a64::InstInternal::[A-Za-z_0-9]+$")):
        f = chk.facts(unit, funcs=rex)
        for fn in cfg.load_functions(f):
            for i, x in fn.calls(lambda x: (x.get("cn") or "") == "bit_mask" and len(x.get("args", [])) >= 2):
                tys = sorted({(fn.e(a) or {}).get("ty") or "?" for a in x["args"]})
                n += 1
                chk.ob(R, "%s|%s" % (fn.name.split("::")[-1], " ".join(fn.text(i).split())[:50]), len(tys) == 1, loc=fn.loc(i),
                       detail="`%s` combines values of different types %s in one bit mask" % (" ".join(fn.text(i).split())[:70], tys),
                       key="bitmask|%s|%d" % (fn.name.split("::")[-1], n))
    chk.floor(R + ":calls", n, 2)


def run_gather_mask(chk):
    R = "R-GATHER-MASK-WRITTEN"
    chk.rule(R, "x86 query_rw_info contains a statement that marks the extra ({k}) register as written, and it is executed exactly under a test "
                "that the memory operand's index register is a vector register: AVX-512 gathers and scatters clear their mask")
    from .must import Must
    unit = "asmjit/x86/x86instapi.cpp"
    f = chk.facts(unit, funcs=r"asmjit::x86::InstInternal::query_rw_info$|asmjit::x86::InstInternal::rw_handle_avx512$|asmjit::x86::rw_handle_avx512$")
    found = []
    for fn in cfg.load_functions(f):
        def edge_fx(b, si, atom, holds, fn=fn):
            t = fn.text(atom)
            if holds and "index_type" in t and ("kVec" in t or "is_vec" in t):
                return [("vec-index",)]
            x = fn.e(atom)
            if x and x["k"] == "mcall" and x.get("cn") in ("has_vec_index", "is_vm") and holds:
                return [("vec-index",)]
            return ()
        m = None
        for i, x in fn.calls(lambda x: x.get("cn") == "add_op_flags" and x.get("obj") and "_extra_reg" in fn.text(x["obj"])):
            a = fn.e(fn.strip(x["args"][0])) if x.get("args") else None
            t = fn.text(x["args"][0]) if x.get("args") else ""
            if not ("kWrite" in t or "kRW" in t or "kX" == t.strip()):
                continue
            if m is None:
                m = Must(fn, None, edge_fx)
            ok = ("vec-index",) in (m.before(i) or frozenset())
            if not ok:
                # the test may be one conjunct of the enclosing if-condition (clang merges the false edges of a nested `&&` chain)
                par = fn.parent_map()
                p = par.get(i)
                hops = 0
                while p is not None and hops < 40 and not ok:
                    px = fn.e(p)
                    if px and px["k"] == "s:IfStmt" and px.get("cond"):
                        conj, stack = [], [px["cond"]]
                        while stack:
                            c = stack.pop()
                            cx = fn.e(c)
                            while cx and cx["k"] in ("paren", "cast"):
                                c = cx["sub"]
                                cx = fn.e(c)
                            if cx and cx["k"] == "binop" and cx["op"] == "&&":
                                stack += [cx["lhs"], cx["rhs"]]
                            else:
                                conj.append(c)
                        # only the then-branch counts: the call must not be in the else part
                        in_then = len(px.get("ch", [])) >= 2 and i in set(fn.walk(px["ch"][1]))
                        if in_then and any("index_type" in fn.text(c) and ("kVec" in fn.text(c) or "is_vec" in fn.text(c)) for c in conj):
                            ok = True
                    p = par.get(p)
                    hops += 1
            found.append((fn, i, ok))
    chk.ob(R, "x86|extra-reg-written-for-vector-index", any(ok for _, _, ok in found), loc=unit,
           detail="no statement marks the extra register as written under a vector-index test (%d candidate statements): gathers/scatters would "
                  "report their mask as preserved" % len(found), key="gathermask|x86")
    for fn, i, ok in found:
        chk.ob(R, "x86|write-only-under-vector-index@%d" % fn.line_of(i) if False else "x86|write-flag-site#%d" % (found.index((fn, i, ok)) + 1), ok, loc=fn.loc(i),
               detail="the extra register is marked written on a path that did not test for a vector index: ordinary {k}-masked instructions do not write their mask",
               key="gathermask|x86|site")
