"""R-RW-AVX512-EXITS (C12): within one category case of x86 query_rw_info either every success exit goes through
rw_handle_avx512() (which adds the {k} read and, under merge masking, the destination read) or none does."""
from . import cfg
from .regions import Regions


def run(chk):
    R = "R-RW-AVX512-EXITS"
    chk.rule(R, "x86 query_rw_info: in a category case where one success exit returns through rw_handle_avx512(), every success exit does - the "
                "{k} register and the merge-masked destination are reported as read for every operand form of an AVX-512 capable category")
    unit = "asmjit/x86/x86instapi.cpp"
    f = chk.facts(unit, funcs=r"asmjit::x86::InstInternal::query_rw_info$")
    fn = cfg.find_fn(f, "query_rw_info")
    reg = Regions(fn, case_prefix="kCategory")
    chk.need(reg.dispatch is not None, "category switch not found in query_rw_info")
    groups = {}
    for b, idx, r in fn.return_sites():
        x = fn.e(r)
        v = fn.e(fn.strip(x["val"])) if x.get("val") else None
        if v is None:
            continue
        kind = None
        if v["k"] in ("call", "mcall") and v.get("cn") == "rw_handle_avx512":
            kind = "avx512"
        elif v.get("cvn") == "kOk":
            kind = "plain"
        if kind is None:
            continue
        region = tuple(sorted(reg.group_of_line(x["l"])))
        if not region or not region[0].startswith("case:"):
            continue
        groups.setdefault(region, []).append((r, kind))
    n = 0
    for region, rets in sorted(groups.items()):
        kinds = {k for _, k in rets}
        if "avx512" not in kinds:
            continue
        n += 1
        plain = [r for r, k in rets if k == "plain"]
        chk.ob(R, "|".join(x[5:] for x in region), not plain, loc=fn.loc(plain[0]) if plain else "%s:%d" % (unit, fn.line),
               detail="category %s: %d exits go through rw_handle_avx512() but the exit at line %s returns kOk directly: a {k}-masked form of "
                      "these instructions does not report the mask and the merged destination as read" % (
                          ", ".join(x[5:] for x in region), len(rets) - len(plain), ", ".join(str(fn.line_of(r)) for r in plain[:4])),
               key="rwexits|%s" % "|".join(x[5:] for x in region))
    chk.floor(R + ":categories", n, 3)


def run_bitmask(chk):
    R = "R-BITMASK-HOMOGENEOUS"
    chk.rule(R, "every multi-argument Support::bit_mask<>() call in the instruction-API units builds its mask from enumerators of one enum type "
                "(type-resolved): a mask that mixes RegType with RegGroup (or any two enums) tests bits that mean something else")
    n = 0
    for unit, rex in (("asmjit/x86/x86instapi.cpp", r"asmjit::x86::InstInternal::[A-Za-z_0-9]+$|asmjit::x86::InstInternal_[A-Za-z_0-9]+$"),
                      ("asmjit/arm/a64instapi.cpp", r"asmjit::a64::InstInternal::[A-Za-z_0-9]+$")):
        f = chk.facts(unit, funcs=rex)
        for fn in cfg.load_functions(f):
            for i, x in fn.calls(lambda x: (x.get("cn") or "") == "bit_mask" and len(x.get("args", [])) >= 2):
                tys = sorted({(fn.e(a) or {}).get("ty") or "?" for a in x["args"]})
                n += 1
                chk.ob(R, "%s|%s" % (fn.name.split("::")[-1], " ".join(fn.text(i).split())[:50]), len(tys) == 1, loc=fn.loc(i),
                       detail="`%s` combines values of different types %s in one bit mask" % (" ".join(fn.text(i).split())[:70], tys),
                       key="bitmask|%s|%d" % (fn.name.split("::")[-1], n))
    chk.floor(R + ":calls", n, 2)
