"""R-ERROR-REPORTED (C14): an emitter's interface function that fails tells the attached error handler.

For the BaseEmitter virtuals overridden by BaseAssembler / BaseBuilder / BaseCompiler (construction/attachment handlers
excluded): every returned value that is not the constant kOk originates from report_error() / log_instruction_failed(), or is
propagated from a callee all of whose error returns do (fix point over the functions of the four units).  The one
exemption is a raw Error::kNotInitialized: without a CodeHolder there is no inherited handler to tell."""
from . import cfg

UNITS = [("asmjit/core/builder.cpp", "BaseBuilder"), ("asmjit/core/assembler.cpp", "BaseAssembler"),
         ("asmjit/core/compiler.cpp", "BaseCompiler"), ("asmjit/core/emitter.cpp", "BaseEmitter"), ("asmjit/core/codewriter.cpp", "CodeWriter")]
SKIP = ("on_attach", "on_detach", "on_reinit", "on_emitter_destroyed", "finalize")


def run(chk):
    R = "R-ERROR-REPORTED"
    chk.rule(R, "every failing return of a BaseEmitter interface function overridden by BaseAssembler / BaseBuilder / BaseCompiler passes through "
                "report_error() (directly or through a callee that always does): the attached error handler sees every rejected input; a raw "
                "kNotInitialized is exempt (no CodeHolder, no inherited handler)")
    allf, recs = {}, {}
    for u, c in UNITS:
        f = chk.facts(u, funcs=r"asmjit::[A-Za-z_0-9]+::[A-Za-z_0-9~]+$|asmjit::[A-Za-z_0-9_]+$", records=r"^asmjit::(BaseBuilder|BaseEmitter|BaseAssembler|BaseCompiler)$")
        recs.update(f["records"])
        for fo in f["functions"]:
            fn = cfg.Fn(fo)
            if fn.file.endswith(u.split("/")[-1]) or fn.file.endswith(".h"):
                allf.setdefault(fn.name + "/" + ",".join(p["ty"] for p in fn.params), fn)

    # overrides that live in the architecture back ends (BaseAssembler itself has no align())
    for u in ("asmjit/x86/x86assembler.cpp", "asmjit/arm/a64assembler.cpp"):
        f = chk.facts(u, funcs=r"asmjit::(x86|a64)::Assembler::align$")
        for fo in f["functions"]:
            fn = cfg.Fn(fo)
            allf.setdefault(fn.name + "/" + ",".join(p["ty"] for p in fn.params), fn)

    def classify(fn):
        out = []
        inits, assigns = {}, {}
        for i, x in fn.ex.items():
            if x["k"] == "decl":
                for v in x["vars"]:
                    if v.get("init"):
                        inits[v["did"]] = v["init"]
            elif x["k"] == "binop" and x["op"] == "=":
                l = fn.e(fn.strip(x["lhs"]))
                if l and l["k"] == "ref" and "did" in l:
                    assigns.setdefault(l["did"], []).append(x["rhs"])

        def origin(e, depth=0):
            v = fn.e(fn.strip(e))
            if v is None:
                return [("unknown", None)]
            if v.get("cvn") == "kOk":
                return [("ok", None)]
            if v["k"] in ("call", "mcall"):
                if v.get("cn") in ("report_error", "log_instruction_failed"):
                    return [("report", None)]
                if v.get("cn") == "make_error":
                    return [("raw", " ".join(fn.text(e).split())[:44])]
                return [("callee", v.get("callee"))]
            if v["k"] == "ref" and "did" in v and depth < 3:
                srcs = ([inits[v["did"]]] if v["did"] in inits else []) + assigns.get(v["did"], [])
                r = []
                for s in srcs:
                    r += origin(s, depth + 1)
                return r or [("unknown", None)]
            return [("unknown", " ".join(fn.text(e).split())[:30])]
        for b, idx, r in fn.return_sites():
            x = fn.e(r)
            if x.get("val"):
                for k, c in origin(x["val"]):
                    out.append((r, k, c))
        return out
    cls = {k: classify(fn) for k, fn in allf.items() if "Error" in (fn.raw.get("ret") or "")}
    byname = {}
    for k in cls:
        byname.setdefault(k.split("/")[0], []).append(k)

    def resolve(c, owner):
        """callee name -> keys; a virtual call resolved to BaseEmitter::x is the owner class's own override when it has one"""
        if c is None:
            return []
        if c.startswith("asmjit::BaseEmitter::") and owner:
            alt = "asmjit::%s::%s" % (owner, c.split("::")[-1])
            if alt in byname:
                return byname[alt]
            if owner == "BaseAssembler":
                ks = [k for n_, kk in byname.items() if n_.endswith("::Assembler::" + c.split("::")[-1]) for k in kk]
                if ks:
                    return ks
        return byname.get(c, [])
    owner_of = {k: (k.split("/")[0].split("::")[1] if k.count("::") >= 2 else None) for k in cls}
    reporting = {k: True for k in cls}

    def fine(k, kind, c):
        if kind in ("ok", "report"):
            return True
        if kind == "raw" and "kNotInitialized" in (c or ""):
            return True
        if kind == "callee":
            ks = resolve(c, owner_of[k])
            return bool(ks) and all(reporting[kk] for kk in ks)
        return False
    changed = True
    while changed:
        changed = False
        for k, rets in cls.items():
            ok = all(fine(k, kind, c) for _, kind, c in rets)
            if reporting[k] != ok:
                reporting[k] = ok
                changed = True
    n = 0
    for cname in ("BaseBuilder", "BaseAssembler", "BaseCompiler"):
        rec = recs.get("asmjit::" + cname)
        chk.need(rec is not None, "class %s not found" % cname)
        ov = sorted({m["name"] for m in rec["methods"] if m["virtual"] and any("BaseEmitter::" in o for o in m["overrides"])})
        for name in ov:
            if name in SKIP or name.startswith("~"):
                continue
            for k in byname.get("asmjit::%s::%s" % (cname, name), []):
                fn = allf[k]
                bad = [(r, kind, c) for r, kind, c in cls[k] if not fine(k, kind, c)]
                n += 1
                chk.ob(R, "%s::%s" % (cname, name), not bad, loc=fn.loc(bad[0][0]) if bad else "%s:%d" % (fn.file.replace("/repo/", ""), fn.line),
                       detail="%s::%s returns an error that never went through report_error(): %s" % (
                           cname, name, "; ".join("line %d %s %s" % (fn.line_of(r), kind, (c or "").replace("asmjit::", "")) for r, kind, c in bad[:3])),
                       key="errreport|%s::%s" % (cname, name))
    chk.floor(R + ":interface-functions", n, 20)
