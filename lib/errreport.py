"""R-ERROR-REPORTED (C14): an emitter's interface function that fails tells the attached error handler.

For the BaseEmitter virtuals overridden by BaseAssembler / BaseBuilder / BaseCompiler (construction/attachment handlers
excluded): every returned value that is not the constant kOk originates from report_error() / log_instruction_failed(), or is
propagated from a callee all of whose error returns do (fix point over the functions of the four units).  The one
exemption is a raw Error::kNotInitialized: without a CodeHolder there is no inherited handler to tell."""
from . import cfg

UNITS = [("asmjit/core/builder.cpp", "BaseBuilder"), ("asmjit/core/assembler.cpp", "BaseAssembler"),
         ("asmjit/core/compiler.cpp", "BaseCompiler"), ("asmjit/core/emitter.cpp", "BaseEmitter"), ("asmjit/core/codewriter.cpp", "CodeWriter")]
SKIP = ("on_attach", "on_detach", "on_reinit", "on_emitter_destroyed", "finalize")


def run(chk):
    R = "R-ERROR-REPORTED"
    chk.rule(R, "every failing return of a BaseEmitter interface function overridden by BaseAssembler / BaseBuilder / BaseCompiler passes through "
                "report_error() (directly or through a callee that always does): the attached error handler sees every rejected input; a raw "
                "kNotInitialized is exempt (no CodeHolder, no inherited handler)")
    allf, recs = {}, {}
    for u, c in UNITS:
        f = chk.facts(u, funcs=r"asmjit::[A-Za-z_0-9]+::[A-Za-z_0-9~]+$|asmjit::[A-Za-z_0-9_]+$", records=r"^asmjit::(BaseBuilder|BaseEmitter|BaseAssembler|BaseCompiler)$")
        recs.update(f["records"])
        for fo in f["functions"]:
            fn = cfg.Fn(fo)
            if fn.file.endswith(u.split("/")[-1]) or fn.file.endswith(".h"):
                allf.setdefault(fn.name + "/" + ",".join(p["ty"] for p in fn.params), fn)

    # overrides that live in the architecture back ends (BaseAssembler itself has no align())
    for u in ("asmjit/x86/x86assembler.cpp", "asmjit/arm/a64assembler.cpp"):
        f = chk.facts(u, funcs=r"asmjit::(x86|a64)::Assembler::align$")
        for fo in f["functions"]:
            fn = cfg.Fn(fo)
            allf.setdefault(fn.name + "/" + ",".join(p["ty"] for p in fn.params), fn)

    def classify(fn):
        out = []
        inits, assigns = {}, {}
        for i, x in fn.ex.items():
            if x["k"] == "decl":
                for v in x["vars"]:
                    if v.get("init"):
                        inits[v["did"]] = v["init"]
            elif x["k"] == "binop" and x["op"] == "=":
                l = fn.e(fn.strip(x["lhs"]))
                if l and l["k"] == "ref" and "did" in l:
                    assigns.setdefault(l["did"], []).append(x["rhs"])

        def origin(e, depth=0):
            v = fn.e(fn.strip(e))
            if v is None:
                return [("unknown", None)]
            if v.get("cvn") == "kOk":
                return [("ok", None)]
            if v["k"] in ("call", "mcall"):
                if v.get("cn") in ("report_error", "log_instruction_failed"):
                    return [("report", None)]
                if v.get("cn") == "make_error":
                    return [("raw", " ".join(fn.text(e).split())[:44])]
                return [("callee", v.get("callee"))]
            if v["k"] == "ref" and "did" in v and depth < 3:
                srcs = ([inits[v["did"]]] if v["did"] in inits else []) + assigns.get(v["did"], [])
                r = []
                for s in srcs:
                    r += origin(s, depth + 1)
                return r or [("unknown", None)]
            return [("unknown", " ".join(fn.text(e).split())[:30])]
        # flow-sensitive view of Error locals: which definition reaches the return on each path, and is the local known to be kOk there
        defs = {}           # element id -> (did, rhs expr)
        for i, x in fn.ex.items():
            if x["k"] == "decl":
                for v in x["vars"]:
                    if v.get("init") and "Error" in v.get("ty", ""):
                        defs[i] = (v["did"], v["init"])
            elif x["k"] == "binop" and x["op"] == "=":
                l = fn.e(fn.strip(x["lhs"]))
                if l and l["k"] == "ref" and "did" in l and "Error" in l.get("ty", ""):
                    defs[i] = (l["did"], x["rhs"])
        rel = None
        if defs:
            from .relational import Relational

            def elem_fx(eid, x, facts):
                if eid in defs:
                    d = defs[eid][0]
                    return ([("src", d, eid)], [f for f in facts if f[0] in ("src", "ok") and f[1] == d])
                return None

            def edge_fx(b, si, atom, holds, facts):
                a = fn.e(atom)
                if a and a["k"] == "binop" and a["op"] in ("==", "!="):
                    p, q = fn.e(fn.strip(a["lhs"])), fn.e(fn.strip(a["rhs"]))
                    for u, w in ((p, q), (q, p)):
                        if u and u["k"] == "ref" and "Error" in u.get("ty", "") and w is not None and w.get("cvn") == "kOk" and (a["op"] == "==") == holds:
                            return [("ok", u.get("did"))]
                return ()
            rel = Relational(fn, elem_fx, edge_fx)
        for b, idx, r in fn.return_sites():
            x = fn.e(r)
            if not x.get("val"):
                continue
            v = fn.e(fn.strip(x["val"]))
            if rel is not None and v is not None and v["k"] == "ref" and v.get("did") in {d for d, _ in defs.values()}:
                states = rel.before(r)
                if states is not None:
                    seen_src = set()
                    unknown = False
                    for facts, flags in states:
                        if ("ok", v["did"]) in facts:
                            continue
                        srcs = [f[2] for f in facts if f[0] == "src" and f[1] == v["did"]]
                        if not srcs:
                            unknown = True
                        seen_src.update(srcs)
                    for e in sorted(seen_src):
                        for k, c in origin(defs[e][1]):
                            out.append((r, k, c))
                    if unknown:
                        out.append((r, "unknown", None))
                    continue
            for k, c in origin(x["val"]):
                out.append((r, k, c))
        return out
    cls = {k: classify(fn) for k, fn in allf.items() if "Error" in (fn.raw.get("ret") or "")}
    byname = {}
    for k in cls:
        byname.setdefault(k.split("/")[0], []).append(k)

    def resolve(c, owner):
        """callee name -> keys; a virtual call resolved to BaseEmitter::x is the owner class's own override when it has one"""
        if c is None:
            return []
        if c.startswith("asmjit::BaseEmitter::") and owner:
            alt = "asmjit::%s::%s" % (owner, c.split("::")[-1])
            if alt in byname:
                return byname[alt]
            if owner == "BaseAssembler":
                ks = [k for n_, kk in byname.items() if n_.endswith("::Assembler::" + c.split("::")[-1]) for k in kk]
                if ks:
                    return ks
        if c.startswith("asmjit::BaseEmitter::") and not owner:
            # a virtual call on some emitter from a free helper: every override that is defined must report
            meth = c.split("::")[-1]
            ov_ = [k for n_, kk in byname.items() if n_.endswith("::" + meth) and n_ != c for k in kk]
            if ov_:
                return ov_
        return byname.get(c, [])
    owner_of = {k: (k.split("/")[0].split("::")[1] if k.split("/")[0].count("::") >= 2 else None) for k in cls}
    reporting = {k: True for k in cls}

    def fine(k, kind, c):
        if kind in ("ok", "report"):
            return True
        if kind == "raw" and "kNotInitialized" in (c or ""):
            return True
        if kind == "callee":
            ks = resolve(c, owner_of[k])
            return bool(ks) and all(reporting[kk] for kk in ks)
        return False
    changed = True
    while changed:
        changed = False
        for k, rets in cls.items():
            ok = all(fine(k, kind, c) for _, kind, c in rets)
            if reporting[k] != ok:
                reporting[k] = ok
                changed = True
    n = 0
    for cname in ("BaseBuilder", "BaseAssembler", "BaseCompiler"):
        rec = recs.get("asmjit::" + cname)
        chk.need(rec is not None, "class %s not found" % cname)
        ov = sorted({m["name"] for m in rec["methods"] if m["virtual"] and any("BaseEmitter::" in o for o in m["overrides"])})
        for name in ov:
            if name in SKIP or name.startswith("~"):
                continue
            for k in byname.get("asmjit::%s::%s" % (cname, name), []):
                fn = allf[k]
                bad = [(r, kind, c) for r, kind, c in cls[k] if not fine(k, kind, c)]
                n += 1
                chk.ob(R, "%s::%s" % (cname, name), not bad, loc=fn.loc(bad[0][0]) if bad else "%s:%d" % (fn.file.replace("/repo/", ""), fn.line),
                       detail="%s::%s returns an error that never went through report_error(): %s" % (
                           cname, name, "; ".join("line %d %s %s" % (fn.line_of(r), kind, (c or "").replace("asmjit::", "")) for r, kind, c in bad[:3])),
                       key="errreport|%s::%s" % (cname, name))
    chk.floor(R + ":interface-functions", n, 20)
    # the Builder / Compiler API proper (node creators, function management, stack and constant helpers): every member function defined in
    # the unit that returns Error and may throw (a `noexcept` function cannot call the handler, which is allowed to throw)
    n_api = 0
    done = set()
    for cname in ("BaseBuilder", "BaseCompiler"):
        for k, fn in sorted(allf.items()):
            nm = k.split("/")[0]
            if not nm.startswith("asmjit::%s::" % cname) or k not in cls or not fn.file.endswith(".cpp"):
                continue
            short_ = nm.split("::")[-1]
            if short_ in SKIP or fn.raw.get("noexcept") or ("%s::%s" % (cname, short_)) in done and False:
                continue
            if any(k2 == k for k2 in byname.get("asmjit::%s::%s" % (cname, short_), [])) and short_ in {m["name"] for m in (recs.get("asmjit::" + cname) or {}).get("methods", []) if m["virtual"] and any("BaseEmitter::" in o for o in m["overrides"])}:
                continue            # already judged above
            bad = [(r, kind, c) for r, kind, c in cls[k] if not fine(k, kind, c)]
            n_api += 1
            chk.ob(R, "%s::%s/%d" % (cname, short_, len(fn.params)), not bad, loc=fn.loc(bad[0][0]) if bad else "%s:%d" % (fn.file.replace("/repo/", ""), fn.line),
                   detail="%s::%s returns an error that never went through report_error(): %s" % (
                       cname, short_, "; ".join("line %d %s %s" % (fn.line_of(r), kind, (c or "").replace("asmjit::", "")) for r, kind, c in bad[:3])),
                   key="errreport|%s::%s" % (cname, short_))
    chk.floor(R + ":api-functions", n_api, 20)

    # ---------------------------------------------------------------- one-shot state is cleared before the handler runs
    R2 = "R-RESET-BEFORE-REPORT"
    chk.rule(R2, "in the emitter interface functions no one-shot state reset (reset_inline_comment / reset_state / reset_extra_reg / "
                 "reset_inst_options) is executed on a path after report_error() was called: the handler may throw, and then the reset would "
                 "be skipped and the stale comment / options leak into the next instruction")
    from .cfg import forward
    RESETS = ("reset_inline_comment", "reset_state", "reset_extra_reg", "reset_inst_options")
    n2 = 0
    for k, fn in sorted(allf.items()):
        resets = [i for i, x in fn.calls(lambda x: x.get("cn") in RESETS)]
        reports = {i for i, x in fn.calls(lambda x: x.get("cn") == "report_error")}
        if not resets or not reports:
            continue

        def transfer(b, st, fn=fn, reports=reports):
            for el in fn.blocks[b]["elems"]:
                if isinstance(el, int) and el in reports:
                    st = el
            return st
        IN, OUT = forward(fn, 0, transfer, lambda ss: max(ss))
        pos = fn.block_of()
        for r in resets:
            if r not in pos:
                continue
            b, idx = pos[r]
            st = IN.get(b, 0)
            for el in fn.blocks[b]["elems"][:idx]:
                if isinstance(el, int) and el in reports:
                    st = el
            n2 += 1
            chk.ob(R2, "%s|%s" % (fn.name.replace("asmjit::", ""), fn.e(r)["cn"]), not st, loc=fn.loc(r),
                   detail="%s() runs after report_error() (line %d) on some path: a throwing error handler skips it" % (fn.e(r)["cn"], fn.line_of(st) if st else 0),
                   key="resetbeforereport|%s" % fn.name.replace("asmjit::", ""))
    chk.floor(R2 + ":reset-sites", n2, 3)

    # ---------------------------------------------------------------- a label is validated before the first commit of a multi-step function
    R3 = "R-LABEL-VALID-BEFORE-COMMIT"
    chk.rule(R3, "an emitter interface function that first commits something (align / embed / add_node) and later binds a label parameter has "
                 "established is_label_valid(<that label>) on every path before the first commit: an invalid label fails the call before "
                 "anything was appended")
    from .must import Must
    COMMITS = ("align", "embed", "embed_data_array", "add_node", "emit_zeros", "done")
    n3 = 0
    for k, fn in sorted(allf.items()):
        binds = [(i, x) for i, x in fn.calls(lambda x: x.get("cn") == "bind" and x.get("args"))]
        commits = [i for i, x in fn.calls(lambda x: x.get("cn") in COMMITS)]
        if not binds or not commits:
            continue

        def edge_fx(b, si, atom, holds, fn=fn):
            a = fn.e(atom)
            if a and a["k"] in ("mcall", "call") and a.get("cn") == "is_label_valid" and holds and a.get("args"):
                r0 = fn.root_ref(a["args"][0])
                rx = fn.e(r0) if r0 else None
                if rx and "did" in rx:
                    return [("valid", rx["did"])]
            return ()

        def elem_fx(eid, x, commits=commits):
            if eid in commits:
                return ((("committed",),), ())
            return None
        m = Must(fn, elem_fx, edge_fx)
        # may-committed: reachable from a commit
        pos = fn.block_of()
        for i, x in binds:
            r0 = fn.root_ref(x["args"][0])
            rx = fn.e(r0) if r0 else None
            if not rx or rx.get("dk") != "parm" or i not in pos:
                continue
            after_commit = any(c in pos and (pos[i][0] in fn.reachable_from(pos[c][0]) or (pos[c][0] == pos[i][0] and pos[c][1] < pos[i][1])) for c in commits)
            if not after_commit:
                continue
            n3 += 1
            st = m.before(i) or frozenset()
            chk.ob(R3, "%s|bind(%s)" % (fn.name.replace("asmjit::", ""), rx.get("name")), ("valid", rx["did"]) in st, loc=fn.loc(i),
                   detail="bind(%s) can fail with kInvalidLabel after something was already committed (align/embed), and is_label_valid(%s) was not "
                          "established on every path before: a rejected call is no longer free of side effects" % (rx.get("name"), rx.get("name")),
                   key="labelbeforecommit|%s" % fn.name.replace("asmjit::", ""))
    chk.floor(R3 + ":sites", n3, 2)


def run_code_guard(chk):
    """C14.e: an emitter interface function touches the CodeHolder only after it has tested that one is attached"""
    from .must import Must
    R = "R-CODE-GUARD"
    chk.rule(R, "BaseAssembler / BaseBuilder interface functions: every use of the attached CodeHolder (`_code->...`, CodeWriter::ensure_space, "
                "label_entry_of, new_fixup ...) is reached only on the edge where `_code` was tested non-null (or the kAttached flag was tested): "
                "calling an emitter that is not attached returns kNotInitialized instead of dereferencing null")
    n = 0
    for unit, cname in (("asmjit/core/assembler.cpp", "BaseAssembler"), ("asmjit/core/builder.cpp", "BaseBuilder")):
        f = chk.facts(unit, funcs=r"asmjit::%s::[A-Za-z_0-9]+$" % cname, records=r"^asmjit::(%s|BaseEmitter)$" % cname)
        rec = f["records"].get("asmjit::" + cname)
        chk.need(rec is not None, "class %s not found" % cname)
        ov = {m["name"] for m in rec["methods"] if m["virtual"] and any("BaseEmitter::" in o for o in m["overrides"])}
        for fn in cfg.load_functions(f):
            short = fn.name.split("::")[-1]
            if short not in ov or short in SKIP or short.startswith("~"):
                continue

            def edge_fx(b, si, atom, holds, fn=fn):
                x = fn.e(atom)
                t = fn.text(atom).replace("this->", "").strip()
                if x and x["k"] in ("ref", "member", "cast") and t == "_code" and holds:
                    return [("attached",)]
                if x and x["k"] == "unop" and x["op"] == "!" and fn.text(x["sub"]).replace("this->", "").strip() == "_code" and not holds:
                    return [("attached",)]
                if x and x["k"] == "mcall" and x.get("cn") == "has_emitter_flag" and "kAttached" in t and holds:
                    return [("attached",)]
                if x and x["k"] == "binop" and x["op"] in ("==", "!=") and "_code" in t and ("nullptr" in t or "NULL" in t):
                    if (x["op"] == "!=") == holds:
                        return [("attached",)]
                return ()
            uses = []
            for i, x in fn.ex.items():
                if x["k"] == "member" and x.get("arrow") is not False:
                    b = fn.e(fn.strip(x["base"])) if x.get("base") else None
                    if b and b["k"] == "member" and b.get("field") == "_code" and fn.e(fn.strip(b["base"])) and fn.e(fn.strip(b["base"]))["k"] == "this":
                        uses.append(i)
                elif x["k"] == "mcall" and x.get("cn") in ("ensure_space",):
                    uses.append(i)
            if not uses:
                continue
            m = Must(fn, None, edge_fx)
            bad = [i for i in uses if ("attached",) not in (m.before(i) or frozenset())]
            # uses in the same block as the test's own evaluation (e.g. `_code && _code->x`) are covered by the edge facts above
            n += 1
            chk.ob(R, "%s::%s" % (cname, short), not bad, loc=fn.loc(bad[0]) if bad else "%s:%d" % (unit, fn.line),
                   detail="%s::%s uses the CodeHolder at line %s without having tested `_code` on that path (its siblings return kNotInitialized)" % (
                       cname, short, ", ".join(sorted({str(fn.line_of(i)) for i in bad}))[:60]),
                   key="codeguard|%s::%s" % (cname, short))
    chk.floor(R + ":functions", n, 8)


def run_dispatchers(chk):
    """C14: the non-virtual BaseEmitter dispatchers that forward to the virtual _emit() either forward or fail like _emit() does"""
    from .must import Must
    R = "R-DISPATCH-FAILS-CLEAN"
    chk.rule(R, "a BaseEmitter member function that forwards to the virtual _emit() (emit_op_array / _emitI ...) returns on every path either "
                "the result of that _emit() call or an error that went through report_error() after reset_state(): a refusal by the dispatcher "
                "itself is reported and clears the one-shot instruction state exactly like a refusal by the emitter")
    f = chk.facts("asmjit/core/emitter.cpp", funcs=r"asmjit::BaseEmitter::[A-Za-z_0-9]+$")
    n = nfn = 0
    for fn in cfg.load_functions(f):
        if not fn.file.endswith("emitter.cpp"):
            continue
        fwd = {i for i, x in fn.calls(lambda x: x.get("cn") == "_emit" and (x.get("callee") or "").startswith("asmjit::BaseEmitter::_emit"))}
        if not fwd or fn.name.endswith("::_emit"):
            continue
        nfn += 1

        def elem(eid, x):
            if x["k"] in ("mcall", "call") and x.get("cn") == "reset_state":
                return ((("reset",),), ())
            return None
        m = Must(fn, elem, None)
        short = fn.name.replace("asmjit::", "")
        for b, idx, r in fn.return_sites():
            val = fn.e(r).get("val")
            v = fn.e(fn.strip(val)) if val is not None else None
            ok = False
            why = "returns `%s`" % " ".join(fn.text(r).split())[:50]
            if v is not None and fn.strip(val) in fwd:
                ok = True
            elif v is not None and v["k"] in ("mcall", "call") and v.get("cn") == "report_error":
                ok = ("reset",) in (m.before(r) or frozenset())
                why += " without reset_state() before it"
            n += 1
            chk.ob(R, "%s/%d|return@%d" % (short, len(fn.params), fn.line_of(r) - fn.line), ok, loc=fn.loc(r),
                   detail="%s %s: the error handler is not told and / or the pending options, extra register and inline comment stay armed for the "
                          "next instruction" % (short, why), key="dispatch|%s" % short)
    chk.floor(R + ":functions", nfn, 8)
    chk.floor(R + ":returns", n, 14)


import re as _re
ALLOC_ONLY = _re.compile(r"^(new_node|new_node_t|new_node_with_size_t|alloc|alloc_oneshot|reserve|reserve_additional|resize|resize_grow|grow|append|dup)")
LABEL_CREATORS = ("new_label_node", "register_label_node", "new_label", "new_named_label", "new_anonymous_label", "new_label_id",
                  "new_named_label_id", "new_label_entry", "new_named_label_entry")


def run_label_after_validation(chk):
    """C14 "a failed call creates no labels": in the Builder / Compiler API a label is registered only after the arguments were validated"""
    from .cfg import forward
    R = "R-NO-LABEL-BEFORE-VALIDATION"
    chk.rule(R, "in the BaseBuilder / BaseCompiler API functions no path registers a label in the CodeHolder (new_label_node / "
                "register_label_node / new_label ...) and afterwards returns `report_error(<a status obtained from validating the "
                "arguments>)`: everything that can refuse the arguments runs before the first registration, so a refused call leaves no "
                "label behind (running out of memory after the registration - report_error(make_error(kOutOfMemory)) or a propagated "
                "allocation failure - is not an argument error and is exempt)")
    n = nfn = 0
    for u, c in (("asmjit/core/builder.cpp", "BaseBuilder"), ("asmjit/core/compiler.cpp", "BaseCompiler")):
        f = chk.facts(u, funcs=r"asmjit::%s::[A-Za-z_0-9]+$" % c)
        for fn in cfg.load_functions(f):
            if not fn.file.endswith(u.split("/")[-1]) or "Error" not in (fn.raw.get("ret") or ""):
                continue
            creators = {i for i, x in fn.calls(lambda x: x.get("cn") in LABEL_CREATORS)}
            if not creators:
                continue
            nfn += 1

            # definitions of Error locals: element id -> (did, rhs)
            defs = {}
            for i, x in fn.ex.items():
                if x["k"] == "decl":
                    for v_ in x["vars"]:
                        if v_.get("init") and "Error" in v_.get("ty", ""):
                            defs[i] = (v_["did"], v_["init"])
                elif x["k"] == "binop" and x["op"] == "=":
                    l = fn.e(fn.strip(x["lhs"]))
                    if l and l["k"] == "ref" and "did" in l and "Error" in l.get("ty", ""):
                        defs[i] = (l["did"], x["rhs"])
            parms = {p_["did"] for p_ in fn.params if p_["name"] != "out"}

            def step(el, st, fn=fn, creators=creators, defs=defs):
                cr, ds = st
                if el in creators:
                    cr = max(cr, el)
                if el in defs:
                    d = defs[el][0]
                    ds = frozenset(t for t in ds if t[0] != d) | {(d, el)}
                return (cr, ds)

            def transfer(b, st, fn=fn):
                for el in fn.blocks[b]["elems"]:
                    if isinstance(el, int):
                        st = step(el, st)
                return st
            IN, OUT = forward(fn, (0, frozenset()), transfer, lambda ss: (max(s_[0] for s_ in ss), frozenset().union(*[s_[1] for s_ in ss])))
            for b, idx, r in fn.return_sites():
                val = fn.e(r).get("val")
                v = fn.e(fn.strip(val)) if val is not None else None
                if v is None:
                    continue
                if v["k"] in ("mcall", "call") and v.get("cn") == "report_error" and v.get("args"):
                    a = fn.e(fn.strip(v["args"][0]))
                elif v["k"] == "ref" and v.get("did") in {d_ for d_, _ in defs.values()}:
                    a = v               # `return err;` - the propagated status of a call (ASMJIT_PROPAGATE)
                else:
                    continue
                if a is not None and a["k"] in ("call", "mcall") and a.get("cn") == "make_error" and "kOutOfMemory" in fn.text(val):
                    continue
                st = IN.get(b, (0, frozenset()))
                for el in fn.blocks[b]["elems"][:idx]:
                    if isinstance(el, int):
                        st = step(el, st)
                st, ds = st
                # the refusal judges the *arguments* when the reported status comes from a call that was handed one of the function's
                # parameters (a status of the registering call itself, or of growing a container, is not an argument error)
                validating = False
                if a is not None and a["k"] == "ref" and "did" in a:
                    for d, el in ds:
                        if d != a["did"] or el in creators or fn.strip(defs[el][1]) in creators:
                            continue
                        rhs = defs[el][1]
                        rx_ = fn.e(fn.strip(rhs))
                        if rx_ is not None and rx_["k"] in ("call", "mcall") and ALLOC_ONLY.match(rx_.get("cn") or ""):
                            continue            # creating / growing storage can only run out of memory
                        if v["k"] == "ref" and not (rx_ is not None and rx_["k"] in ("call", "mcall")):
                            continue
                        if any((fn.e(j) or {}).get("k") == "ref" and (fn.e(j) or {}).get("did") in parms for j in fn.walk(rhs)):
                            validating = True
                elif a is not None and a["k"] in ("call", "mcall") and a.get("cn") == "make_error":
                    validating = True
                if not validating:
                    continue
                n += 1
                chk.ob(R, "%s|return@%d" % (fn.name.replace("asmjit::", ""), fn.line_of(r) - fn.line), not st, loc=fn.loc(r),
                       detail="`%s` refuses the call after `%s` (line %d) already registered a label in the CodeHolder: the failed call leaves a "
                              "label (and an orphan node) behind and shifts every later label id" %
                              (" ".join(fn.text(r).split())[:50], " ".join(fn.text(st).split())[:50] if st else "", fn.line_of(st) if st else 0),
                       key="labelbeforevalid|%s" % fn.name.replace("asmjit::", ""))
    chk.floor(R + ":functions", nfn, 2)      # (a refactoring that shares the registration in a helper lowers this legitimately: R9-3)
    chk.floor(R + ":returns", n, 1)
