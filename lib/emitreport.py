"""R-EMIT-REPORTS-AFTER-RESET (C14, C15): an instruction emitter tells the error handler only after the one-shot state was cleared - once.

The error handler may throw or longjmp (errorhandler.h documents it and promises a consistent emitter).  In the architecture `_emit()`
functions every failure leaves through `Failed:` -> EmitterUtils::log_instruction_failed(), which resets the one-shot state first and
then reports.  A helper that reports by itself (CodeWriter::ensure_space) called from `_emit()` tells the handler while the options /
extra register / inline comment of the failed instruction are still armed - a throwing handler leaves them for the next instruction -
and the regular failure path then reports a second time.

Rule: in x86 / a64 Assembler::_emit every call whose callee reports (calls report_error in its body: resolved through the dumped
bodies, inline header functions included) either clears the state itself before it reports (log_instruction_failed) or is reached only
after reset_state() on every path."""
from . import cfg
from .must import Must

UNITS = [("asmjit/x86/x86assembler.cpp", r"x86::Assembler::_emit$"), ("asmjit/arm/a64assembler.cpp", r"a64::Assembler::_emit$")]
RESETS = ("reset_state",)


def run(chk, rule="R-EMIT-REPORTS-AFTER-RESET", floor=4):
    chk.rule(rule, "x86 / a64 Assembler::_emit(): every call of a function that reports an error (report_error in its body, inline helpers of "
                   "CodeWriter and EmitterUtils resolved) is either a callee that resets the one-shot state before it reports, or is reached only "
                   "after reset_state() on every path: the handler is never told about a failed instruction whose options are still armed, and "
                   "never twice")
    n = 0
    for unit, pat in UNITS:
        f = chk.facts(unit, funcs=pat)
        emit = cfg.find_fn(f, pat.split("$")[0].replace("\\", ""))
        fh = chk.facts(unit, funcs=r"asmjit::CodeWriter::[a-z_]+$|asmjit::EmitterUtils::[a-z_]+$|asmjit::BaseEmitter::report_error$")
        callees = {g.name: g for g in cfg.load_functions(fh)}
        fu = chk.facts("asmjit/core/emitterutils.cpp", funcs=r"asmjit::EmitterUtils::[a-z_]+$")
        for g in cfg.load_functions(fu):
            callees.setdefault(g.name, g)

        def reports(g):
            return [i for i, x in g.calls(lambda x: x.get("cn") == "report_error")]

        def resets_first(g):
            def el(eid, x):
                if x["k"] in ("call", "mcall") and x.get("cn") in RESETS:
                    return ((("reset",),), ())
                return None
            mg = Must(g, el, None)
            return all(("reset",) in (mg.before(i) or frozenset()) for i in reports(g))

        def el(eid, x):
            if x["k"] in ("call", "mcall") and x.get("cn") in RESETS:
                return ((("reset",),), ())
            return None
        m = Must(emit, el, None)
        par = emit.parent_map()
        for i, x in sorted(emit.calls(lambda x: x.get("cn") == "report_error" or (x.get("callee") in callees and reports(callees[x["callee"]])))):
            n += 1
            callee = x.get("callee") or x.get("cn")
            if x.get("cn") != "report_error" and resets_first(callees[x["callee"]]):
                chk.ob(rule, "%s|%s@%d" % (emit.name.replace("asmjit::", ""), x.get("cn"), emit.line_of(i)), True, loc=emit.loc(i))
                continue
            st = m.before(i)
            j = i
            while st is None and j in par:
                j = par[j]
                st = m.before(j)
            chk.ob(rule, "%s|%s@%d" % (emit.name.replace("asmjit::", ""), x.get("cn"), emit.line_of(i)), ("reset",) in (st or frozenset()), loc=emit.loc(i),
                   detail="`%s` reports an error by itself while the one-shot state of the instruction is still armed: a handler that throws "
                          "or longjmps leaves the options / {k} / comment for the next instruction, and the failure path reports the same error "
                          "a second time" % " ".join(emit.text(i).split())[:60], key="emitreport|%s|%s" % (emit.name.split("::")[1], x.get("cn")))
    chk.floor(rule + ":reporting-calls", n, floor)
    return n
