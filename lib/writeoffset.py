"""R-WRITE-OFFSET-FAILURE-REPORTED (C03, C17): a displacement that the codec refuses is reported by every caller.

CodeWriterUtils::write_offset() returns false when the value does not fit the field ("a reference that cannot be represented is
reported ... never silently truncated").  Each of its callers in CodeHolder (bind_label, resolve_cross_section_fixups,
relocate_to_base) tests the result; on the edge where it is false the function must not reach a return whose value can still be
kOk: before the return an Error local is assigned a non-kOk status (or the return itself yields make_error(...)).

May-analysis: the state "a refusal is pending" is set on the failing edge of each tested write_offset() call, cleared by an
assignment of a non-kOk status to an Error local (or by returning make_error(...) directly); a return reached with the state set is a
violation."""
from . import cfg
from .cfg import forward
from .must import branch_atoms


def run(chk, unit="asmjit/core/codeholder.cpp", rule="R-WRITE-OFFSET-FAILURE-REPORTED", floor=3):
    chk.rule(rule, "on the edge where CodeWriterUtils::write_offset() returned false, every path to a return of the calling CodeHolder function "
                   "assigns a non-kOk status to an Error local or returns make_error(...): bind_label(), resolve_cross_section_fixups() and "
                   "relocate_to_base() all report a displacement the field cannot hold")
    f = chk.facts(unit, funcs=r"asmjit::CodeHolder::[A-Za-z_0-9]+$")
    n = 0
    for fn in cfg.load_functions(f):
        if not fn.file.endswith(unit.split("/")[-1]):
            continue
        calls = {i for i, x in fn.calls(lambda x: x.get("cn") == "write_offset")}
        if not calls:
            continue
        atoms = branch_atoms(fn)
        short = fn.name.replace("asmjit::", "")
        # blocks whose branch atom is (the negation of) a write_offset call
        tested = {}
        for b, (atom, pol) in atoms.items():
            a = fn.strip(atom)
            if a in calls:
                tested[b] = (a, pol)
        for c in sorted(calls):
            n += 1
            blk = [b for b, (a, _) in tested.items() if a == c]
            if not blk:
                chk.ob(rule, "%s|write_offset@%d" % (short, fn.line_of(c) - fn.line), False, loc=fn.loc(c),
                       detail="the result of write_offset() is not tested", key="writeoffset|%s" % short)
                continue
            b0 = blk[0]
            pol = tested[b0][1]

            def err_assign(x):
                if x["k"] == "binop" and x["op"] == "=":
                    l = fn.e(fn.strip(x["lhs"]))
                    r = fn.e(fn.strip(x["rhs"]))
                    if l is not None and l["k"] == "ref" and "Error" in (l.get("ty") or "") and r is not None and r.get("cvn") != "kOk":
                        return True
                return False

            def transfer(b, st):
                for el in fn.blocks[b]["elems"]:
                    x = fn.e(el) if isinstance(el, int) else None
                    if x is not None and err_assign(x):
                        st = False
                return st

            def edge(p, si, s, st):
                if p == b0:
                    failing = (si == 1) if pol else (si == 0)       # successor 0 = condition true
                    if failing:
                        return True
                return st
            IN, OUT = forward(fn, False, transfer, lambda ss: any(ss), edge=edge)
            bad = None
            for b, idx, r in fn.return_sites():
                st = IN.get(b, False)
                for el in fn.blocks[b]["elems"][:idx]:
                    x = fn.e(el) if isinstance(el, int) else None
                    if x is not None and err_assign(x):
                        st = False
                if not st:
                    continue
                val = fn.e(r).get("val")
                v = fn.e(fn.strip(val)) if val is not None else None
                if v is not None and v["k"] in ("call", "mcall") and v.get("cn") == "make_error":
                    continue
                bad = r
            chk.ob(rule, "%s|write_offset@%d" % (short, fn.line_of(c) - fn.line), bad is None, loc=fn.loc(c),
                   detail="when write_offset() refuses the displacement, %s can reach `%s` (line %s) without having recorded an error: the caller "
                          "is told kOk although a reference was left unpatched (bind_label() reports kInvalidDisplacement in the same situation)" %
                          (short, " ".join(fn.text(bad).split())[:40] if bad is not None else "", fn.line_of(bad) if bad is not None else ""),
                   key="writeoffset|%s" % short)
    chk.floor(rule + ":calls", n, floor)
    return n
