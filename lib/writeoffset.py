"""R-WRITE-OFFSET-FAILURE-REPORTED (C03, C17): a displacement that the codec refuses is reported by every caller.

CodeWriterUtils::write_offset() returns false when the value does not fit the field ("a reference that cannot be represented is
reported ... never silently truncated").  Each of its callers in CodeHolder (bind_label, resolve_cross_section_fixups,
relocate_to_base) tests the result; on the edge where it is false the function must not reach a return whose value can still be
kOk: before the return an Error local is assigned a non-kOk status (or the return itself yields make_error(...)).

May-analysis: the state "a refusal is pending" is set on the failing edge of each tested write_offset() call, cleared by an
assignment of a non-kOk status to an Error local (or by returning make_error(...) directly); a return reached with the state set is a
violation."""
from . import cfg
from .cfg import forward
from .must import branch_atoms


def run(chk, unit="asmjit/core/codeholder.cpp", rule="R-WRITE-OFFSET-FAILURE-REPORTED", floor=3):
    chk.rule(rule, "for every use of CodeWriterUtils::write_offset() in CodeHolder (directly, through a unit-local bool helper that returns its "
                   "result, or through a bool local that holds it): the blocks that are reached only when the result is false contain an "
                   "assignment of a non-kOk status to an Error local or a failing return: bind_label(), resolve_cross_section_fixups() and "
                   "relocate_to_base() all report a displacement the field cannot hold")
    f = chk.facts(unit, funcs=r"asmjit::CodeHolder::[A-Za-z_0-9]+$|asmjit::[A-Za-z_0-9]+$")
    fns = [g for g in cfg.load_functions(f) if g.file.endswith(unit.split("/")[-1])]
    # bool helpers that return the result of write_offset (closure)
    wrappers = set()
    for _ in range(3):
        for g in fns:
            if (g.raw.get("ret") or "") != "bool" or g.name in wrappers:
                continue
            for b, idx, r in g.return_sites():
                v = g.e(g.strip(g.e(r).get("val"))) if g.e(r).get("val") is not None else None
                if v is not None and v["k"] in ("call", "mcall") and (v.get("cn") == "write_offset" or v.get("callee") in wrappers):
                    wrappers.add(g.name)

    def is_wo(x):
        return x is not None and x["k"] in ("call", "mcall") and (x.get("cn") == "write_offset" or x.get("callee") in wrappers)
    n = 0
    for fn in fns:
        if fn.name in wrappers:
            continue
        calls = {i for i, x in fn.ex.items() if is_wo(x)}
        if not calls:
            continue
        atoms = branch_atoms(fn)
        short = fn.name.replace("asmjit::", "")
        # bool locals that hold the result
        carriers = {}
        for i, x in fn.ex.items():
            if x["k"] == "binop" and x["op"] == "=" and fn.strip(x["rhs"]) in calls:
                l = fn.e(fn.strip(x["lhs"]))
                if l is not None and l["k"] == "ref":
                    carriers[l["did"]] = fn.strip(x["rhs"])
            if x["k"] == "decl":
                for v in x["vars"]:
                    if v.get("init") is not None and fn.strip(v["init"]) in calls:
                        carriers[v["did"]] = fn.strip(v["init"])

        def err_event(b):
            for el in fn.blocks[b]["elems"]:
                x = fn.e(el) if isinstance(el, int) else None
                if x is None:
                    continue
                if x["k"] == "binop" and x["op"] == "=":
                    l = fn.e(fn.strip(x["lhs"]))
                    r = fn.e(fn.strip(x["rhs"]))
                    if l is not None and l["k"] == "ref" and "Error" in (l.get("ty") or "") and r is not None and r.get("cvn") != "kOk":
                        return True
                if x["k"] == "return" and x.get("val") is not None:
                    v = fn.e(fn.strip(x["val"]))
                    if v is not None and v["k"] in ("call", "mcall") and v.get("cn") in ("make_error", "report_error"):
                        return True
            return False
        for c in sorted(calls):
            n += 1
            tests = []
            for b, (atom, pol) in atoms.items():
                a = fn.strip(atom)
                ax = fn.e(a)
                if a == c or (ax is not None and ax["k"] == "ref" and carriers.get(ax.get("did")) == c):
                    tests.append((b, pol))
            ok, why = False, "its result is never tested"
            for b, pol in tests:
                succs = fn.blocks[b]["succs"]
                if len(succs) != 2 or None in succs:
                    continue
                t_succ, f_succ = (succs[0], succs[1]) if pol else (succs[1], succs[0])
                only_false = (set(fn.reachable_from(f_succ)) | {f_succ}) - (set(fn.reachable_from(t_succ)) | {t_succ})
                # inside a loop both successors reach everything: cut at the loop back edge by looking at the blocks up to the join
                if not only_false:
                    seen, work = set(), [f_succ]
                    t_reach = set()
                    work_t = [t_succ]
                    while work_t:
                        q = work_t.pop()
                        if q in t_reach or q == b:
                            continue
                        t_reach.add(q)
                        work_t += [s_ for s_ in fn.blocks[q]["succs"] if s_ is not None and s_ != b]
                    while work:
                        q = work.pop()
                        if q in seen or q == b or q in t_reach:
                            continue
                        seen.add(q)
                        work += [s_ for s_ in fn.blocks[q]["succs"] if s_ is not None]
                    only_false = seen
                if any(err_event(q) for q in only_false):
                    ok = True
                else:
                    why = "no path that is taken only when it failed records an error"
            chk.ob(rule, "%s|write_offset@%d" % (short, fn.line_of(c) - fn.line), ok, loc=fn.loc(c),
                   detail="when the displacement is refused, %s: %s - the caller is told kOk although a reference was left unpatched "
                          "(bind_label() reports kInvalidDisplacement in the same situation)" % (short, why), key="writeoffset|%s" % short)
    chk.floor(rule + ":calls", n, floor)
    return n
