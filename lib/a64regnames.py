"""R-A64-SPECIAL-REG-NAME-BY-WIDTH (C20): the zero register and the stack pointer are printed with the width they were given.

AArch64 names id 63 (asmjit: kIdZr) `wzr` / `xzr` and id 31 `wsp` / `sp` depending on the register width; `add wsp, wsp, 16`
(FF430011) and `add sp, sp, 16` (FF430091) are different instructions.  arm::FormatterInternal::format_register() decides the
width by a switch over the register type.

Rule: each of the four names is a string literal appended in a block that is reachable, among the case labels of that switch, only
from the label of its width: wzr / wsp from RegType::kGp32, xzr / sp from RegType::kGp64."""
from . import cfg

WANT = {"wzr": "kGp32", "wsp": "kGp32", "xzr": "kGp64", "sp": "kGp64"}


def run(chk, unit="asmjit/arm/armformatter.cpp", rule="R-A64-SPECIAL-REG-NAME-BY-WIDTH"):
    chk.rule(rule, "arm format_register(): the literals `wzr`, `wsp`, `xzr`, `sp` are each appended in a block that, among the case labels of the "
                   "switch over the register type, is reachable only from the label of that width (kGp32 for w*, kGp64 for xzr / sp): a 32-bit "
                   "stack pointer is never printed as `sp`")
    f = chk.facts(unit, funcs=r"asmjit::arm::FormatterInternal::format_register$", enums=r"asmjit::RegType$")
    fns = [g for g in cfg.load_functions(f) if g.file.endswith(unit.split("/")[-1])]
    chk.need(fns, "arm::FormatterInternal::format_register not found")
    fn = fns[0]
    rt = {v: n for n, v in f["enums"]["asmjit::RegType"]["enumerators"]}
    labels = {}
    for bid, b in fn.blocks.items():
        lab = b.get("label") or {}
        if lab.get("kind") == "case" and lab.get("v") in rt:
            labels[bid] = rt[lab["v"]]
    chk.need(len(labels) >= 4, "format_register: switch over the register type not found")
    reach = {bid: set(fn.reachable_from(bid)) | {bid} for bid in labels}
    pos = fn.block_of()
    par = fn.parent_map()
    found = {}
    for i, x in fn.ex.items():
        if x["k"] == "str" and x.get("val") in WANT:
            e = i
            while e not in pos and e in par:
                e = par[e]
            if e in pos:
                found.setdefault(x["val"], []).append((i, pos[e][0]))
    n = 0
    for name, want in sorted(WANT.items()):
        n += 1
        sites = found.get(name, [])
        if not sites:
            chk.ob(rule, "format_register|%s" % name, False, loc="%s:%d" % (unit, fn.line),
                   detail="the literal `%s` is no longer appended anywhere: the name is computed, so its width cannot be tied to the register type "
                          "(`wsp` and `sp` are different registers of different instructions)" % name, key="a64regname|%s" % name)
            continue
        bad = None
        for i, b in sites:
            frm = sorted({labels[l] for l in labels if b in reach[l]})
            if frm != [want]:
                bad = (i, frm)
        chk.ob(rule, "format_register|%s" % name, bad is None, loc=fn.loc(bad[0]) if bad else fn.loc(sites[0][0]),
               detail="`%s` is appended in a block reachable from the case labels %s; it is the name of a RegType::%s register only" %
                      (name, bad[1] if bad else "", want), key="a64regname|%s" % name)
    chk.floor(rule + ":names", n, 4)
    return n
