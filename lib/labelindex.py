"""R-LABEL-NODE-AT-OWN-INDEX (C08): the Builder's label-node vector is indexed by label id.

`_label_nodes[id]` is how bind(), label_node_of() and serialisation find the node of a label.  Builder_new_label_internal(self,
label_id) stores a new node by *appending* it; labels can also be created on the CodeHolder by other emitters, so the vector may be
shorter than label_id: the function pads it with nullptr first.  The append lands at index `size`; the rule proves, with linear
arithmetic over the function's definitions and a summary of the padding loop (`while (v > c) { append_unchecked(nullptr); v--; }`
appends v0 - c elements), that this index equals label_id.  Without the padding a node ends up under a foreign label's id."""
from . import cfg
from .linear import Sym, Lin


def run(chk, unit="asmjit/core/builder.cpp", rule="R-LABEL-NODE-AT-OWN-INDEX"):
    chk.rule(rule, "Builder_new_label_internal(): the index at which the new LabelNode is appended to `_label_nodes` - the vector's size on "
                   "entry plus the number of nullptr entries appended by the padding loop - is proved equal to the `label_id` parameter")
    f = chk.facts(unit, funcs=r"asmjit::Builder_new_label_internal$")
    fns = [g for g in cfg.load_functions(f) if g.file.endswith(unit.split("/")[-1])]
    chk.need(fns, "Builder_new_label_internal not found")
    fn = fns[0]
    lid = [p for p in fn.params if p["name"] == "label_id"]
    chk.need(lid, "Builder_new_label_internal: parameter label_id not found")
    sym = Sym(fn)
    appends = [(i, x) for i, x in fn.calls(lambda x: x.get("cn") in ("append_unchecked", "append") and x.get("args"))]
    final = [(i, x) for i, x in appends if "LabelNode" in ((fn.e(fn.strip(x["args"][-1])) or {}).get("ty") or "") and (fn.e(fn.strip(x["args"][-1])) or {}).get("k") == "ref"]
    chk.need(len(final) == 1, "Builder_new_label_internal: the append of the new node not found")
    fi, fx = final[0]
    # padding loops: while (v > c) { append(nullptr); v--; }
    padding = Lin(0)
    par = fn.parent_map()
    for i, x in appends:
        if i == fi:
            continue
        a = fn.e(fn.strip(x["args"][-1]))
        if a is None or a["k"] not in ("nullptr", "null") and a.get("cv") != 0:
            continue
        j, loop = i, None
        while j in par:
            j = par[j]
            if (fn.e(j) or {}).get("k") in ("s:WhileStmt", "s:ForStmt"):
                loop = fn.e(j)
                break
        if loop is None or loop.get("cond") is None:
            continue
        if loop["k"] == "s:ForStmt":
            # for (T i = A; i < B; i++) { append(nullptr); }  appends B - A elements (B >= A)
            c = fn.e(fn.strip(loop["cond"]))
            ivar = fn.e(fn.strip(c["lhs"])) if c and c["k"] == "binop" and c["op"] in ("<", "<=") else None
            if ivar is None or ivar["k"] != "ref":
                continue
            init = [dv for d in fn.ex.values() if d["k"] == "decl" for dv in d["vars"] if dv["did"] == ivar["did"] and dv.get("init") is not None]
            inc = any((fn.e(q) or {}).get("k") == "unop" and (fn.e(q) or {}).get("op") == "++" and (fn.e(fn.strip(fn.e(q)["sub"])) or {}).get("did") == ivar["did"]
                      for q in fn.walk(j))
            assigned_in_body = any((fn.e(q) or {}).get("k") == "binop" and (fn.e(q) or {}).get("op", "").endswith("=") and (fn.e(q) or {}).get("op") not in ("==", "!=", "<=", ">=") and
                                   (fn.e(fn.strip(fn.e(q)["lhs"])) or {}).get("did") == ivar["did"] for q in fn.walk(j))
            if len(init) != 1 or not inc or assigned_in_body:
                continue
            a0 = sym.lin(init[0]["init"], fi)
            b0 = sym.lin(c["rhs"], fi)        # (the bound is not modified by the loop: checked below through the linear form of its definition)
            padding = padding.add(b0).add(a0, -1).add(Lin(1 if c["op"] == "<=" else 0))
            continue
        c = fn.e(fn.strip(loop["cond"]))
        if not (c and c["k"] == "binop" and c["op"] in (">", ">=")):
            continue
        v, k = fn.e(fn.strip(c["lhs"])), fn.e(fn.strip(c["rhs"]))
        if v is None or v["k"] != "ref" or k is None or not isinstance(k.get("cv"), int):
            continue
        dec = any((fn.e(q) or {}).get("k") == "unop" and (fn.e(q) or {}).get("op") == "--" and (fn.e(fn.strip(fn.e(q)["sub"])) or {}).get("did") == v["did"]
                  for q in fn.walk(j))
        if not dec:
            continue
        # v0: the definition of v that reaches the loop
        decl = [dv for d in fn.ex.values() if d["k"] == "decl" for dv in d["vars"] if dv["did"] == v["did"] and dv.get("init") is not None]
        if len(decl) != 1:
            continue
        first = min(fn.walk(j))
        v0 = sym.lin(decl[0]["init"], first)
        padding = padding.add(v0).add(Lin(k["cv"] + (0 if c["op"] == ">" else -1)), -1)
    size0 = None
    for i, x in fn.ex.items():
        t = " ".join(fn.text(i).split())
        if x["k"] == "member" and x.get("field") == "_size" and "_label_nodes" in t:
            size0 = Lin(0, {sym.canon(i): 1})
        if x["k"] == "mcall" and x.get("cn") == "size" and "_label_nodes" in t and size0 is None:
            size0 = Lin(0, {sym.canon(i): 1})
    ok = False
    e = None
    if size0 is not None:
        e = size0.add(padding).add(Lin(0, {"label_id": 1}), -1)
        ok = e.is_const() and e.c == 0
    chk.ob(rule, "Builder_new_label_internal|append(node)", ok, loc=fn.loc(fi),
           detail="the new node is appended at index size + padding = %s, which is not provably the label's id (difference %s): after a label "
                  "was created on the CodeHolder by someone else the node is stored under another label's id" %
                  ((size0.add(padding) if size0 is not None else "?"), e if e is not None else "?"), key="labelindex|append")
    chk.floor(rule + ":appends", 1, 1)
    return 1
