"""R-ASSIGN-EMPTY-REPLACES (C18): a String modify operation never reports success for ModifyOp::kAssign without having replaced the
content.

Every String::_op_*(ModifyOp op, ...) implements both `assign_*` (replace) and `append_*`.  A shortcut such as `if (!size) return
kOk` is right for append and wrong for assign: the old bytes stay.  Rule: every return of such a function whose value can be the
constant kOk is reached only on paths on which the operation was applied - prepare(op, ...) / _set_size(...) / clear() was called - or
on which `op == ModifyOp::kAssign` was tested and found false.  (A return that forwards to another _op_* with the same `op` is that
function's obligation.)"""
from . import cfg
from .must import Must


def run(chk, unit="asmjit/core/string.cpp", rule="R-ASSIGN-EMPTY-REPLACES"):
    chk.rule(rule, "string.cpp: in every String::_op_*(ModifyOp op, ...) each return that can yield Error::kOk is dominated by a call of "
                   "prepare(op, ..) / _set_size() / clear() or by the failing edge of `op == ModifyOp::kAssign`: assigning an empty content "
                   "replaces the old one")
    f = chk.facts(unit, funcs=r"asmjit::String::_op_[a-z_]+$")
    n = nf = 0
    for fn in cfg.load_functions(f):
        if not fn.file.endswith("string.cpp") or not fn.params or "ModifyOp" not in fn.params[0]["ty"]:
            continue
        op_did = fn.params[0]["did"]
        nf += 1

        def is_op(e):
            x = fn.e(fn.strip(e))
            return x is not None and x["k"] == "ref" and x.get("did") == op_did

        def elem_fx(eid, x):
            if x["k"] in ("call", "mcall") and x.get("cn") in ("prepare", "_set_size", "clear"):
                if x.get("cn") != "prepare" or (x.get("args") and is_op(x["args"][0])):
                    return ((("applied",),), ())
            return None

        def edge(b, si, atom, holds):
            x = fn.e(fn.strip(atom))
            if x is not None and x["k"] == "binop" and x["op"] in ("==", "!="):
                for p, q in ((x["lhs"], x["rhs"]), (x["rhs"], x["lhs"])):
                    c = fn.e(fn.strip(q))
                    if is_op(p) and c is not None and c.get("cvn") == "kAssign" and holds == (x["op"] == "!="):
                        return [("applied",)]
            return ()
        m = Must(fn, elem_fx, edge)
        par = fn.parent_map()

        def can_be_ok(e, depth=0):
            x = fn.e(fn.strip(e))
            if x is None or depth > 6:
                return False
            if x.get("cvn") == "kOk":
                return True
            if x["k"] == "cond":
                return can_be_ok(x.get("a"), depth + 1) or can_be_ok(x.get("b"), depth + 1)
            return False
        for b, idx, r in fn.return_sites():
            v = fn.e(r).get("val")
            if v is None or not can_be_ok(v):
                continue
            n += 1
            st = m.before(r)
            j = r
            while st is None and j in par:
                j = par[j]
                st = m.before(j)
            short = fn.name.replace("asmjit::", "")
            chk.ob(rule, "%s|return@%d" % (short, fn.line_of(r) - fn.line), ("applied",) in (st or frozenset()), loc=fn.loc(r),
                   detail="%s returns kOk on a path on which nothing was written and `op` was not compared with ModifyOp::kAssign: the assign "
                          "form of the operation (assign_chars(c, 0), assign(Span(p, 0)), assign_hex(p, 0)) leaves the old content in place" % short,
                   key="assignempty|%s" % short)
    chk.floor(rule + ":functions", nf, 5)
    chk.floor(rule + ":returns", n, 5)
    return n
