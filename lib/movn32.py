"""R-MOVN32-IS-W (C17, C02): the 32-bit move-wide sequence never uses the 64-bit form of MOVN.

encode_mov_sequence_32() builds `mov Rd, #imm` for immediates whose upper 32 bits are zero, also for X destinations (called from
encode_mov_sequence_64() when imm <= 0xFFFFFFFF).  MOVZ/MOVK may carry the sf bit of an X destination; MOVN may not: MOVN writes the
inverse of the shifted half-word to the WHOLE register, so with sf = 1 bits 63..32 become ones, with sf = 0 the write to Wd zero-extends.

Rule: in encode_mov_sequence_32() the local that holds the MOVN opcode (constant with opc = 00 and bits 28..23 = 100101, Arm ARM
C4.1 "Move wide (immediate)") does not depend on the parameter `x`, and no word built from it is OR-ed with a term that does."""
from . import cfg


def is_movn(c):
    return isinstance(c, int) and (c >> 23) & 0x3F == 0b100101 and (c >> 29) & 3 == 0


def run(chk, unit="asmjit/arm/a64assembler.cpp", rule="R-MOVN32-IS-W"):
    chk.rule(rule, "a64 encode_mov_sequence_32(): neither the MOVN opcode local nor any instruction word built from it depends on the `x` (sf) "
                   "parameter: MOVN with sf = 1 sets bits 63..32 of the destination, and this sequence is used exactly when they must be zero")
    f = chk.facts(unit, funcs=r"asmjit::a64::encode_mov_sequence_32$")
    fns = [g for g in cfg.load_functions(f) if g.file.endswith(unit.split("/")[-1])]
    chk.need(fns, "encode_mov_sequence_32 not found")
    fn = fns[0]
    xs = {p["did"] for p in fn.params if p["name"] == "x"}
    chk.need(xs, "encode_mov_sequence_32: parameter x not found")

    def has_x(e):
        return any((fn.e(j) or {}).get("k") == "ref" and (fn.e(j) or {}).get("did") in xs for j in fn.walk(e))
    movn = {}
    for i, d in fn.ex.items():
        if d["k"] == "decl":
            for v in d["vars"]:
                if v.get("init") is None:
                    continue
                consts = [fn.e(j).get("cv") for j in fn.walk(v["init"]) if isinstance((fn.e(j) or {}).get("cv"), int)]
                if any(is_movn(c) for c in consts):
                    movn[v["did"]] = (i, v)
    chk.need(movn, "encode_mov_sequence_32: no local holds a MOVN opcode constant")
    n = 0
    par = fn.parent_map()
    for did, (di, v) in sorted(movn.items()):
        n += 1
        chk.ob(rule, "encode_mov_sequence_32|%s|definition" % v["name"], not has_x(v["init"]), loc=fn.loc(di),
               detail="the MOVN opcode `%s` is combined with the sf bit of the destination (`x`): for an X register MOVN then sets bits 63..32, "
                      "`mov x5, 0xFFFF1234` yields 0xFFFFFFFFFFFF1234" % v["name"], key="movn32|def")
        for j, y in sorted(fn.ex.items()):
            if y["k"] == "ref" and y.get("did") == did:
                top = j
                while top in par and (fn.e(par[top]) or {}).get("k") in ("binop", "paren", "cast") and (fn.e(par[top]) or {}).get("op") in ("|", "+", None):
                    top = par[top]
                if top == j:
                    continue
                n += 1
                chk.ob(rule, "encode_mov_sequence_32|%s|use@%d" % (v["name"], fn.line_of(j) - fn.line), not has_x(top), loc=fn.loc(j),
                       detail="`%s` ORs the sf bit into a MOVN word" % " ".join(fn.text(top).split())[:70], key="movn32|use")
    chk.floor(rule + ":obligations", n, 3)
    return n
