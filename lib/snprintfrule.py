"""R-SNPRINTF-RESULT-BOUNDED (C18, C20): the value (v)snprintf returns is the length the output WOULD have had - never an amount that is
known to be in the buffer.

For every call `r = (v)snprintf(buf, N, ...)` in the library whose result is kept, every later use of r (directly, through casts or
through a local initialised from it) that touches the buffer is shown to stay inside the N bytes that were made available:

  * a subscript `buf[i]` with i computed from r:                       i + 1 <= N
  * a call that receives the buffer and a length L computed from r:    L <= N         (dup(buf, L), _op_string(op, buf, L) ...)
  * in-place formatting into `data() + start` followed by a size
    update `_set_size(E)` with E computed from r:                      E - start + 1 <= N   (the terminator is inside)

"Shown" = linear arithmetic over the comparisons that hold on every path to the use (lib/linear.py: reaching definitions,
`min()` bounds, branch edges).  Uses that only ask for memory (`prepare(op, r)`, a second `vsnprintf(p, r + 1, ...)`), comparisons
and error tests are not buffer uses.  A call whose result is discarded needs nothing: snprintf always terminates inside N."""
from . import cfg
from .linear import Sym, Lin

UNITS = ["asmjit/core/string.cpp", "asmjit/support/arena.cpp", "asmjit/core/compiler.cpp", "asmjit/x86/x86formatter.cpp", "asmjit/core/globals.cpp",
         "asmjit/core/logger.cpp", "asmjit/core/formatter.cpp", "asmjit/arm/armformatter.cpp", "asmjit/arm/a64formatter.cpp", "asmjit/core/emitterutils.cpp"]
CALLS = ("vsnprintf", "snprintf")
SIZE_SETTERS = ("_set_size", "set_size")
CMP = ("<", "<=", ">", ">=", "==", "!=")


def _root_var(fn, e):
    """the variable an address expression is rooted in (buf, p, data()) -> key"""
    for j in fn.walk(e):
        y = fn.e(j)
        if y is not None and y["k"] == "ref" and y.get("dk") in ("local", "parm"):
            return ("var", y["did"])
        if y is not None and y["k"] == "mcall" and y.get("cn") == "data":
            return ("data",)
    return None


def run(chk, units=UNITS, rule="R-SNPRINTF-RESULT-BOUNDED", floor=5):
    chk.rule(rule, "the result of every (v)snprintf call - the length the output would have had - reaches a subscript of the formatted buffer, a "
                   "call that also receives that buffer, or the size update after formatting in place only where linear reasoning over the "
                   "dominating comparisons shows that it stays inside the size passed to the call (index + 1 <= N, length <= N, in-place "
                   "size - start + 1 <= N); calls that discard the result need nothing")
    n = ncalls = 0
    for u in units:
        f = chk.facts(u, funcs=r"asmjit::.*")
        for fn in cfg.load_functions(f):
            if not fn.file.endswith(u.split("/")[-1]):
                continue
            calls = [(i, x) for i, x in fn.calls(lambda x: x["k"] == "call" and x.get("cn") in CALLS and len(x.get("args", [])) >= 2)]
            if not calls:
                continue
            par = fn.parent_map()
            short = fn.name.replace("asmjit::", "")
            sym = None
            for ci, cx in calls:
                ncalls += 1
                # who holds the result?
                p = ci
                while p in par and (fn.e(par[p]) or {}).get("k") in ("cast", "paren"):
                    p = par[p]
                holder = None
                px = fn.e(par[p]) if p in par else None
                if px is not None and px["k"] == "binop" and px["op"] == "=" and fn.strip(px["rhs"]) == ci:
                    l = fn.e(fn.strip(px["lhs"]))
                    if l is not None and l["k"] == "ref" and "did" in l:
                        holder = l["did"]
                if holder is None:
                    for di, dx in fn.ex.items():
                        if dx["k"] == "decl":
                            for v in dx["vars"]:
                                if v.get("init") is not None and fn.strip(v["init"]) == ci:
                                    holder = v["did"]
                inst = "%s|%s@%d" % (short, cx["cn"], fn.line_of(ci) - fn.line)
                if holder is None:
                    n += 1
                    chk.ob(rule, inst + "|discarded", True, loc=fn.loc(ci))
                    continue
                # the value group: the holder and every local assigned / initialised from an expression over the group (casts, min, +-)
                group = {holder}
                for _ in range(4):
                    for i, x in fn.ex.items():
                        if x["k"] == "decl":
                            for v in x["vars"]:
                                if v.get("init") is not None and any((fn.e(j) or {}).get("did") in group for j in fn.walk(v["init"])):
                                    group.add(v["did"])
                        elif x["k"] == "binop" and x["op"] == "=":
                            l = fn.e(fn.strip(x["lhs"]))
                            if l is not None and l["k"] == "ref" and l.get("dk") == "local" and any((fn.e(j) or {}).get("did") in group for j in fn.walk(x["rhs"])):
                                group.add(l["did"])
                buf_root = _root_var(fn, cx["args"][0])
                if sym is None:
                    sym = Sym(fn)
                pos = fn.block_of()
                after = set()
                if ci in pos or True:
                    j = ci
                    while j not in pos and j in par:
                        j = par[j]
                    if j in pos:
                        after = set(fn.reachable_from(pos[j][0])) | {pos[j][0]}

                def mentions(e):
                    return any((fn.e(j) or {}).get("k") == "ref" and (fn.e(j) or {}).get("did") in group for j in fn.walk(e))

                def elem_of(i):
                    j = i
                    while j not in pos and j in par:
                        j = par[j]
                    return j if j in pos else None
                uses = []       # (kind, element id, value expr, detail text)
                for i, x in sorted(fn.ex.items()):
                    el = elem_of(i)
                    if el is None or pos[el][0] not in after or i == ci:
                        continue
                    if x["k"] == "subscript" and _root_var(fn, x["base"]) == buf_root and mentions(x["idx"] if "idx" in x else x.get("index")):
                        uses.append(("index", i, x.get("idx", x.get("index")), fn.text(i)))
                    elif x["k"] in ("call", "mcall") and x.get("args") and i != ci:
                        if x.get("cn") in CALLS:
                            continue            # formatting again with a size derived from r
                        with_buf = [a for a in x["args"] if _root_var(fn, a) == buf_root and not mentions(a)]
                        lens = [a for a in x["args"] if mentions(a)]
                        if x.get("cn") in SIZE_SETTERS and lens and buf_root == ("data",):
                            uses.append(("inplace", i, lens[0], fn.text(i)))
                        elif with_buf and lens and buf_root is not None:
                            uses.append(("length", i, lens[0], fn.text(i)))
                N = cx["args"][1]
                if not uses:
                    n += 1
                    chk.ob(rule, inst + "|no-buffer-use", True, loc=fn.loc(ci))
                for kind, ui, val, txt in uses:
                    at = elem_of(ui)
                    facts = sym.cmp_facts(at)
                    v = sym.lin(val, at)
                    nl = sym.lin(N, at)
                    if kind == "index":
                        e = v.add(Lin(1)).add(nl, -1)
                    elif kind == "length":
                        e = v.add(nl, -1)
                    else:
                        start = sym.lin(cx["args"][0], at)
                        # buffer = data() + start: drop the data() atom
                        start = Lin(start.c, {a: c for a, c in start.t.items() if "data()" not in str(a)})
                        e = v.add(start, -1).add(Lin(1)).add(nl, -1)
                    ok = sym.prove_le0(e, facts)
                    n += 1
                    chk.ob(rule, "%s|%s@%d" % (inst, kind, fn.line_of(ui) - fn.line), ok, loc=fn.loc(ui),
                           detail="`%s` uses the value returned by %s() - the length the output would have had - as %s of the formatted buffer, and "
                                  "nothing on the paths to it bounds it by the size `%s` the call was given (cannot show %s <= 0): an output that does "
                                  "not fit is read / terminated / counted past what was written" %
                                  (" ".join(txt.split())[:60], cx["cn"], {"index": "an index", "length": "a length", "inplace": "the new size"}[kind],
                                   " ".join(fn.text(N).split())[:40], e),
                           key="snprintf|%s|%s" % (short, kind))
    chk.floor(rule + ":calls", ncalls, floor)
    return n
