"""R-LABEL-BASE-LOOKED-AT (C01, C03): no ModRM/SIB encoding path of x86 Assembler::_emit finishes without having looked at whether the
base of the memory operand is a label.

A memory operand whose base is a label needs a fixup / relocation.  `rm_info` carries kX86MemInfo_BaseLabel for it.  Between the label
EmitModSib and the emit_immediate() that ends each of its paths the kind of the base must have been decided: a branch whose condition
mentions kX86MemInfo_BaseLabel, or the taken edge of a `rm_info & kX86MemInfo_BaseGp` test (the base is a register).  A path that
decides neither encodes `[label + si + 8]` as `[si + 8]`: the reference to the label is silently gone."""
import re
from . import cfg
from .must import Must


def run(chk, unit="asmjit/x86/x86assembler.cpp", rule="R-LABEL-BASE-LOOKED-AT"):
    chk.rule(rule, "x86 _emit: every emit_immediate() that ends a path of the EmitModSib / EmitModVSib section is dominated by a branch on "
                   "kX86MemInfo_BaseLabel (either edge) or by the taken edge of a test of kX86MemInfo_BaseGp alone")
    f = chk.facts(unit, funcs=r"x86::Assembler::_emit$")
    fn = cfg.find_fn(f, "x86::Assembler::_emit")
    labels = fn.label_blocks()
    chk.need("EmitModSib" in labels and "EmitModVSib" in labels, "labels EmitModSib / EmitModVSib not found in x86 _emit")

    def line_of_block(b):
        for el in fn.blocks[b]["elems"]:
            if isinstance(el, int):
                return fn.line_of(el)
        return None

    def mentions(e, name, depth=0):
        x = fn.e(e)
        if x is None or depth > 12:
            return False
        if x.get("cvn") == name or (x["k"] == "ref" and x.get("name") == name):
            return True
        return any(mentions(c, name, depth + 1) for c in fn.children(e))

    def edge(b, si, atom, holds):
        a = fn.strip(atom)
        if mentions(a, "kX86MemInfo_BaseLabel"):
            return [("base-kind",)]
        x = fn.e(a)
        # `rm_info & kX86MemInfo_BaseGp` (nothing else in the mask) is true: the base is a GP register
        if holds and x is not None and x["k"] == "binop" and x["op"] == "&":
            r = fn.e(fn.strip(x["rhs"]))
            if r is not None and r.get("cvn") == "kX86MemInfo_BaseGp":
                return [("base-kind",)]
        return ()
    m = Must(fn, None, edge)
    par = fn.parent_map()
    start = min(l for l in (line_of_block(labels["EmitModSib"]),) if l) if line_of_block(labels["EmitModSib"]) else None
    ends = sorted(line_of_block(b) for n_, b in labels.items() if line_of_block(b))
    chk.need(start is not None, "EmitModSib block has no elements")
    # the section ends at the first label after EmitModVSib that is not part of it
    vs = line_of_block(labels["EmitModVSib"])
    after = [l for l in ends if l > vs]
    stop = after[0] if after else 10 ** 9
    n = 0
    for i, x in sorted(fn.calls(lambda x: x["k"] == "mcall" and x.get("cn") == "emit_immediate"), key=lambda t: fn.line_of(t[0])):
        if not (start <= fn.line_of(i) < stop):
            continue
        n += 1
        st = m.before(i)
        j = i
        while st is None and j in par:
            j = par[j]
            st = m.before(j)
        chk.ob(rule, "x86::_emit|emit_immediate#%d" % n, ("base-kind",) in (st or frozenset()), loc=fn.loc(i),
               detail="a ModRM/SIB path ends here (line %d) although on some path to it neither kX86MemInfo_BaseLabel nor kX86MemInfo_BaseGp was "
                      "tested: a memory operand with a label base (`[label + si + 8]` in 32-bit mode) is encoded without the label and without a fixup" %
                      fn.line_of(i), key="labelbase|%d" % n)
    chk.floor(rule + ":paths", n, 3)
    return n
