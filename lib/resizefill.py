"""R-RESIZE-ZERO-FILLS (C18): growing an ArenaVector by resize gives zeroed elements on every path.

"If n is greater than the current size then the additional elements' content will be initialized to zero" (arenavector.h).  In every
*resize* function of arenavector.cpp the store of the new size into `_size` is reached only on paths on which either the old size was
shown not to be smaller than n (false edge of `size < n`) or a memset() whose length is computed from both n and the old size has
run.  A fill that only happens when the buffer is re-allocated leaves the recycled tail of a shrunk vector visible."""
import re
from . import cfg
from .must import Must


def run(chk, unit="asmjit/support/arenavector.cpp", rule="R-RESIZE-ZERO-FILLS"):
    chk.rule(rule, "arenavector.cpp resize functions: every store to `_size` is dominated by the false edge of `old_size < n` or by a "
                   "memset() over the elements between the old size and n - the zero fill does not depend on whether the buffer grew")
    f = chk.facts(unit, funcs=r"asmjit::ArenaVector[A-Za-z_0-9:]*resize[a-z_]*$")
    n = 0
    seen = set()
    for fn in cfg.load_functions(f):
        if not fn.file.endswith(unit.split("/")[-1]) or (fn.name, fn.line) in seen:
            continue
        seen.add((fn.name, fn.line))
        # locals that hold the old size
        old = set()
        for d in fn.ex.values():
            if d["k"] == "decl":
                for v in d["vars"]:
                    if v.get("init") is not None:
                        y = fn.e(fn.strip(v["init"]))
                        if y is not None and y["k"] == "member" and y.get("field") == "_size":
                            old.add(v["did"])

        def is_old(e):
            x = fn.e(fn.strip(e))
            return x is not None and (x["k"] == "ref" and x.get("did") in old or x["k"] == "member" and x.get("field") == "_size")

        def is_new(e):
            x = fn.e(fn.strip(e))
            return x is not None and x["k"] == "ref" and x.get("dk") in ("parm", "param")

        def edge(b, si, atom, holds):
            x = fn.e(fn.strip(atom))
            if x is None or x["k"] != "binop":
                return ()
            op, l, r = x["op"], x["lhs"], x["rhs"]
            if op in (">", ">="):
                op, l, r = {">": "<", ">=": "<="}[op], r, l
            # old < new is false  /  new <= old is true
            if op == "<" and is_old(l) and is_new(r) and not holds:
                return [("covered",)]
            if op == "<=" and is_new(l) and is_old(r) and holds:
                return [("covered",)]
            return ()

        def elem_fx(eid, x):
            if x["k"] in ("call", "mcall") and x.get("cn") in ("memset", "__builtin_memset") and len(x.get("args") or []) == 3:
                t = fn.text(x["args"][2])
                names = set(re.findall(r"[A-Za-z_][A-Za-z_0-9]*", t))
                olds = {v["name"] for d in fn.ex.values() if d["k"] == "decl" for v in d["vars"] if v["did"] in old} | {"_size"}
                params = {p["name"] for p in fn.params}
                if names & olds and names & params:
                    return ((("covered",),), ())
            return None
        m = Must(fn, elem_fx, edge)
        par = fn.parent_map()
        for i, x in sorted(fn.ex.items()):
            if x["k"] == "binop" and x["op"] == "=":
                l = fn.e(fn.strip(x["lhs"]))
                if l is not None and l["k"] == "member" and l.get("field") == "_size":
                    n += 1
                    st = m.before(i)
                    j = i
                    while st is None and j in par:
                        j = par[j]
                        st = m.before(j)
                    short = fn.name.replace("asmjit::", "")
                    chk.ob(rule, "%s@%d|_size" % (short, fn.line), ("covered",) in (st or frozenset()), loc=fn.loc(i),
                           detail="%s stores the new size on a path on which the elements between the old size and n were not zeroed (the "
                                  "memset depends on something other than `old size < n`): resize to a larger size within the capacity exposes the "
                                  "bytes of elements removed earlier" % short, key="resizefill|%s" % short.split("<")[0])
    chk.floor(rule + ":stores", n, 2)
    return n
