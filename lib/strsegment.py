"""R-ES-OPERAND-NOT-OVERRIDABLE (C01): the es:[zdi] operand of a string instruction is never given a segment prefix, and the prefix of a
two-memory string instruction comes from its ds:[zsi] operand.

db/isa_x86.json annotates the implicit memory operands of the string instructions: `m8(ds:zsi)` (overridable source of movs, cmps,
lods, outs) and `m8(es:zdi)` (ins, stos, scas, destination of movs, second operand of cmps - not overridable).  All of them are
emitted through the label EmitX86OpImplicitMem of x86 Assembler::_emit, which writes the segment prefix of `rm_rel`.

  (a) database precondition: every `es:` operand has base zdi, every `ds:` operand of those instructions base zsi - so a test of the
      base id decides the kind of the operand;
  (b) the emit_segment_override() of EmitX86OpImplicitMem is dominated by a branch whose condition mentions Gp::kIdDi (the es:[zdi]
      operand is recognised; its failing side is an error label);
  (c) an encoding case with two memory operands whose database members put the ds: operand at different positions (movs: operand 1,
      cmps: operand 0) does not select `rm_rel` by a constant: the selection depends on a base id (Gp::kIdSi / Gp::kIdDi) or on the instruction id."""
import re
from . import cfg, core
from .must import Must
from .regions import Regions


# what a selection of the overridable operand may depend on: the base id of an operand or the instruction id
SELECTORS = {"kIdSi", "kIdDi", "kIdCmps", "kIdMovs", "inst_id"}


def db_string_operands():
    txt = open(core.REPO + "/db/isa_x86.json").read()
    out = {}
    for m in re.finditer(r'"(?:any|x86|x64)"\s*:\s*"([^"]*)"', txt):
        form = m.group(1)
        if not re.search(r"\((?:ds|es):z[a-z]{2}\)", form):
            continue
        form = re.sub(r"^\[[^\]]*\]\s*", "", form)
        name, _, ops = form.partition(" ")
        pos = []
        for i, o in enumerate(ops.split(",")):
            mm = re.search(r"\((ds|es):(z[a-z]{2})\)", o)
            if mm and re.search(r"\bm\d+\(", o):
                pos.append((i, mm.group(1), mm.group(2)))
        if pos:
            out.setdefault(name, set()).add(tuple(pos))
    return out


def _mentions(fn, e, names, depth=0):
    x = fn.e(e)
    if x is None or depth > 14:
        return False
    if x.get("cvn") in names or (x["k"] == "ref" and x.get("name") in names):
        return True
    return any(_mentions(fn, c, names, depth + 1) for c in fn.children(e))


def run(chk, unit="asmjit/x86/x86assembler.cpp", rule="R-ES-OPERAND-NOT-OVERRIDABLE"):
    chk.rule(rule, "x86 _emit: the segment prefix written at EmitX86OpImplicitMem is dominated by a test of the base id against Gp::kIdDi (the "
                   "es:[zdi] operand of ins / stos / scas / movs / cmps is not overridable), and the two-memory string case selects the operand "
                   "that carries the override by its base id because db/isa_x86.json puts the ds:[zsi] operand of movs and cmps at different positions")
    db = db_string_operands()
    chk.need(len(db) >= 7, "only %d instructions with (ds:|es:) memory operands found in db/isa_x86.json" % len(db))
    es_bases = {b for forms in db.values() for f_ in forms for (_, seg, b) in f_ if seg == "es"}
    ds_bases = {b for n_, forms in db.items() for f_ in forms for (_, seg, b) in f_ if seg == "ds" and any(s2 == "es" for ff in db[n_] for (_, s2, _) in ff)}
    chk.ob(rule, "db|es-base", es_bases == {"zdi"}, loc="db/isa_x86.json:1", detail="es: memory operands with bases %s" % sorted(es_bases), key="strseg|db-es")
    two = {n_: {tuple(i for (i, seg, _) in f_ if seg == "ds") for f_ in forms} for n_, forms in db.items() if any(len(f_) == 2 for f_ in forms)}
    ds_positions = {p for v in two.values() for p in v}
    f = chk.facts(unit, funcs=r"x86::Assembler::_emit$")
    fn = cfg.find_fn(f, "x86::Assembler::_emit")
    labels = fn.label_blocks()
    chk.need("EmitX86OpImplicitMem" in labels, "label EmitX86OpImplicitMem not found")

    def edge(b, si, atom, holds):
        term = fn.blocks[b].get("term") or {}
        c = term.get("cond")
        if c is not None and _mentions(fn, c, {"kIdDi"}):
            return [("di-looked",)]
        return ()
    m = Must(fn, None, edge)
    par = fn.parent_map()
    reg = Regions(fn)
    n = 0
    for i, x in sorted(fn.calls(lambda x: x["k"] == "mcall" and x.get("cn") == "emit_segment_override")):
        if reg.of_line(fn.line_of(i)) != "label:EmitX86OpImplicitMem":
            continue
        n += 1
        st = m.before(i)
        j = i
        while st is None and j in par:
            j = par[j]
            st = m.before(j)
        chk.ob(rule, "x86::_emit|EmitX86OpImplicitMem|segment", ("di-looked",) in (st or frozenset()), loc=fn.loc(i),
               detail="the segment prefix of an implicit memory operand is written without the base id having been compared with Gp::kIdDi: "
                      "`stos fs:[rdi], al` is encoded as 64 AA (a prefix without effect - the operand is es:[rdi]), `ins` / `scas` likewise",
               key="strseg|implicit")
    chk.floor(rule + ":prefix-sites", n, 1)
    # (c) two-memory string case
    case = None
    for c in (reg.dispatch or {}).get("cases", []):
        if c.get("n", "").endswith("kEncodingX86StrMm"):
            case = "case:" + c["n"]
    chk.need(case is not None, "case kEncodingX86StrMm not found")
    sel = []
    for i, x in sorted(fn.ex.items()):
        if x["k"] == "binop" and x["op"] == "=" and reg.of_line(fn.line_of(i)) == case:
            l = fn.e(fn.strip(x["lhs"]))
            if l is not None and l["k"] == "ref" and l.get("name") == "rm_rel":
                sel.append(i)
    chk.need(bool(sel), "no assignment of rm_rel in case kEncodingX86StrMm")
    differs = len(ds_positions) > 1
    ok = True
    for i in sel:
        x = fn.e(i)
        if differs and not _mentions(fn, x["rhs"], SELECTORS):
            # a constant selection is acceptable only under a branch that mentions the base ids
            st_ok = False
            b = fn.block_of().get(i)
            st_ok = False
            k = i
            while k in par:
                k = par[k]
                y = fn.e(k)
                if y is not None and y["k"] == "s:IfStmt" and y.get("cond") is not None and _mentions(fn, y["cond"], SELECTORS):
                    st_ok = True
                    break
            ok = ok and st_ok
    chk.ob(rule, "x86::_emit|kEncodingX86StrMm|rm_rel", ok, loc=fn.loc(sel[0]),
           detail="`%s`: the operand that carries the segment override is selected by position although db/isa_x86.json has the overridable "
                  "ds:[zsi] operand at positions %s for the members of this class (movs: 1, cmps: 0): `cmps fs:[rsi], [rdi]` loses its override "
                  "and `cmps [rsi], fs:[rdi]` puts it on the other operand" % (" ".join(fn.text(sel[0]).split())[:60], sorted(ds_positions)),
           key="strseg|strmm")
    return n
