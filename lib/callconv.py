"""C06.a — extract the per-convention records built by init_call_conv: for each (architecture
branch, convention case) the CallConv setter calls with constant-evaluated arguments."""
import re
from . import cfg
from .must import Must


def extract(fn):
    def edge_fx(b, si, atom, holds):
        a = fn.e(atom)
        t = fn.text(atom)
        if a and a["k"] in ("call", "mcall"):
            if a.get("cn") == "is_32bit":
                return [("mode", "32" if holds else "64")]
            if a.get("cn", "").startswith("should_treat_as_cdecl") and "64" not in a.get("cn", ""):
                return [("cdecl", holds)]
        if a and a["k"] == "ref" and a.get("name") in ("win_abi", "is_standard_call_conv"):
            return [(a["name"], holds)]
        return ()
    m = Must(fn, None, edge_fx)
    # case regions by line
    cases = []
    for x in fn.ex.values():
        if x["k"] == "s:SwitchStmt":
            for c in x["cases"]:
                cases.append((c["l"], c["n"]))
    cases.sort()
    sw_lines = sorted(x["l"] for x in fn.ex.values() if x["k"] == "s:SwitchStmt")
    brk = sorted(x["l"] for x in fn.ex.values() if x["k"] == "s:BreakStmt")
    out = {}
    for i, x in sorted(fn.calls(lambda x: x["k"] == "mcall" and x.get("obj") and fn.text(x["obj"]) == "cc"), key=lambda t: (t[1]["l"], t[0])):
        cn = x["cn"]
        if not (cn.startswith("set_") or cn.startswith("add_")):
            continue
        st = m.before(i) or frozenset()
        mode = next((f[1] for f in st if f[0] == "mode"), "any")
        cd = next((f[1] for f in st if f[0] == "cdecl"), None)
        std = next((f[1] for f in st if f[0] == "is_standard_call_conv"), None)
        win = next((f[1] for f in st if f[0] == "win_abi"), None)
        # enclosing case group: case labels directly above (no break between the label and the call)
        grp = []
        for (cl, cnm) in cases:
            if cl <= x["l"] and not any(cl < b < x["l"] for b in brk) and any(s <= cl for s in sw_lines):
                # same switch: the nearest switch above the case must also be the nearest switch above the call ... approximated by lines
                grp.append(cnm)
        region = mode
        if grp:
            region += "|" + "+".join(grp)
        elif cd is not None:
            region += "|cdecl-family" if cd else "|other"
        elif std is not None and std:
            region += "|standard-tail"
        else:
            region += "|common"
        if win is not None and grp:
            region += "|win" if win else "|nonwin"
        args = []
        for a in x["args"]:
            y = fn.e(fn.strip(a))
            if y is None:
                args.append("?")
            elif y.get("cvn"):
                args.append(y["cvn"])
            elif "cv" in y:
                args.append(y["cv"])
            else:
                # flag expressions: A | B | C of enumerators
                names = sorted({fn.e(j)["name"] for j in fn.walk(a) if fn.e(j)["k"] == "ref" and fn.e(j).get("dk") == "enumconst"})
                if names and all(fn.e(j)["k"] in ("ref", "binop", "cast", "opcall", "call") for j in fn.walk(a)) and not any(fn.e(j).get("dk") in ("local", "parm") for j in fn.walk(a) if fn.e(j)["k"] == "ref"):
                    args.append("|".join(names))
                else:
                    args.append("dynamic:" + re.sub(r"\s+", "", fn.text(a))[:60])
        out.setdefault(region, []).append([cn] + args)
    return out
