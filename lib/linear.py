"""A small symbolic helper for bounded-write rules: expressions of one function are normalised to
linear forms over opaque atoms (canonical text of calls / non-linear sub-expressions), locals are
replaced by their unique reaching definition, and `E <= 0` is proved from the comparison facts that
hold on every path (branch edges) plus min()/max() bounds.  Purely syntactic: no solver."""
from .must import Must


class Lin:
    __slots__ = ("c", "t")

    def __init__(self, c=0, t=None):
        self.c = c
        self.t = dict(t or {})

    def add(self, o, k=1):
        r = Lin(self.c + k * o.c, self.t)
        for a, v in o.t.items():
            r.t[a] = r.t.get(a, 0) + k * v
            if r.t[a] == 0:
                del r.t[a]
        return r

    def is_const(self):
        return not self.t

    def key(self):
        return (self.c, tuple(sorted(self.t.items(), key=lambda kv: str(kv[0]))))

    def __repr__(self):
        parts = ["%+d*%s" % (v, a if isinstance(a, str) else "%s(..)" % a[0]) for a, v in sorted(self.t.items(), key=lambda kv: str(kv[0]))]
        return " ".join(parts + (["%+d" % self.c] if self.c or not parts else []))


class Sym:
    def __init__(self, fn):
        self.fn = fn
        # reaching definitions by must-analysis: ("def", did, expr id of rhs)
        defs = {}
        for i, x in fn.ex.items():
            if x["k"] == "decl":
                for v in x["vars"]:
                    if v.get("init"):
                        defs[i] = defs.get(i, []) + [(v["did"], v["init"])]
            elif x["k"] == "binop" and x["op"] == "=":
                l = fn.e(fn.strip(x["lhs"]))
                if l and l["k"] == "ref" and l.get("dk") in ("local", "parm"):
                    defs[i] = [(l["did"], x["rhs"])]
            elif x["k"] == "binop" and x["op"].endswith("=") and x["op"] not in ("==", "!=", "<=", ">="):
                l = fn.e(fn.strip(x["lhs"]))
                if l and l["k"] == "ref" and l.get("dk") in ("local", "parm"):
                    defs[i] = [(l["did"], None)]     # compound update: unknown value
            elif x["k"] == "unop" and x["op"] in ("++", "--"):
                l = fn.e(fn.strip(x["sub"]))
                if l and l["k"] == "ref" and "did" in l:
                    defs[i] = [(l["did"], None)]
        self.defs = defs

        def elem_fx(eid, x):
            if eid in defs:
                adds, kills = [], []
                for did, rhs in defs[eid]:
                    kills.append(("anydef", did))
                    adds.append(("def", did, rhs))
                return (tuple(adds), tuple(k for k in kills))
            return None
        # custom must: a new def of did kills every older def fact of did
        self.m = _DefMust(fn, defs)

    def facts_at(self, eid):
        return self.m.before(eid)

    def lin(self, eid, at, depth=0):
        """Linear form of expression eid evaluated at program point `at` (an element id)."""
        fn = self.fn
        eid = fn.strip(eid)
        x = fn.e(eid)
        if x is None or depth > 12:
            return Lin(0, {"?%s" % eid: 1})
        if "cv" in x and isinstance(x["cv"], int):
            return Lin(x["cv"])
        k = x["k"]
        if k == "ref" and x.get("dk") in ("local", "parm"):
            st = self.facts_at(at) or frozenset()
            ds = [f for f in st if f[0] == "def" and f[1] == x["did"]]
            if len(ds) == 1 and ds[0][2] is not None:
                return self.lin(ds[0][2], at, depth + 1)
            return Lin(0, {x["name"]: 1})
        if k == "binop":
            if x["op"] == "+":
                return self.lin(x["lhs"], at, depth + 1).add(self.lin(x["rhs"], at, depth + 1))
            if x["op"] == "-":
                return self.lin(x["lhs"], at, depth + 1).add(self.lin(x["rhs"], at, depth + 1), -1)
            if x["op"] == "*":
                a, b = self.lin(x["lhs"], at, depth + 1), self.lin(x["rhs"], at, depth + 1)
                if a.is_const():
                    return Lin().add(b, a.c)
                if b.is_const():
                    return Lin().add(a, b.c)
        if k in ("call", "mcall") and x.get("cn") in ("min", "max") and len(x.get("args", [])) == 2:
            a, b = self.lin(x["args"][0], at, depth + 1), self.lin(x["args"][1], at, depth + 1)
            return Lin(0, {(x["cn"], a.key(), b.key()): 1})
        return Lin(0, {self.canon(eid): 1})

    def canon(self, eid):
        return " ".join(self.fn.text(eid).split())

    def cmp_facts(self, at):
        """Linear facts F <= 0 that hold at `at` from dominating branch conditions."""
        out = []
        st = self.m.before(at) or frozenset()
        for f in st:
            if f[0] != "cond":
                continue
            _, atom, holds = f
            x = self.fn.e(atom)
            if not x or x["k"] != "binop" or x["op"] not in ("<", "<=", ">", ">=", "==", "!="):
                continue
            l, r = self.lin(x["lhs"], atom), self.lin(x["rhs"], atom)
            op = x["op"]
            if not holds:
                op = {"<": ">=", "<=": ">", ">": "<=", ">=": "<", "==": "!=", "!=": "=="}[op]
            d = l.add(r, -1)          # l - r
            if op == "<":
                out.append(d.add(Lin(1)))      # l - r + 1 <= 0
            elif op == "<=":
                out.append(d)
            elif op == ">":
                out.append(Lin().add(d, -1).add(Lin(1)))
            elif op == ">=":
                out.append(Lin().add(d, -1))
            elif op == "==":
                out.append(d)
                out.append(Lin().add(d, -1))
        return out

    def prove_le0(self, e, facts, depth=0):
        """Try to show e <= 0."""
        if e.is_const():
            return e.c <= 0
        if depth > 4:
            return False
        # min/max atoms
        for a, v in list(e.t.items()):
            if isinstance(a, tuple) and a[0] in ("min", "max"):
                la, lb = Lin(a[1][0], dict(a[1][1])), Lin(a[2][0], dict(a[2][1]))
                rest = Lin(e.c, {k: w for k, w in e.t.items() if k != a})
                if (a[0] == "min" and v > 0) or (a[0] == "max" and v < 0):
                    # min(x,y) <= x and <= y: bounding by either operand is sound
                    for alt in (la, lb):
                        if self.prove_le0(rest.add(alt, v), facts, depth + 1):
                            return True
                    return False
                else:
                    # need both operands
                    return all(self.prove_le0(rest.add(alt, v), facts, depth + 1) for alt in (la, lb))
        for f in facts:
            d = e.add(f, -1)           # e <= f + d ; f <= 0 ; need d <= 0
            if d.is_const() and d.c <= 0:
                return True
        # combine two facts
        for f in facts:
            d = e.add(f, -1)
            if len(d.t) < len(e.t) or depth == 0:
                if self.prove_le0(d, [g for g in facts if g is not f], depth + 2):
                    return True
        return False


class _DefMust(Must):
    """Must-analysis carrying (def, did, rhs) with kill of older defs of the same variable, plus
    (cond, atom, holds) facts from branch edges (killed when a variable they mention is redefined)."""

    def __init__(self, fn, defs):
        self.defs_map = defs
        mentions = {}

        def vars_of(eid):
            if eid not in mentions:
                s = set()
                for j in fn.walk(eid):
                    y = fn.e(j)
                    if y["k"] == "ref" and "did" in y:
                        s.add(y["did"])
                mentions[eid] = s
            return mentions[eid]
        self.vars_of = vars_of

        def elem_fx(eid, x):
            if eid in defs:
                return ("DEFS", eid)
            return None

        def edge_fx(b, si, atom, holds):
            return [("cond", atom, holds)]
        super().__init__(fn, elem_fx, edge_fx)

    def _apply(self, s, r):
        _, eid = r
        for did, rhs in self.defs_map[eid]:
            s = {f for f in s if not (f[0] == "def" and f[1] == did)}
            s = {f for f in s if not (f[0] == "cond" and did in self.vars_of(f[1]))}
            s.add(("def", did, rhs))
        return s

    def _transfer(self, b, st):
        s = set(st)
        for el, r in self.fx[b]:
            if r:
                s = self._apply(s, r)
        return frozenset(s)

    def before(self, eid):
        pos = self.fn.block_of().get(eid)
        if not pos:
            return None
        b, idx = pos
        if b not in self.IN:
            return None
        s = set(self.IN[b])
        for el, r in self.fx[b]:
            if el == eid:
                break
            if r:
                s = self._apply(s, r)
        return frozenset(s)
