"""R-EVEX-FEATURE-DB-AGREE (C12): query_features() reports the AVX-512 features exactly for the operand shapes that only EVEX can encode.

Many mnemonics have a VEX form (AVX / AVX2 / FMA / F16C ...) and an EVEX form (AVX-512).  query_features() starts from the union of the
features of all forms and then decides `use_evex`: from the operands in general (a zmm or k register, registers 16..31, {k}, EVEX
options) and from a per-instruction special case in a switch for the shapes where only the operand *kinds* tell the two apart
(`vpbroadcastb xmm, r32`, `vcvtpd2dq ymm, m512`, two-operand gathers, `vpslld xmm, m128, imm8`, `vpermq ymm, ymm, ymm` ...).
Depending on `use_evex` the AVX or the AVX-512 features are removed.

For every mnemonic that has both VEX and EVEX forms in db/isa_x86.json and every operand shape of those forms (each reg/mem
alternative, registers 0..15, no decoration) the decision is computed from the source - the general part from the operand kinds, the
special case by folding the predicate of the instruction's `case` over the shape (lib/exprfold.py) - and compared with the database:
EVEX must be chosen iff no VEX form has that shape (or the instruction prefers EVEX and an EVEX form has it)."""
import itertools
from . import cfg, x86db
from .exprfold import Folder, Unknown

SKIP_EXT = {"APX_F", "AVX10_1", "AVX10_2"}
REGCLASS = {"xmm": "xmm", "ymm": "ymm", "zmm": "zmm", "k": "k", "r8": "gp", "r16": "gp", "r32": "gp", "r64": "gp", "r8lo": "gp", "r8hi": "gp",
            "mm": "mm", "tmm": "tmm"}


def shapes(form):
    """all operand shapes of one database form: tuples of ('reg', class, width) / ('mem', bits) / ('imm',)"""
    alts = []
    for o in form["ops"]:
        if o.get("implicit"):
            continue
        a = []
        if o.get("reg"):
            r = o["reg"]
            a.append(("reg", REGCLASS.get(r, r), r))
        if o.get("mem"):
            a.append(("mem", o.get("memSize"), o["mem"]))
        if o.get("imm"):
            a.append(("imm", 0, ""))
        if o.get("rel"):
            a.append(("rel", 0, ""))
        if not a:
            return []
        alts.append(a)
    return list(itertools.product(*alts))


def shape_key(sh):
    return tuple((k, c) if k != "reg" else (k, c, w if c == "gp" else "") for k, c, w in sh)


def run(chk, rule="R-EVEX-FEATURE-DB-AGREE", floor=300):
    chk.rule(rule, "x86 query_features(): for every mnemonic with VEX and EVEX forms in db/isa_x86.json and every operand shape of those forms "
                   "(registers 0..15, no {k}/{z}/broadcast/options), `use_evex` - zmm or k operand, or the instruction's special-case predicate "
                   "folded over the shape, or kPreferEvex - is true exactly when no VEX form has that shape (EVEX preferred: when an EVEX form has "
                   "it): the reported features are those of the encoding the assembler emits")
    f = chk.facts("asmjit/x86/x86instapi.cpp", funcs=r"asmjit::x86::InstInternal::query_features$", enums=r"asmjit::x86::Inst::Id$")
    fns = [g for g in cfg.load_functions(f) if g.file.endswith("x86instapi.cpp")]
    chk.need(fns, "query_features not found")
    fn = fns[0]
    ids = {v: n[3:].lower() for n, v in f["enums"]["asmjit::x86::Inst::Id"]["enumerators"] if n.startswith("kId")}
    # the special cases: `use_evex |= <pred>` statements and the case labels that lead to them
    stmts = {}
    for i, x in fn.ex.items():
        if x["k"] == "binop" and x["op"] == "|=":
            l = fn.e(fn.strip(x["lhs"]))
            if l is not None and l.get("name") == "use_evex":
                stmts[i] = x["rhs"]
    chk.need(len(stmts) >= 5, "query_features: `use_evex |= ...` special cases not found")
    # `case A: case B: use_evex |= <pred>; break;` - grouped labels share one CFG block, so the cases are taken from the switch
    # statement itself: a case belongs to the first special-case statement that follows it in the source
    stmt_lines = sorted((fn.line_of(i), i) for i in stmts)
    pred_of = {}
    for i, x in fn.ex.items():
        if x["k"] != "s:SwitchStmt":
            continue
        cases = [c for c in x.get("cases", []) if c.get("v") in ids]
        if len(cases) < 10 or not (stmt_lines[0][0] - 40 <= min(c["l"] for c in cases) <= stmt_lines[-1][0]):
            continue
        for c in cases:
            nxt = [(l, si) for l, si in stmt_lines if l > c["l"]]
            if nxt:
                pred_of[ids[c["v"]]] = stmts[nxt[0][1]]
    chk.need(len(pred_of) >= 20, "query_features: case labels of the special cases not resolved (%d)" % len(pred_of))

    ft = chk.facts("asmjit/x86/x86instdb.cpp", tables=r"asmjit::x86::InstDB::(_inst_info_table|_inst_common_info_table)$",
                   enums=r"asmjit::x86::InstDB::InstFlags$|asmjit::x86::Inst::Id$")
    fl = {n: v for n, v in ft["enums"]["asmjit::x86::InstDB::InstFlags"]["enumerators"]}
    info = ft["tables"]["asmjit::x86::InstDB::_inst_info_table"]["value"]
    common = ft["tables"]["asmjit::x86::InstDB::_inst_common_info_table"]["value"]
    prefer = {}
    for v, nm in ids.items():
        if v < len(info):
            prefer[nm] = bool(common[info[v]["_common_info_index"]]["_flags"] & fl["kPreferEvex"])

    db = x86db.load_db(chk)
    by_name = {}
    for e in db:
        if set(e.get("ext") or ()) & SKIP_EXT or e.get("prefix") not in ("VEX", "EVEX"):
            continue
        by_name.setdefault(e["name"], []).append(e)

    def fold(pred, sh):
        def leaf(text, node):
            if node["k"] == "ref" and node.get("name") == "op_count":
                return len(sh)
            if node["k"] == "mcall" and node.get("obj") is not None:
                o = fn.e(fn.strip(node["obj"]))
                if o is not None and o["k"] == "subscript":
                    ix = fn.e(fn.strip(o.get("idx", o.get("index"))))
                    k = ix.get("cv") if ix is not None else None
                    if isinstance(k, int):
                        if k >= len(sh):
                            return 0
                        kind, cls, w = sh[k]
                        m = node.get("cn")
                        table = {"is_mem": kind == "mem", "is_imm": kind == "imm", "is_reg": kind == "reg", "is_gp": kind == "reg" and cls == "gp",
                                 "is_vec": kind == "reg" and cls in ("xmm", "ymm", "zmm"), "is_vec128": kind == "reg" and cls == "xmm",
                                 "is_vec256": kind == "reg" and cls == "ymm", "is_vec512": kind == "reg" and cls == "zmm",
                                 "is_mask_reg": kind == "reg" and cls == "k", "is_none": False}
                        if m in table:
                            return int(table[m])
            raise Unknown()
        return Folder({}, leaf, width=32).fold(fn, pred)

    n = 0
    for name in sorted(by_name):
        forms = by_name[name]
        vex = [e for e in forms if e["prefix"] == "VEX"]
        evex = [e for e in forms if e["prefix"] == "EVEX"]
        if not vex or not evex or name not in prefer:
            continue
        vex_shapes = {shape_key(s) for e in vex for s in shapes(e)}
        evex_shapes = {shape_key(s) for e in evex for s in shapes(e)}
        seen = set()
        for e in forms:
            for sh in shapes(e):
                key = shape_key(sh)
                if key in seen:
                    continue
                seen.add(key)
                in_vex, in_evex = key in vex_shapes, key in evex_shapes
                expected = in_evex and (not in_vex or prefer[name])
                base = any(k == "reg" and c in ("zmm", "k") for k, c, w in sh) or any(k == "mem" and str(w).startswith(("vm32z", "vm64z")) for k, c, w in sh)
                special = 0
                unk = False
                if name in pred_of:
                    try:
                        special = fold(pred_of[name], sh)
                    except Unknown:
                        unk = True
                computed = bool(base or special or prefer[name])
                n += 1
                txt = ", ".join(w if k == "reg" else (w or k) for k, c, w in sh)
                chk.ob(rule, "%s|%s" % (name, txt), (computed == expected) and not unk, loc="asmjit/x86/x86instapi.cpp:%d" % fn.line,
                       detail="`%s %s`: the database has %s for this shape, query_features() decides use_evex = %s (general part %s, special case %s): "
                              "it reports the %s features for an instruction the assembler emits with the other prefix" %
                              (name, txt, "a VEX form" + (" and an EVEX form" if in_evex else "") if in_vex else "only an EVEX form", int(computed), int(base),
                               "not foldable" if unk else int(bool(special)), "AVX-512" if computed else "AVX/AVX2"),
                       key="evexfeat|%s|%s" % (name, txt))
    chk.floor(rule + ":shapes", n, floor)
    return n


# ------------------------------------------------------------------------------------------------------------------- AVX vs AVX2
UNK_DEBUG = None
REGTYPE_OF = {"xmm": "kVec128", "ymm": "kVec256", "zmm": "kVec512", "k": "kMask", "mm": "kX86_Mm"}


class _Ret(Exception):
    def __init__(self, v):
        self.v = v


HELPERS = {}          # qualified name -> Fn of unit-local helpers that the evaluator may enter (set by the rule that uses it)


def _top_compound(g):
    par = g.parent_map()
    tops = [i for i, x in g.ex.items() if x["k"] == "s:CompoundStmt" and i not in par]
    return tops[0] if tops else min(i for i, x in g.ex.items() if x["k"] == "s:CompoundStmt")


def _call_helper(fn, node, fold_arg, leaf_base, hooks, depth=0):
    """value of a call of a unit-local helper: the callee's (loop-free) body is evaluated with the foldable arguments bound to its
    parameters; arguments that are objects stay opaque - the leaf answers method calls on them by method name"""
    g = HELPERS.get(node.get("callee"))
    if g is None or g is fn or depth > 3:
        raise Unknown()
    env2 = {}
    for pi, a in enumerate(node.get("args", [])):
        if pi < len(g.params):
            try:
                env2[g.params[pi]["did"]] = fold_arg(a)
            except Unknown:
                pass
    try:
        _eval_stmt(g, _top_compound(g), env2, leaf_base, hooks)
    except _Ret as r:
        return r.v
    raise Unknown()


def _eval_stmt(fn, stmt, env, leaf_base, hooks=None):
    """evaluates a loop-free statement over an environment of locals (did -> value): compound statements, if statements, declarations,
    assignments to locals and `return <expr>` (raises _Ret); expressions are folded with lib/exprfold.py"""
    x = fn.e(stmt)
    if x is None:
        return

    def leaf(text, node):
        if node["k"] == "ref" and node.get("did") in env:
            return env[node["did"]]
        if node["k"] == "call" and node.get("cn") == "__builtin_expect" and node.get("args"):
            return fold(node["args"][0])           # ASMJIT_LIKELY / ASMJIT_UNLIKELY
        if node["k"] == "call" and node.get("callee") in HELPERS:
            return _call_helper(fn, node, fold, leaf_base, hooks)
        if getattr(leaf_base, "wants_fn", False):
            return leaf_base(text, node, fn)        # node ids belong to the function being evaluated (a helper's body, too)
        return leaf_base(text, node)

    def fold(e):
        return Folder({}, leaf, width=64).fold(fn, e)
    k = x["k"]
    if k == "s:CompoundStmt":
        for c in x.get("ch", []):
            _eval_stmt(fn, c, env, leaf_base, hooks)
    elif k == "s:IfStmt":
        rest = [c for c in x.get("ch", []) if c != x["cond"]]
        if fold(x["cond"]):
            if rest:
                _eval_stmt(fn, rest[0], env, leaf_base, hooks)
        elif len(rest) > 1:
            _eval_stmt(fn, rest[1], env, leaf_base, hooks)
    elif k == "decl":
        for v in x["vars"]:
            if v.get("init") is not None:
                env[v["did"]] = fold(v["init"])
    elif k == "return":
        raise _Ret(fold(x["val"]) if x.get("val") is not None else None)
    elif k == "goto":
        raise _Ret(("goto", x.get("label")))
    elif k in ("mcall", "call") and hooks is not None and x.get("cn") in hooks:
        hooks[x["cn"]]([fold(a) for a in x.get("args", [])])
    elif k == "binop" and x["op"] == "=":
        l = fn.e(fn.strip(x["lhs"]))
        if l is not None and l["k"] == "ref" and l.get("dk") == "local":
            try:
                env[l["did"]] = fold(x["rhs"])
            except Unknown:
                if hooks is None:
                    raise
                env.pop(l["did"], None)       # a pointer / object local that the decision does not depend on
        else:
            raise Unknown()
    elif k == "binop" and x["op"] in ("<<=", ">>=", "|=", "&=", "+=", "-=", "*="):
        l = fn.e(fn.strip(x["lhs"]))
        if l is not None and l["k"] == "ref" and l.get("did") in env:
            a, b = env[l["did"]], fold(x["rhs"])
            env[l["did"]] = {"<<=": a << b, ">>=": a >> b, "|=": a | b, "&=": a & b, "+=": a + b, "-=": a - b, "*=": a * b}[x["op"]] & ((1 << 64) - 1)
        else:
            raise Unknown()
    elif k in ("s:NullStmt", "s:DeclStmt"):
        for c in x.get("ch", []):
            _eval_stmt(fn, c, env, leaf_base)
    elif k.startswith("s:"):
        raise Unknown()


def _fold_decision(fn, stmt, did, value, leaf_factory):
    """value of the bool local `did` after the (loop-free) statement `stmt`: compound statements, if statements and assignments of
    constants to the local; conditions are folded with lib/exprfold.py"""
    x = fn.e(stmt)
    if x is None:
        return value
    if x["k"] == "s:CompoundStmt":
        for c in x.get("ch", []):
            value = _fold_decision(fn, c, did, value, leaf_factory)
        return value
    if x["k"] == "s:IfStmt":
        ch = x.get("ch", [])
        c = Folder({}, leaf_factory(), width=32).fold(fn, x["cond"])
        rest = [k for k in ch if k != x["cond"]]
        if c:
            return _fold_decision(fn, rest[0], did, value, leaf_factory) if rest else value
        return _fold_decision(fn, rest[1], did, value, leaf_factory) if len(rest) > 1 else value
    if x["k"] == "binop" and x["op"] == "=":
        l = fn.e(fn.strip(x["lhs"]))
        r = fn.e(fn.strip(x["rhs"]))
        if l is not None and l.get("did") == did and r is not None and isinstance(r.get("cv"), int):
            return bool(r["cv"])
    return value


def _leaf_for(fn0, sh, mask, name, idv):
    def leaf(text, node, fn=None):
        fn = fn or fn0
        if node["k"] == "ref" and node.get("name") == "op_count":
            return len(sh)
        if node["k"] == "ref" and node.get("name") == "inst_id":
            return idv[name]
        nm = node.get("cvn") if (node.get("cvn") or "").startswith("kId") else node.get("name")
        if (nm or "").startswith("kId") and nm[3:].lower() in idv:
            return idv[nm[3:].lower()]
        if node["k"] == "member" and node.get("field") == "reg_type_mask":
            return mask
        if node["k"] in ("call", "mcall") and node.get("cn") == "bit_mask" and node.get("args"):
            v_ = 0
            for a_ in node["args"]:
                ax_ = fn.e(fn.strip(a_))
                if ax_ is None or not isinstance(ax_.get("cv"), int):
                    raise Unknown()
                v_ |= 1 << ax_["cv"]
            return v_
        if node["k"] == "mcall" and node.get("obj") is not None:
            o = fn.e(fn.strip(node["obj"]))
            if o is not None and o["k"] == "subscript":
                ix = fn.e(fn.strip(o.get("idx", o.get("index"))))
                k = ix.get("cv") if ix is not None else None
                if isinstance(k, int) and k < len(sh):
                    kind = sh[k][0]
                    t = {"is_mem": kind == "mem", "is_imm": kind == "imm", "is_reg": kind == "reg"}
                    if node.get("cn") in t:
                        return int(t[node["cn"]])
        raise Unknown()
    leaf.wants_fn = True
    return leaf


def run_avx2(chk, rule="R-AVX2-FEATURE-DB-AGREE", floor=100):
    chk.rule(rule, "x86 query_features(): for every mnemonic whose VEX forms are split between AVX and AVX2 in db/isa_x86.json and every operand "
                   "shape of those forms, the `is_avx2` decision - folded from the source over the shape (vbroadcastss/sd by the kind of the "
                   "source, everything else by the presence of a ymm register) - is true exactly when only an AVX2 form has that shape")
    f = chk.facts("asmjit/x86/x86instapi.cpp", funcs=r"asmjit::x86::InstInternal::query_features$", enums=r"asmjit::x86::Inst::Id$|asmjit::RegType$")
    fns = [g for g in cfg.load_functions(f) if g.file.endswith("x86instapi.cpp")]
    chk.need(fns, "query_features not found")
    fn = fns[0]
    idv = {n[3:].lower(): v for n, v in f["enums"]["asmjit::x86::Inst::Id"]["enumerators"] if n.startswith("kId")}
    rtv = {n: v for n, v in f["enums"]["asmjit::RegType"]["enumerators"]}
    decl = None
    for i, x in fn.ex.items():
        if x["k"] == "decl" and any(v["name"] == "is_avx2" for v in x["vars"]):
            decl = (i, [v for v in x["vars"] if v["name"] == "is_avx2"][0])
    chk.need(decl is not None, "query_features: local is_avx2 not found")
    par = fn.parent_map()
    comp = par.get(decl[0])
    chk.need(comp is not None and fn.e(comp)["k"] == "s:CompoundStmt", "query_features: is_avx2 is not declared in a compound statement")
    did = decl[1]["did"]
    init = fn.e(fn.strip(decl[1]["init"])) if decl[1].get("init") is not None else None
    # the initialiser may be a constant, an expression over the operands or a call of a unit-local helper: all are evaluated
    fh = chk.facts("asmjit/x86/x86instapi.cpp", funcs=r"asmjit::x86::[A-Za-z_0-9:]+$")
    HELPERS.clear()
    HELPERS.update({g.name: g for g in cfg.load_functions(fh) if g.file.endswith("x86instapi.cpp") and g.name != fn.name})
    chk.need(init is not None, "query_features: is_avx2 has no initialiser")
    after = [c for c in fn.e(comp)["ch"] if fn.line_of(c) > fn.line_of(decl[0])]
    stmts = [c for c in after if fn.e(c)["k"] == "s:IfStmt"]

    db = x86db.load_db(chk)
    by_name = {}
    for e in db:
        if e.get("prefix") != "VEX" or set(e.get("ext") or ()) & SKIP_EXT:
            continue
        by_name.setdefault(e["name"], []).append(e)
    n = 0
    for name in sorted(by_name):
        forms = by_name[name]
        avx = [e for e in forms if "AVX" in (e.get("ext") or []) and "AVX2" not in e["ext"]]
        avx2 = [e for e in forms if "AVX2" in (e.get("ext") or [])]
        if not avx or not avx2 or name not in idv:
            continue
        s1 = {shape_key(s) for e in avx for s in shapes(e)}
        s2 = {shape_key(s) for e in avx2 for s in shapes(e)}
        seen = set()
        for e in avx + avx2:
            for sh in shapes(e):
                key = shape_key(sh)
                if key in seen:
                    continue
                seen.add(key)
                expected = key in s2 and key not in s1
                mask = 0
                for k, c, w in sh:
                    if k == "reg" and c in REGTYPE_OF and REGTYPE_OF[c] in rtv:
                        mask |= 1 << rtv[REGTYPE_OF[c]]
                    elif k == "mem":
                        mask |= 1 << rtv["kGp64"]
                        if str(w).startswith(("vm32x", "vm64x")):
                            mask |= 1 << rtv["kVec128"]
                        if str(w).startswith(("vm32y", "vm64y")):
                            mask |= 1 << rtv["kVec256"]

                unk = False
                computed = None
                try:
                    env = {}
                    base = _leaf_for(fn, sh, mask, name, idv)
                    _eval_stmt(fn, decl[0], env, base)
                    for st in stmts:
                        _eval_stmt(fn, st, env, base)
                    computed = bool(env[did])
                except Unknown:
                    unk = True
                n += 1
                txt = ", ".join(w if k == "reg" else (w or k) for k, c, w in sh)
                chk.ob(rule, "%s|%s" % (name, txt), (computed == expected) and not unk, loc=fn.loc(decl[0]),
                       detail="`%s %s`: in the database this shape belongs to %s, query_features() decides is_avx2 = %s%s" %
                              (name, txt, "AVX2 only" if expected else "AVX", computed, " (not foldable)" if unk else ""), key="avx2feat|%s|%s" % (name, txt))
    chk.floor(rule + ":shapes", n, floor)
    return n
