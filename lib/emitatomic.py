"""R-EMIT-ATOMIC for an instruction emit function (DESIGN.md section 2).

(a) every `return Error::kOk` is preceded on all paths by reset_state() and writer.done();
    every `return report_error(..)` by reset_state(), except the named not-attached exit;
    every other return is the value of log_instruction_failed() (its own order is checked by
    R-MUST-PRECEDE) or an error propagated before anything was committed;
(b) after writer.done() no failing return is reachable;
(c) after a commit call (new_reloc_entry / new_fixup / add_address_to_address_table) no
    input-validation error label is reachable: only OutOfMemory / Failed may follow.
"""
from .must import Must

COMMIT_CALLS = {"new_reloc_entry", "new_fixup", "add_address_to_address_table"}
ALLOWED_AFTER_COMMIT = {"OutOfMemory", "Failed"}


def analyse(chk, fn, unit, rule, exceptions, writer_done="done", require_done=True):
    short = fn.name.replace("asmjit::", "")

    def elem_fx(eid, x):
        if x["k"] in ("call", "mcall"):
            cn = x.get("cn")
            if cn == "reset_state":
                return ((("reset",),), ())
            if cn in ("reset_inst_options", "reset_extra_reg", "reset_inline_comment"):
                return (((cn,),), ())
            if cn == writer_done and x["k"] == "mcall" and "Writer" in x.get("cls", ""):
                return ((("done",),), ())
        return None
    m = Must(fn, elem_fx, None)

    nret = 0
    ords = {}
    for b, idx, r in fn.return_sites():
        x = fn.e(r)
        nret += 1
        val = fn.e(fn.strip(x.get("val", 0))) if x.get("val") else None
        st = m.before(r) or frozenset()
        if all((n,) in st for n in ("reset_inst_options", "reset_extra_reg", "reset_inline_comment")):
            st = st | {("reset",)}
        if x.get("cvn") == "kOk":
            kind = "return-ok"
            need = [("reset",)] + ([("done",)] if require_done else [])
            ok = all(n in st for n in need)
            det = "success exit without reset_state()%s on every path" % (" and writer.done()" if require_done else "")
        elif val and val["k"] in ("call", "mcall") and val.get("cn") == "log_instruction_failed":
            kind = "return-log-failed"
            ok, det = True, ""
        elif val and val["k"] in ("call", "mcall") and val.get("cn") == "report_error":
            kind = "return-report-error"
            ok = ("reset",) in st
            det = "failing exit reports the error without clearing the one-shot instruction state first"
        else:
            kind = "return-other"
            ok = ("reset",) in st
            det = "exit `return %s` leaves the one-shot instruction state set" % fn.text(x.get("val", 0))[:50]
        o = ords.get(kind, 0)
        ords[kind] = o + 1
        inst = "%s|%s#%d" % (short, kind, o)
        if not ok and inst in exceptions:
            chk.ob(rule, inst, True, loc=fn.loc(r), detail="accepted: " + exceptions[inst])
        else:
            chk.ob(rule, inst, ok, loc=fn.loc(r), detail=det, key="emitatomic|" + inst)

    # (b) nothing fails after writer.done()
    pos = fn.block_of()
    ndone = 0
    for i, x in fn.calls(lambda x: x.get("cn") == writer_done and x["k"] == "mcall" and "Writer" in x.get("cls", "")):
        ndone += 1
        b0, idx0 = pos.get(i, (None, None))
        if b0 is None:
            continue
        bad = None
        blocks = fn.reachable_from(b0)
        for b, idx, r in fn.return_sites():
            if b in blocks and (b != b0 or idx > idx0) and fn.e(r).get("cvn") != "kOk":
                bad = r
        chk.ob(rule, "%s|no-failure-after-done#%d" % (short, ndone), bad is None, loc=fn.loc(bad or i),
               detail="a failing return is reachable after writer.done() committed the bytes")

    # (c) no validation error label after a commit call
    labels = fn.label_blocks()
    err_labels = {}
    for i, x in fn.ex.items():
        if x["k"] == "label" and (x.get("m") == "ERROR_HANDLER" or x["name"] == "Failed"):
            if x["name"] in labels:
                err_labels[labels[x["name"]]] = x["name"]
    ncommit = 0
    cords = {}
    for i, x in sorted(fn.calls(lambda x: x.get("cn") in COMMIT_CALLS), key=lambda t: t[1]["l"]):
        ncommit += 1
        b0, idx0 = pos.get(i, (None, None))
        if b0 is None:
            continue
        reach = fn.reachable_from(b0)
        hit = sorted({err_labels[b] for b in reach if b in err_labels and b != b0} - ALLOWED_AFTER_COMMIT)
        o = cords.get(x["cn"], 0)
        cords[x["cn"]] = o + 1
        inst = "%s|after-%s#%d" % (short, x["cn"], o)
        if hit and inst in exceptions:
            chk.ob(rule, inst, True, loc=fn.loc(i), detail="accepted: " + exceptions[inst])
        else:
            chk.ob(rule, inst, not hit, loc=fn.loc(i),
                   detail="input-validation exits %s are still reachable after %s() committed state to the CodeHolder" % (hit, x["cn"]),
                   key="emitatomic|" + inst)
    return {"returns": nret, "done_calls": ndone, "commit_calls": ncommit, "error_labels": len(err_labels)}
