"""Relational forward analysis: the abstract state is a SET of path states (facts, flags), where
`flags` records the exact value of bool locals that are only ever assigned literal true/false (or a
literal initialiser).  Branches on such a flag filter the path states, so a rule's facts stay correlated
with flag-mediated control flow (`bool resolved = true; ... resolved = false; ... if (resolved) ...`).
A fact holds "on every path" at a point iff it is in every path state there."""
from .cfg import forward
from .must import branch_atoms

CAP = 256


class Relational:
    def __init__(self, fn, elem_fx=None, edge_fx=None, switch_fx=None):
        """elem_fx(eid, x, facts) -> (adds, kills) or None;  edge_fx(block, succ_index, atom, holds, facts) -> adds;
        switch_fx(switch block, label dict of the successor, facts) -> adds on the edge into a case / default label."""
        self.fn = fn
        self.elem_fx = elem_fx
        self.edge_fx = edge_fx
        self.switch_fx = switch_fx
        self.atoms = branch_atoms(fn)
        self.flags = self._find_flags()
        self.IN, self.OUT = forward(fn, frozenset({(frozenset(), frozenset())}), self._transfer, self._join, edge=self._edge)

    def _find_flags(self):
        fn = self.fn
        cand, bad = {}, set()
        for i, x in fn.ex.items():
            if x["k"] == "decl":
                for v in x["vars"]:
                    if v["ty"].replace("const ", "").strip() == "bool":
                        iv = fn.e(fn.strip(v["init"])) if v.get("init") else None
                        if iv is not None and iv["k"] == "bool":
                            cand[v["did"]] = True
                        else:
                            bad.add(v["did"])
            elif x["k"] == "binop" and x["op"].endswith("=") and x["op"] not in ("==", "!=", "<=", ">="):
                l = fn.e(fn.strip(x["lhs"]))
                if l and l["k"] == "ref" and "did" in l and "bool" in l.get("ty", ""):
                    r = fn.e(fn.strip(x["rhs"]))
                    if not (x["op"] == "=" and r is not None and r["k"] == "bool"):
                        bad.add(l["did"])
            elif x["k"] == "unop" and x["op"] == "&":
                l = fn.e(fn.strip(x["sub"]))
                if l and l["k"] == "ref" and "did" in l:
                    bad.add(l["did"])
        return {d for d in cand if d not in bad}

    def _step(self, el, state):
        fn = self.fn
        x = fn.e(el)
        if not x:
            return state
        out = set()
        for facts, flags in state:
            fl = flags
            if x["k"] == "decl":
                for v in x["vars"]:
                    if v["did"] in self.flags:
                        iv = fn.e(fn.strip(v["init"]))
                        fl = frozenset(f for f in fl if f[0] != v["did"]) | {(v["did"], bool(iv.get("cv")))}
            elif x["k"] == "binop" and x["op"] == "=":
                l = fn.e(fn.strip(x["lhs"]))
                if l and l.get("did") in self.flags:
                    r = fn.e(fn.strip(x["rhs"]))
                    fl = frozenset(f for f in fl if f[0] != l["did"]) | {(l["did"], bool(r.get("cv")))}
            fa = facts
            if self.elem_fx:
                r = self.elem_fx(el, x, facts)
                if r:
                    fa = frozenset((set(facts) - set(r[1])) | set(r[0]))
            out.add((fa, fl))
        return self._cap(out)

    def _cap(self, s):
        if len(s) > CAP:
            # collapse: keep the facts common to all path states, forget the flags
            common = None
            for fa, fl in s:
                common = set(fa) if common is None else common & fa
            return frozenset({(frozenset(common or ()), frozenset())})
        return frozenset(s)

    def _transfer(self, b, st):
        for el in self.fn.blocks[b]["elems"]:
            if isinstance(el, int):
                st = self._step(el, st)
        return st

    def _edge(self, b, si, succ, st):
        if b not in self.atoms:
            if self.switch_fx is not None and (self.fn.blocks[b].get("term") or {}).get("kind") == "SwitchStmt":
                lab = self.fn.blocks[succ].get("label") or {}
                out = set()
                for facts, flags in st:
                    adds = self.switch_fx(b, lab, facts)
                    out.add((frozenset(set(facts) | set(adds)) if adds else facts, flags))
                return frozenset(out)
            return st
        atom, pol = self.atoms[b]
        holds = (si == 0) == pol
        a = self.fn.e(atom)
        if a is not None and a.get("m") in ("ASMJIT_ASSERT", "ASMJIT_ASSUME", "ASMJIT_NOT_REACHED"):
            return st           # an assertion is not a check
        out = set()
        for facts, flags in st:
            if a and a["k"] == "ref" and a.get("did") in self.flags:
                known = [v for (d, v) in flags if d == a["did"]]
                if known and known[0] != holds:
                    continue            # this path state cannot take the edge
            fa = facts
            if self.edge_fx:
                adds = self.edge_fx(b, si, atom, holds, facts)
                if adds == "INFEASIBLE":
                    continue            # the rule knows that this path state cannot take the edge (the same test was decided the other way)
                if adds:
                    fa = frozenset(set(facts) | set(adds))
            out.add((fa, flags))
        return frozenset(out)

    @staticmethod
    def _join(states):
        s = set()
        for t in states:
            s |= t
        if len(s) > CAP:
            common = None
            for fa, fl in s:
                common = set(fa) if common is None else common & fa
            return frozenset({(frozenset(common or ()), frozenset())})
        return frozenset(s)

    def before(self, eid):
        """Set of path states just before element eid (None if unreachable)."""
        pos = self.fn.block_of().get(eid)
        if not pos or pos[0] not in self.IN:
            return None
        st = self.IN[pos[0]]
        for el in self.fn.blocks[pos[0]]["elems"]:
            if el == eid:
                break
            if isinstance(el, int):
                st = self._step(el, st)
        return st

    def must(self, eid, fact):
        st = self.before(eid)
        if st is None:
            return None
        return all(fact in fa for fa, fl in st)     # an empty set = infeasible point: vacuously true
