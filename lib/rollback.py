"""R-ROLLBACK-PAIR: acquire/release pairing on every failing exit, decided path-sensitively by
enumerating the paths of (small) functions.  Per path the rule tracks which Error locals are
known to be kOk / not kOk from the branch conditions taken, whether the resource is held, and
classifies each return as success or failure."""
from . import cfg
from .vbe import cond_atom


def enumerate_paths(fn, max_visits=2, limit=50000):
    """Yield paths as lists of (block id, successor index or None for the last block)."""
    out = []
    stack = [(fn.entry, [], {})]
    while stack:
        b, path, visits = stack.pop()
        if visits.get(b, 0) >= max_visits:
            continue
        v2 = dict(visits)
        v2[b] = v2.get(b, 0) + 1
        succs = fn.blocks[b]["succs"]
        live = [(si, s) for si, s in enumerate(succs) if s is not None]
        if not live or b == fn.exit:
            out.append(path + [(b, None)])
            if len(out) > limit:
                raise RuntimeError("too many paths in %s" % fn.name)
            continue
        for si, s in live:
            stack.append((s, path + [(b, si)], v2))
    return out


def err_compare(fn, atom):
    """If atom is `E == kOk` / `E != kOk` (E a local or a call) return (operand id, is_eq)."""
    x = fn.e(atom)
    if not x or x["k"] != "binop" or x["op"] not in ("==", "!="):
        return None
    for a, b in ((x["lhs"], x["rhs"]), (x["rhs"], x["lhs"])):
        bx = fn.e(fn.strip(b))
        if bx is not None and bx.get("cvn") == "kOk":
            return fn.strip(a), x["op"] == "=="
    return None


def check(fn, acquire, release, also_release=()):
    """acquire/release: predicates on call expr dicts.  Returns (list of violations, stats).
    A violation is (return expr id, description)."""
    viol = {}
    nret = 0
    paths = enumerate_paths(fn)
    # map: local did -> defining call id (Error e = call())
    defs = {}
    for i, x in fn.ex.items():
        if x["k"] == "decl":
            for v in x["vars"]:
                if v.get("init"):
                    defs.setdefault(v["did"], []).append(fn.strip(v["init"]))
        elif x["k"] == "binop" and x["op"] == "=":
            l = fn.e(fn.strip(x["lhs"]))
            if l and l["k"] == "ref" and "did" in l:
                defs.setdefault(l["did"], []).append(fn.strip(x["rhs"]))
    for path in paths:
        held = False
        pending = None          # id of the acquire call whose outcome is not yet known
        known = {}              # did or call id -> True (kOk) / False (failed)
        last_val = {}           # did -> call id currently stored
        for (b, si) in path:
            blk = fn.blocks[b]
            for el in blk["elems"]:
                if not isinstance(el, int):
                    continue
                x = fn.e(el)
                if not x:
                    continue
                if x["k"] in ("call", "mcall"):
                    if acquire(x):
                        pending = el
                        held = True   # optimistic until the failing edge of its result is taken
                    elif release(x) or any(r(x) for r in also_release):
                        held = False
                elif x["k"] == "decl":
                    for v in x["vars"]:
                        if v.get("init"):
                            last_val[v["did"]] = fn.strip(v["init"])
                            known.pop(v["did"], None)
                elif x["k"] == "binop" and x["op"] == "=":
                    l = fn.e(fn.strip(x["lhs"]))
                    if l and l["k"] == "ref" and "did" in l:
                        last_val[l["did"]] = fn.strip(x["rhs"])
                        known.pop(l["did"], None)
                elif x["k"] == "return":
                    nret += 1
                    success = None
                    if x.get("cvn") == "kOk":
                        success = True
                    elif "cvn" in x:
                        success = False
                    else:
                        v = fn.e(fn.strip(x.get("val", 0)))
                        if v and v["k"] == "ref" and v.get("did") in known:
                            success = known[v["did"]]
                        elif v and v["k"] == "ref" and v.get("did") in last_val and last_val[v["did"]] in known:
                            success = known[last_val[v["did"]]]
                        else:
                            success = False if (v is not None and v["k"] != "ref") else None
                    if held and success is not True:
                        viol.setdefault(el, "failing or unknown-outcome return with the resource still held")
            if si is None:
                continue
            term = blk.get("term")
            if term and term.get("cond") and len(blk["succs"]) == 2:
                atom, pol = cond_atom(fn, term["cond"])
                holds = (si == 0) == pol
                ec = err_compare(fn, atom)
                if ec:
                    opnd, is_eq = ec
                    ok = (is_eq == holds)
                    ox = fn.e(opnd)
                    key = None
                    if ox and ox["k"] == "ref" and "did" in ox:
                        key = ox["did"]
                        known[key] = ok
                        src = last_val.get(key)
                    else:
                        src = opnd
                    if src is not None:
                        known[src] = ok
                        if src == pending and not ok:
                            held = False
                        if src == pending:
                            pending = None
    return sorted(viol.items()), {"paths": len(paths), "returns_seen": nret}
