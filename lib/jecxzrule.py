"""R-JECXZ-COUNTER-DB-AGREE (C13, C01): jecxz / loop accept the counter registers the database lists, with the right address-size prefix.

db/isa_x86.json: `jecxz <cx>, rel8` / `loop* <cx>, rel8` exist with the 16-bit counter in 32-bit mode and the 32-bit counter in 64-bit
mode under the 67h prefix, and with the native counter (ecx / rcx) without it.  The explicit-counter branch of
`case kEncodingX86JecxzLoop` is evaluated from the source (loop-free statement evaluation, expressions folded) for both modes and
every counter size: the database's pairs must not be refused and must request the address-size override exactly for the
non-native size."""
from . import cfg
from .exprfold import Unknown
from . import evexfeatures
from .evexfeatures import _eval_stmt, _Ret

VALID = {32: (2, 4), 64: (4, 8)}


def run(chk, unit="asmjit/x86/x86assembler.cpp", rule="R-JECXZ-COUNTER-DB-AGREE"):
    chk.rule(rule, "x86 _emit, case kEncodingX86JecxzLoop, explicit counter: evaluated from the source for 32- and 64-bit mode and the counter "
                   "sizes the database lists (cx / ecx in 32-bit mode, ecx / rcx in 64-bit mode) the branch does not leave through an error "
                   "label and passes `true` to emit_address_override() exactly for the non-native counter size")
    f = chk.facts(unit, funcs=r"x86::Assembler::_emit$")
    fn = cfg.find_fn(f, "x86::Assembler::_emit")
    case = None
    for i, x in fn.ex.items():
        if x["k"] == "s:SwitchStmt":
            for c in x.get("cases", []):
                if c.get("n", "").endswith("kEncodingX86JecxzLoop"):
                    case = c["l"]
    chk.need(case is not None, "case kEncodingX86JecxzLoop not found")
    block = None
    for i, x in sorted(fn.ex.items()):
        if x["k"] == "s:IfStmt" and case <= fn.line_of(i) <= case + 6 and x.get("cond") is not None:
            c = fn.e(fn.strip(x["cond"]))
            if c is not None and c["k"] == "mcall" and c.get("cn") == "is_reg":
                block = i
                break
    chk.need(block is not None, "JecxzLoop: the explicit-counter branch `if (o0.is_reg())` not found")
    fh = chk.facts(unit, funcs=r"asmjit::x86::[a-z_0-9]+$")
    evexfeatures.HELPERS.clear()
    evexfeatures.HELPERS.update({g.name: g for g in cfg.load_functions(fh) if g.file.endswith(unit.split("/")[-1])})
    n = 0
    for mode in (32, 64):
        for size in VALID[mode]:
            def leaf(text, node, mode=mode, size=size):
                if node["k"] == "mcall":
                    cn = node.get("cn")
                    t = {"is_reg": 1, "is_gp": 1, "x86_rm_size": size, "size": size, "is_32bit": int(mode == 32), "is_64bit": int(mode == 64), "register_size": mode // 8}
                    if cn in t:
                        return t[cn]
                if isinstance(node.get("cv"), int):
                    return node["cv"]
                raise Unknown()
            seen = []
            refused, unk = None, False
            try:
                _eval_stmt(fn, block, {}, leaf, hooks={"emit_address_override": lambda a: seen.append(a[0] if a else None)})
            except _Ret as r:
                refused = r.v
            except Unknown:
                unk = True
            want = size != mode // 8
            ok = (not unk) and refused is None and len(seen) == 1 and bool(seen[0]) == want
            n += 1
            chk.ob(rule, "JecxzLoop|%d-bit|counter=%d" % (mode, size), ok, loc=fn.loc(block),
                   detail="%d-bit mode, %d-byte counter register (a database form): the branch %s; expected acceptance with address-size override = %s" %
                          (mode, size, "could not be evaluated" if unk else ("leaves through %s" % (refused,) if refused is not None else
                           "requests override = %s" % (seen[:1] or "nothing")), want), key="jecxz|%d|%d" % (mode, size))
    chk.floor(rule + ":cases", n, 4)
    return n
