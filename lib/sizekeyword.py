"""R-SIZE-KEYWORD-EXACT (C20): the memory-size keyword the x86 formatter prints is the keyword of exactly that size.

Intel-syntax size keywords (external fact, every assembler's): byte 1, word 2, dword 4, fword 6, qword 8, tbyte 10, xmmword 16,
ymmword 32, zmmword 64 bytes.  get_address_size_string(size) must return a keyword only for its own size and nothing for every other
size ("memory size" clause of the property - a 28-byte fldenv operand is not a `dword ptr`).

Every return of the function is judged: a string literal must sit under the case label of its size (an empty literal anywhere); a
computed result is accepted only as `table[ctz(size)]` on the taken edge of is_power_of_2(size) with a table whose i-th entry is the
keyword of 2^i bytes.  Every keyword of the list has to be returned for its size."""
import re
from . import cfg
from .must import Must

ORACLE = {"byte": 1, "word": 2, "dword": 4, "fword": 6, "qword": 8, "tbyte": 10, "xmmword": 16, "ymmword": 32, "zmmword": 64}


def kw_of(s):
    m = re.match(r"\s*([a-z]+) ptr\s*$", s or "")
    return m.group(1) if m else None


def run(chk, unit="asmjit/x86/x86formatter.cpp", rule="R-SIZE-KEYWORD-EXACT"):
    chk.rule(rule, "x86 get_address_size_string(): a size keyword literal is returned only under the case label of the size it denotes (byte 1 "
                   ".. zmmword 64), every other path returns the empty string or `table[ctz(size)]` under is_power_of_2(size) with a table whose "
                   "i-th entry is the keyword of 2^i bytes; all nine keywords are returned for their sizes")
    f = chk.facts(unit, funcs=r"asmjit::x86::get_address_size_string$")
    fns = [g for g in cfg.load_functions(f) if g.file.endswith(unit.split("/")[-1])]
    chk.need(fns, "get_address_size_string not found")
    fn = fns[0]
    size = fn.params[0]["did"]

    def edge(b, si, atom, holds):
        x = fn.e(atom)
        if x is not None and x["k"] in ("call", "mcall") and x.get("cn") == "is_power_of_2" and holds and x.get("args") and \
                (fn.e(fn.strip(x["args"][0])) or {}).get("did") == size:
            return [("pow2",)]
        if x is not None and x["k"] == "binop" and x["op"] == "==" and holds:
            # `entry.<field> == size`: the record in hand is the one of this size
            for u, w in ((x["lhs"], x["rhs"]), (x["rhs"], x["lhs"])):
                ux, wx = fn.e(fn.strip(u)), fn.e(fn.strip(w))
                if ux is not None and ux["k"] == "member" and wx is not None and wx.get("did") == size:
                    b_ = fn.e(fn.strip(ux["base"]))
                    if b_ is not None and b_["k"] == "ref":
                        return [("rec", b_.get("did"), ux.get("field"))]
        return ()
    m = Must(fn, None, edge)
    covered = set()
    n = 0
    for b, idx, r in fn.return_sites():
        n += 1
        val = fn.e(r).get("val")
        v = fn.e(fn.strip(val)) if val is not None else None
        inst = "get_address_size_string|return@%d" % (fn.line_of(r) - fn.line)
        lab = fn.blocks[b].get("label") or {}
        if v is not None and v["k"] == "str":
            kw = kw_of(v.get("val"))
            if not (v.get("val") or ""):
                chk.ob(rule, inst, True, loc=fn.loc(r))
                continue
            ok = kw in ORACLE and lab.get("kind") == "case" and lab.get("v") == ORACLE[kw]
            if ok:
                covered.add(kw)
            chk.ob(rule, inst, ok, loc=fn.loc(r),
                   detail="`%s` is returned %s, the keyword denotes %s bytes" % (v.get("val"), ("for size %s" % lab.get("v")) if lab.get("kind") == "case" else
                          "outside a case label (for every size that reaches the default branch)", ORACLE.get(kw, "no known size")), key="sizekw|literal|%s" % kw)
            continue
        # computed result
        ok, why = False, "the result is computed and not of an accepted form (table[ctz(size)] under is_power_of_2(size), or the keyword field of a {size, keyword} record whose size field was compared with `size`)"
        if v is not None and v["k"] == "member":
            b_ = fn.e(fn.strip(v["base"]))
            recs = [t for t in (m.before(r) or frozenset()) if t[0] == "rec" and b_ is not None and t[1] == b_.get("did")]
            if recs:
                szf, kwf = recs[0][2], v.get("field")
                ft = chk.facts(unit, tables=r"asmjit::x86::[A-Za-z_0-9]+$")
                good = None
                for tn, tv in ft["tables"].items():
                    rows = tv.get("value")
                    if isinstance(rows, list) and rows and all(isinstance(r_, dict) and szf in r_ and kwf in r_ for r_ in rows):
                        def txt(c):
                            return c.get("str") if isinstance(c, dict) else c
                        pairs = [(r_[szf], kw_of(txt(r_[kwf]))) for r_ in rows]
                        if all(k_ in ORACLE and ORACLE[k_] == sz_ for sz_, k_ in pairs) and len({k_ for _, k_ in pairs}) == len(pairs):
                            good = pairs
                        else:
                            why = "the record table %s pairs a size with the keyword of another size: %s" % (tn.split("::")[-1], pairs)
                if good:
                    ok = True
                    covered |= {k_ for _, k_ in good}
            chk.ob(rule, inst, ok, loc=fn.loc(r), detail=why, key="sizekw|computed")
            continue
        subs = [j for j in fn.walk(val) if (fn.e(j) or {}).get("k") == "subscript"] if val is not None else []
        if len(subs) == 1:
            sx = fn.e(subs[0])
            ix = fn.e(fn.strip(sx.get("idx", sx.get("index"))))
            is_ctz = ix is not None and ix["k"] in ("call", "mcall") and ix.get("cn") == "ctz" and ix.get("args") and (fn.e(fn.strip(ix["args"][0])) or {}).get("did") == size
            tab = None
            bx = fn.e(fn.strip(sx["base"]))
            for d in fn.ex.values():
                if d["k"] == "decl":
                    for var in d["vars"]:
                        if bx is not None and var.get("did") == bx.get("did") and var.get("init") is not None:
                            tab = [(fn.e(c) or {}).get("val") for c in (fn.e(var["init"]) or {}).get("ch", [])]
            if not is_ctz:
                why = "the table index is not ctz(size)"
            elif ("pow2",) not in (m.before(r) or frozenset()):
                why = "ctz(size) selects the keyword of the LOWEST SET BIT of the size: without is_power_of_2(size) a 28-byte operand is printed as `dword ptr`"
            elif not tab or any(ORACLE.get(kw_of(t)) != (1 << i) for i, t in enumerate(tab)):
                why = "the table's i-th entry is not the keyword of 2^i bytes (%s)" % tab
            else:
                ok = True
                covered |= {kw_of(t) for t in tab}
        chk.ob(rule, inst, ok, loc=fn.loc(r), detail=why, key="sizekw|computed")
    for kw in sorted(ORACLE):
        n += 1
        chk.ob(rule, "get_address_size_string|%s" % kw, kw in covered, loc="%s:%d" % (unit, fn.line),
               detail="no return yields `%s ptr ` for %d bytes" % (kw, ORACLE[kw]), key="sizekw|missing|%s" % kw)
    chk.floor(rule + ":obligations", n, 10)
    return n
