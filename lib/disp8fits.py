"""R-DISP8-FITS (C03, C17): a displacement that is known when the branch is encoded goes into a one-byte field only after it was
shown to fit.

For a label that is not bound yet the rel8 form is range-checked when the label is bound (bind_label -> write_offset).  For a
displacement that is already known (bound label, absolute target with a known base) nothing checks later: `writer.emit8(disp)`
keeps the low byte.  In x86 Assembler::_emit every emit8() whose argument is computed from `rel32` is reached only on the taken edge
of Support::is_int_n<8>() of the same expression (casts ignored, a local initialised from the expression counts as the expression)."""
import re
from . import cfg
from .must import Must


def run(chk, unit="asmjit/x86/x86assembler.cpp", rule="R-DISP8-FITS"):
    chk.rule(rule, "x86 _emit: every writer.emit8(E) with E computed from the known displacement `rel32` is dominated by the true edge of "
                   "Support::is_int_n<8>(E): a short branch to an already bound label that is farther than 127 bytes away is refused "
                   "(kInvalidDisplacement), not truncated")
    f = chk.facts(unit, funcs=r"x86::Assembler::_emit$")
    fn = cfg.find_fn(f, "x86::Assembler::_emit")
    inits = {}
    for d in fn.ex.values():
        if d["k"] == "decl":
            for v in d["vars"]:
                if v.get("init") is not None:
                    inits[v["did"]] = v["init"]

    def norm(e, depth=0):
        x = fn.e(e)
        while x is not None and x["k"] in ("cast", "paren"):
            e = x["sub"]
            x = fn.e(e)
        if x is not None and x["k"] == "ref" and x.get("dk") == "local" and x.get("did") in inits and x.get("name") != "rel32" and depth < 3:
            t = norm(inits[x["did"]], depth + 1)
            if "rel32" in t:
                return t
        return re.sub(r"\s+|\b(?:u?int(?:8|16|32|64)_t)\(", "", fn.text(e)).replace("(", "").replace(")", "")

    def edge(b, si, atom, holds):
        x = fn.e(atom)
        if x is not None and x["k"] in ("call", "mcall") and x.get("cn") == "is_int_n" and holds and x.get("args") and re.match(r"8[UuLl]*$", (x.get("targs") or [""])[0].strip()):
            return [("fits8", norm(x["args"][0]))]
        return ()
    m = Must(fn, None, edge)
    par = fn.parent_map()
    n = 0
    for i, x in sorted(fn.calls(lambda x: x["k"] == "mcall" and x.get("cn") == "emit8" and x.get("args"))):
        t = norm(x["args"][0])
        if "rel32" not in t:
            continue
        n += 1
        st = m.before(i)
        j = i
        while st is None and j in par:
            j = par[j]
            st = m.before(j)
        chk.ob(rule, "x86::_emit|emit8(%s)@%d" % (t[:30], fn.line_of(i)), ("fits8", t) in (st or frozenset()), loc=fn.loc(i),
               detail="`%s` writes the low byte of a displacement that is already known on a path where Support::is_int_n<8>() of it was not "
                      "established: a short jmp / jecxz / loop to a bound label farther than 127 bytes is encoded with a truncated rel8" %
                      " ".join(fn.text(i).split())[:70], key="disp8|%d" % n)
    chk.floor(rule + ":sites", n, 1)
    return n
