"""R-DISP8-FITS (C03, C17): a displacement that is known when the branch is encoded goes into a one-byte field only after it was
shown to fit.

For a label that is not bound yet the rel8 form is range-checked when the label is bound (bind_label -> write_offset).  For a
displacement that is already known (bound label, absolute target with a known base) nothing checks later: `writer.emit8(disp)`
keeps the low byte.  In x86 Assembler::_emit every emit8() whose argument is computed from the local that holds the known displacement (the one emit32u_le() writes in the long form) is reached only on the taken edge
of Support::is_int_n<8>() of the same expression (casts ignored, a local initialised from the expression counts as the expression)."""
import re
from . import cfg
from .must import Must


def run(chk, unit="asmjit/x86/x86assembler.cpp", rule="R-DISP8-FITS"):
    chk.rule(rule, "x86 _emit: every writer.emit8(E) with E computed from the known displacement (the local emit32u_le() writes as DISP32) is dominated by the true edge of "
                   "Support::is_int_n<8>(E): a short branch to an already bound label that is farther than 127 bytes away is refused "
                   "(kInvalidDisplacement), not truncated")
    f = chk.facts(unit, funcs=r"x86::Assembler::_emit$")
    fn = cfg.find_fn(f, "x86::Assembler::_emit")
    inits = {}
    for d in fn.ex.values():
        if d["k"] == "decl":
            for v in d["vars"]:
                if v.get("init") is not None:
                    inits[v["did"]] = v["init"]

    def from_label(e, depth=0):
        """the value is computed from the offset of a bound label (LabelEntry::offset()), possibly through initialised locals"""
        x = fn.e(e)
        if x is None or depth > 12:
            return False
        if x["k"] == "mcall" and x.get("cn") == "offset" and "Label" in (x.get("callee") or ""):
            return True
        if x["k"] == "ref" and x.get("dk") == "local" and x.get("did") in inits and depth < 8:
            return from_label(inits[x["did"]], depth + 1)
        return any(from_label(c, depth + 1) for c in fn.children(e))

    # the locals that hold the known displacement: 32-bit locals written by emit32u_le() that are assigned a computed value somewhere
    disp = set()
    emitted = set()
    for i, x in fn.calls(lambda x: x["k"] == "mcall" and x.get("cn") == "emit32u_le" and x.get("args")):
        y = fn.e(fn.strip(x["args"][0]))
        if y is not None and y["k"] == "ref" and y.get("dk") == "local":
            emitted.add(y["did"])
    for x in fn.ex.values():
        if x["k"] == "binop" and x["op"] == "=":
            l = fn.e(fn.strip(x["lhs"]))
            r = fn.e(fn.strip(x["rhs"]))
            if l is not None and l["k"] == "ref" and l.get("did") in emitted and r is not None and from_label(x["rhs"]):
                disp.add(l["did"])
    chk.need(bool(disp), "no local of x86 _emit is both computed from LabelEntry::offset() and written by emit32u_le()")

    def derives(e, depth=0):
        x = fn.e(e)
        if x is None or depth > 12:
            return False
        if x["k"] == "ref" and x.get("did") in disp:
            return True
        if x["k"] == "ref" and x.get("dk") == "local" and x.get("did") in inits and depth < 6:
            return derives(inits[x["did"]], depth + 1)
        return any(derives(c, depth + 1) for c in fn.children(e))

    def norm(e, depth=0):
        x = fn.e(e)
        while x is not None and x["k"] in ("cast", "paren"):
            e = x["sub"]
            x = fn.e(e)
        if x is not None and x["k"] == "ref" and x.get("dk") == "local" and x.get("did") in inits and x.get("did") not in disp and depth < 3:
            if derives(inits[x["did"]]):
                return norm(inits[x["did"]], depth + 1)
        return re.sub(r"\s+|\b(?:u?int(?:8|16|32|64)_t)\(", "", fn.text(e)).replace("(", "").replace(")", "")

    def edge(b, si, atom, holds):
        x = fn.e(atom)
        if x is not None and x["k"] in ("call", "mcall") and x.get("cn") == "is_int_n" and holds and x.get("args") and re.match(r"8[UuLl]*$", (x.get("targs") or [""])[0].strip()):
            return [("fits8", norm(x["args"][0]))]
        return ()
    m = Must(fn, None, edge)
    par = fn.parent_map()
    n = 0
    for i, x in sorted(fn.calls(lambda x: x["k"] == "mcall" and x.get("cn") == "emit8" and x.get("args"))):
        if not derives(x["args"][0]):
            continue
        t = norm(x["args"][0])
        n += 1
        st = m.before(i)
        j = i
        while st is None and j in par:
            j = par[j]
            st = m.before(j)
        chk.ob(rule, "x86::_emit|emit8(%s)@%d" % (t[:30], fn.line_of(i)), ("fits8", t) in (st or frozenset()), loc=fn.loc(i),
               detail="`%s` writes the low byte of a displacement that is already known on a path where Support::is_int_n<8>() of it was not "
                      "established: a short jmp / jecxz / loop to a bound label farther than 127 bytes is encoded with a truncated rel8" %
                      " ".join(fn.text(i).split())[:70], key="disp8|%d" % n)
    chk.floor(rule + ":sites", n, 1)
    return n
