"""R-COPY-VISITS-EVERY-SECTION (C10): copy_flattened_data() decides the bounds test and the padding for every section of the layout.

"Refuses a destination that is too small" and "zero-fills padding when asked" are stated per section: a section without buffered bytes
but with a virtual size (.bss, an unused .addrtab) still occupies [offset, offset + virtual size) of the flattened image.  In the loop
over the layout every path from the loop head to the next iteration passes (a) the comparison of the section's offset with `dst_size`
and (b) the branch on CopySectionFlags::kPadSectionBuffer.  (At the loop head the must-facts are the intersection of the entry state -
nothing - and the back edge, so they are per iteration.)"""
from . import cfg
from .must import Must


def _mentions(fn, e, pred, depth=0):
    x = fn.e(e)
    if x is None or depth > 14:
        return False
    if pred(x):
        return True
    return any(_mentions(fn, c, pred, depth + 1) for c in fn.children(e))


def run(chk, unit="asmjit/core/codeholder.cpp", rule="R-COPY-VISITS-EVERY-SECTION"):
    chk.rule(rule, "CodeHolder::copy_flattened_data: every path of the loop over the layout from the loop head to the next iteration passes the "
                   "comparison of section->offset() with dst_size and the branch on kPadSectionBuffer: a section without buffered bytes is "
                   "bounds-checked and padded like any other")
    f = chk.facts(unit, funcs=r"asmjit::CodeHolder::copy_flattened_data$")
    fn = cfg.find_fn(f, "CodeHolder::copy_flattened_data")
    dst_size = [p["did"] for p in fn.params if p["name"] == "dst_size" or "size" in p["name"]]

    def edge(b, si, atom, holds):
        term = fn.blocks[b].get("term") or {}
        c = term.get("cond")
        if c is None:
            return ()
        out = []
        if _mentions(fn, c, lambda y: y["k"] == "mcall" and y.get("cn") == "offset") and _mentions(fn, c, lambda y: y["k"] == "ref" and y.get("did") in dst_size):
            out.append(("bounded",))
        if _mentions(fn, c, lambda y: y.get("cvn") == "kPadSectionBuffer"):
            out.append(("pad-decided",))
        return out
    m = Must(fn, None, edge)
    # loop heads: blocks with a predecessor that is reachable from them
    n = 0
    order = fn.rpo()
    pos = {b_: i for i, b_ in enumerate(order)}
    for h in order:
        reach = set(fn.reachable_from(h))
        # back edges: the source comes after the head in reverse post-order and can be reached from it
        backs = [p for p in fn.preds.get(h, []) if p in pos and pos[p] >= pos[h] and (p in reach or p == h)]
        if not backs:
            continue
        # only loops whose body writes into the destination (memcpy / memset reachable before the back edge)
        body = reach & {q for p in backs for q in _reaching(fn, p)}
        if not any(_block_calls(fn, q, ("memcpy", "memset")) for q in body):
            continue
        n += 1
        st = None
        for p in backs:
            s_ = m.at_block_end(p) or frozenset()
            st = s_ if st is None else (st & s_)
        for fact, what in ((("bounded",), "the comparison of section->offset() with dst_size"), (("pad-decided",), "the branch on CopySectionFlags::kPadSectionBuffer")):
            chk.ob(rule, "copy_flattened_data|loop%d|%s" % (n, fact[0]), fact in (st or frozenset()), loc="%s:%d" % (unit, fn.line),
                   detail="an iteration of the loop over the layout can reach the next section without %s: a section with an empty buffer and "
                          "a virtual size (.bss) is neither refused when the destination ends before it nor zero-filled under kPadSectionBuffer" % what,
                   key="copyevery|%s" % fact[0])
    chk.floor(rule + ":loops", n, 1)
    return n


def _reaching(fn, b):
    """blocks from which b is reachable (backwards closure)"""
    seen, work = set(), [b]
    while work:
        q = work.pop()
        if q in seen:
            continue
        seen.add(q)
        work += [p for p in fn.preds.get(q, [])]
    return seen


def _block_calls(fn, b, names):
    for el in fn.blocks[b]["elems"]:
        x = fn.e(el) if isinstance(el, int) else None
        if x is not None and x["k"] in ("call", "mcall") and x.get("cn") in names:
            return True
    return False
