"""R-DEABSTRACTED-ID-USED (C20, C08): once an abstract type id (kIntPtr / kUIntPtr) was resolved against the target, only the resolved id
is used.

embed_data_array() / new_embed_data_node() compute `final_type_id = TypeUtils::deabstract(type_id, delta)` and size the data with
it.  Reading the *parameter* again afterwards hands the abstract id on: Formatter::format_data() sizes it as 0 and the log line is
empty although the bytes were appended; a node that stores it cannot be formatted.

For every function that initialises a local from `deabstract(<parameter>, ...)`: no read of that parameter is reachable after the
definition (the definition's own argument excepted)."""
from . import cfg

UNITS = [("asmjit/core/assembler.cpp", r"asmjit::BaseAssembler::[A-Za-z_0-9]+$"), ("asmjit/core/builder.cpp", r"asmjit::BaseBuilder::[A-Za-z_0-9]+$")]


def run(chk, rule="R-DEABSTRACTED-ID-USED", floor=2):
    chk.rule(rule, "a function that resolves an abstract TypeId parameter with TypeUtils::deabstract() into a local never reads the parameter again "
                   "after that definition: sizes, stored node fields and the formatter all see the resolved id")
    n = 0
    for unit, pat in UNITS:
        f = chk.facts(unit, funcs=pat)
        for fn in cfg.load_functions(f):
            if not fn.file.endswith(unit.split("/")[-1]):
                continue
            parms = {p["did"]: p["name"] for p in fn.params}
            for di, dx in sorted(fn.ex.items()):
                if dx["k"] != "decl":
                    continue
                for v in dx["vars"]:
                    init = v.get("init")
                    ix = fn.e(fn.strip(init)) if init is not None else None
                    if ix is None or ix["k"] not in ("call", "mcall") or ix.get("cn") != "deabstract" or not ix.get("args"):
                        continue
                    a = fn.e(fn.strip(ix["args"][0]))
                    if a is None or a["k"] != "ref" or a.get("did") not in parms:
                        continue
                    n += 1
                    pos = fn.block_of()
                    par = fn.parent_map()
                    b0, i0 = pos[di]
                    reach = set(fn.reachable_from(b0))
                    bad = None
                    own = set(fn.walk(di))
                    for j, y in sorted(fn.ex.items()):
                        if y["k"] == "ref" and y.get("did") == a["did"] and j not in own:
                            e = j
                            while e not in pos and e in par:
                                e = par[e]
                            if e not in pos:
                                continue
                            bj, ij = pos[e]
                            if (bj == b0 and ij > i0) or (bj != b0 and bj in reach):
                                bad = j
                                break
                    top = bad
                    while top is not None and top in par and top not in pos:
                        top = par[top]
                    chk.ob(rule, "%s|%s" % (fn.name.replace("asmjit::", ""), parms[a["did"]]), bad is None, loc=fn.loc(bad) if bad is not None else fn.loc(di),
                           detail="`%s` reads the abstract parameter `%s` after it was resolved into `%s`: for kIntPtr / kUIntPtr the consumer "
                                  "sees a type of size 0 (empty log line, unformattable node)" %
                                  (" ".join(fn.text(top).split())[:70] if top is not None else "", parms[a["did"]], v["name"]),
                           key="deabstract|%s" % fn.name.replace("asmjit::", ""))
    chk.floor(rule + ":definitions", n, floor)
    return n
