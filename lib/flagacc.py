"""R-FLAG-ACCESSOR: add_* / clear_* flag (option) accessors do what their name says.

Every one-parameter member function named [_]add_<x>flags|options or [_]clear_<x>flags|options whose body is a single
assignment to a member is folded (lib/exprfold.py) over a grid of (old value, argument) pairs; the stored value must be
old | arg for add and old & ~arg for clear, truncated to the width of the member."""
import re
from . import cfg, exprfold

UNITS = ("asmjit/core/compiler.cpp", "asmjit/core/jitallocator.cpp", "asmjit/core/rapass.cpp")
GRID = (0x0000, 0x0001, 0x0004, 0x00F0, 0x0105, 0x8001, 0xFFFF)
WIDTH = {"uint8_t": 8, "uint16_t": 16, "unsigned char": 8, "unsigned short": 16}


def run(chk, rule="R-FLAG-ACCESSOR"):
    chk.rule(rule, "every add_*/clear_* flag or option accessor (one parameter, single assignment) stores `old | arg` / `old & ~arg`: the body "
                   "is folded over a grid of values; a clear_flags() that ORs, or an add_flags() that replaces, is reported")
    seen = {}
    for unit in UNITS:
        f = chk.facts(unit, funcs=r"::_?(clear|add)_[a-z_]*(flags?|options)$")
        for fo in f["functions"]:
            fn = cfg.Fn(fo)
            seen.setdefault((fn.name, fn.file, fn.line), fn)
    n = 0
    for (name, file_, line), fn in sorted(seen.items()):
        if len(fn.params) != 1:
            continue
        kind = "clear" if re.search(r"::_?clear_", name) else "add"
        stmts = [(i, x) for i, x in fn.ex.items() if (x["k"] == "binop" and x["op"].endswith("=") and x["op"] not in ("==", "!=", "<=", ">=")) or
                 (x["k"] == "opcall" and (x.get("op") or "").endswith("=") and x.get("op") not in ("==", "!=", "<=", ">="))]
        if len(stmts) != 1:
            continue            # delegating or multi-statement accessor: nothing to fold
        i, x = stmts[0]
        lhs = x["lhs"] if x["k"] == "binop" else x["args"][0]
        rhs = x["rhs"] if x["k"] == "binop" else x["args"][1]
        op = x["op"]
        lx = fn.e(fn.strip(lhs))
        if not (lx and lx["k"] == "member"):
            continue
        field = lx.get("field")
        bits = WIDTH.get((lx.get("ty") or "").replace("const ", "").strip(), 32)
        mask = (1 << bits) - 1
        pdid = fn.params[0]["did"]
        bad = None
        try:
            for old in GRID:
                for arg in GRID:
                    o, a = old & mask, arg & mask

                    def leaf(t, node, o=o, a=a):
                        if node.get("k") == "member" and node.get("field") == field:
                            return o
                        if node.get("k") == "ref" and node.get("did") == pdid:
                            return a
                        raise exprfold.Unknown()
                    F = exprfold.Folder({}, leaf, 64)
                    v = F.fold(fn, rhs)
                    new = {"=": v, "|=": o | v, "&=": o & v, "^=": o ^ v}.get(op)
                    if new is None:
                        raise exprfold.Unknown()
                    want = (o | a) if kind == "add" else (o & ~a)
                    if (new & mask) != (want & mask) and bad is None:
                        bad = (o, a, new & mask, want & mask)
        except exprfold.Unknown:
            continue
        n += 1
        chk.ob(rule, name.replace("asmjit::", ""), bad is None, loc="%s:%d" % (file_.replace("/repo/", ""), line),
               detail="%s with old=0x%X and argument 0x%X stores 0x%X, expected 0x%X (%s)" % ((name.replace("asmjit::", ""),) + (bad or (0, 0, 0, 0)) +
                                                                                           ("old & ~arg" if kind == "clear" else "old | arg",)),
               key="flagacc|%s" % name.replace("asmjit::", ""))
    chk.floor(rule + ":accessors", n, 20)


def run_shared_flags(chk):
    """a flags member that several owners update bit-wise is never overwritten wholesale outside detach / reset"""
    import re
    from . import cfg
    R = "R-SHARED-FLAGS-BITWISE"
    chk.rule(R, "BaseEmitter::_forced_inst_options is shared by the base class (kReserved: logger / validation attached) and the x86 assembler "
                "(kX86_InvalidRex for 32-bit targets), each of which updates its own bit with |= / &= ~; a plain assignment of the whole member "
                "occurs only in on_detach() / constructors, where every owner's bit is meant to go")
    FIELD = "_forced_inst_options"
    units = [("asmjit/core/emitter.cpp", r"asmjit::BaseEmitter[A-Za-z_0-9:]*$"), ("asmjit/x86/x86assembler.cpp", r"asmjit::x86::Assembler::(on_attach|on_detach|on_reinit|Assembler)$"),
             ("asmjit/arm/a64assembler.cpp", r"asmjit::a64::Assembler::(on_attach|on_detach|on_reinit|Assembler)$"), ("asmjit/core/assembler.cpp", r"asmjit::BaseAssembler::(on_attach|on_detach|on_reinit)$"),
             ("asmjit/core/builder.cpp", r"asmjit::BaseBuilder::(on_attach|on_detach|on_reinit)$")]
    bitwise_owners = set()
    plain = []
    for unit, rex in units:
        f = chk.facts(unit, funcs=rex)
        for fn in cfg.load_functions(f):
            if not fn.file.endswith(unit.split("/")[-1]):
                continue
            for i, x in fn.ex.items():
                if x["k"] in ("binop", "opcall") and (x.get("op") or "").endswith("=") and x.get("op") not in ("==", "!=", "<=", ">="):
                    lhs = x.get("lhs") if x["k"] == "binop" else (x.get("obj") if x.get("obj") is not None else (x.get("args") or [None])[0])
                    if lhs is None or not re.sub(r"\s+", "", fn.text(lhs)).endswith(FIELD):
                        continue
                    if x["op"] in ("|=", "&=", "^="):
                        bitwise_owners.add(fn.name)
                    elif x["op"] == "=":
                        plain.append((fn, i))
    chk.need(len(bitwise_owners) >= 2, "fewer than two functions update %s bit-wise" % FIELD)
    n = 0
    for fn, i in plain:
        n += 1
        short = fn.name.replace("asmjit::", "")
        parts = short.split("::")
        ok = parts[-1] in ("on_detach", "reset") or (len(parts) >= 2 and parts[-1] == parts[-2])
        chk.ob(R, "%s|%s=" % (short, FIELD), ok, loc=fn.loc(i),
               detail="`%s` overwrites the whole member in %s: the bits other owners keep there (kX86_InvalidRex of a 32-bit x86 assembler) are lost "
                      "whenever this runs" % (" ".join(fn.text(i).split())[:60], short), key="sharedflags|%s" % short)
    for o in sorted(bitwise_owners):
        n += 1
        chk.ob(R, "%s|bitwise" % o.replace("asmjit::", ""), True, loc="")
    chk.floor(R + ":writers", n, 3)
