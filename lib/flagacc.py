"""R-FLAG-ACCESSOR: add_* / clear_* flag (option) accessors do what their name says.

Every one-parameter member function named [_]add_<x>flags|options or [_]clear_<x>flags|options whose body is a single
assignment to a member is folded (lib/exprfold.py) over a grid of (old value, argument) pairs; the stored value must be
old | arg for add and old & ~arg for clear, truncated to the width of the member."""
import re
from . import cfg, exprfold

UNITS = ("asmjit/core/compiler.cpp", "asmjit/core/jitallocator.cpp", "asmjit/core/rapass.cpp")
GRID = (0x0000, 0x0001, 0x0004, 0x00F0, 0x0105, 0x8001, 0xFFFF)
WIDTH = {"uint8_t": 8, "uint16_t": 16, "unsigned char": 8, "unsigned short": 16}


def run(chk, rule="R-FLAG-ACCESSOR"):
    chk.rule(rule, "every add_*/clear_* flag or option accessor (one parameter, single assignment) stores `old | arg` / `old & ~arg`: the body "
                   "is folded over a grid of values; a clear_flags() that ORs, or an add_flags() that replaces, is reported")
    seen = {}
    for unit in UNITS:
        f = chk.facts(unit, funcs=r"::_?(clear|add)_[a-z_]*(flags?|options)$")
        for fo in f["functions"]:
            fn = cfg.Fn(fo)
            seen.setdefault((fn.name, fn.file, fn.line), fn)
    n = 0
    for (name, file_, line), fn in sorted(seen.items()):
        if len(fn.params) != 1:
            continue
        kind = "clear" if re.search(r"::_?clear_", name) else "add"
        stmts = [(i, x) for i, x in fn.ex.items() if (x["k"] == "binop" and x["op"].endswith("=") and x["op"] not in ("==", "!=", "<=", ">=")) or
                 (x["k"] == "opcall" and (x.get("op") or "").endswith("=") and x.get("op") not in ("==", "!=", "<=", ">="))]
        if len(stmts) != 1:
            continue            # delegating or multi-statement accessor: nothing to fold
        i, x = stmts[0]
        lhs = x["lhs"] if x["k"] == "binop" else x["args"][0]
        rhs = x["rhs"] if x["k"] == "binop" else x["args"][1]
        op = x["op"]
        lx = fn.e(fn.strip(lhs))
        if not (lx and lx["k"] == "member"):
            continue
        field = lx.get("field")
        bits = WIDTH.get((lx.get("ty") or "").replace("const ", "").strip(), 32)
        mask = (1 << bits) - 1
        pdid = fn.params[0]["did"]
        bad = None
        try:
            for old in GRID:
                for arg in GRID:
                    o, a = old & mask, arg & mask

                    def leaf(t, node, o=o, a=a):
                        if node.get("k") == "member" and node.get("field") == field:
                            return o
                        if node.get("k") == "ref" and node.get("did") == pdid:
                            return a
                        raise exprfold.Unknown()
                    F = exprfold.Folder({}, leaf, 64)
                    v = F.fold(fn, rhs)
                    new = {"=": v, "|=": o | v, "&=": o & v, "^=": o ^ v}.get(op)
                    if new is None:
                        raise exprfold.Unknown()
                    want = (o | a) if kind == "add" else (o & ~a)
                    if (new & mask) != (want & mask) and bad is None:
                        bad = (o, a, new & mask, want & mask)
        except exprfold.Unknown:
            continue
        n += 1
        chk.ob(rule, name.replace("asmjit::", ""), bad is None, loc="%s:%d" % (file_.replace("/repo/", ""), line),
               detail="%s with old=0x%X and argument 0x%X stores 0x%X, expected 0x%X (%s)" % ((name.replace("asmjit::", ""),) + (bad or (0, 0, 0, 0)) +
                                                                                           ("old & ~arg" if kind == "clear" else "old | arg",)),
               key="flagacc|%s" % name.replace("asmjit::", ""))
    chk.floor(rule + ":accessors", n, 20)
