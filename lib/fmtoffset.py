"""R-FORMAT-FULL-OFFSET (C20): the displacement a formatter prints is the whole 64-bit offset of the memory operand.

An x86 memory operand without a base register carries a 64-bit absolute address (`mov rax, [0x1122334455667788]`); Mem::offset()
returns all of it, Mem::offset_lo32() / offset_hi32() one half.  In the format_operand() of each architecture every number appended to
the text that derives from an offset accessor of the memory operand (through locals, assignments, negation) derives from
Mem::offset() and from no half-width accessor - otherwise the text and the machine-code column disagree."""
from . import cfg

FULL, HALF = {"offset"}, {"offset_lo32", "offset_hi32"}
SINKS = {"append_uint", "append_int", "append_format", "append_hex"}


def run(chk, units=(("asmjit/x86/x86formatter.cpp", r"x86::FormatterInternal::format_operand$"),
                    ("asmjit/arm/armformatter.cpp", r"arm::FormatterInternal::format_operand$")), rule="R-FORMAT-FULL-OFFSET"):
    chk.rule(rule, "format_operand() of x86 and arm: every value handed to String::append_uint / append_int / append_format that derives from an "
                   "offset accessor of the memory operand derives from Mem::offset() (64-bit) and not from offset_lo32() / offset_hi32()")
    total = 0
    for unit, pat in units:
        f = chk.facts(unit, funcs=pat)
        for fn in cfg.load_functions(f):
            if not fn.file.endswith(unit.split("/")[-1]):
                continue
            src = {}        # did -> set of accessor names

            def sources(e, depth=0):
                x = fn.e(e)
                if x is None or depth > 14:
                    return set()
                if x["k"] == "mcall" and x.get("cn") in FULL | HALF and not x.get("args"):
                    return {x["cn"]}
                if x["k"] == "ref" and x.get("did") in src:
                    return set(src[x["did"]])
                out = set()
                for c in fn.children(e):
                    out |= sources(c, depth + 1)
                return out
            for _ in range(4):
                for x in fn.ex.values():
                    if x["k"] == "decl":
                        for v in x["vars"]:
                            if v.get("init") is not None:
                                s_ = sources(v["init"])
                                if s_:
                                    src.setdefault(v["did"], set()).update(s_)
                    elif x["k"] == "binop" and x["op"].endswith("=") and x["op"] not in ("==", "!=", "<=", ">="):
                        l = fn.e(fn.strip(x["lhs"]))
                        if l is not None and l["k"] == "ref" and l.get("dk") == "local":
                            s_ = sources(x["rhs"])
                            if s_:
                                src.setdefault(l["did"], set()).update(s_)
            n = 0
            for i, x in sorted(fn.calls(lambda x: x["k"] == "mcall" and x.get("cn") in SINKS)):
                s_ = set()
                for a in x.get("args") or []:
                    s_ |= sources(a)
                if not s_:
                    continue
                n += 1
                short = fn.name.replace("asmjit::", "")
                chk.ob(rule, "%s|%s#%d" % (short, x["cn"], n), not (s_ & HALF), loc=fn.loc(i),
                       detail="`%s` prints a value taken from %s: only half of a 64-bit displacement / absolute address reaches the text "
                              "(`mov rax, [0x1122334455667788]` is logged as `[0x55667788]` next to the bytes of the full address)" %
                              (" ".join(fn.text(i).split())[:60], ", ".join("Mem::%s()" % a for a in sorted(s_ & HALF))), key="fmtoffset|%s" % short.split("::")[0])
            chk.floor(rule + ":" + unit.split("/")[-1], n, 1)
            total += n
    return total
