"""Two small must-rules over the emitter front ends (C08).

R-BIND-ON-EVERY-SUCCESS: an interface function that binds its label argument (embed_const_pool: align, bind, data) does so before
every successful return.  The Assembler and the Builder implement the same call; a success exit that skips the bind in one of them
leaves the label unbound there and bound in the other.

R-NO-STATE-READ-AFTER-GRAB: `_grab_state()` copies the one-shot instruction state (options, extra register, inline comment) and
resets it.  Any later read of that state through the emitter (inst_options(), extra_reg(), inline_comment() or the fields) sees the
reset values; everything created after the grab must use the grabbed copy."""
import re
from . import cfg
from .must import Must

UNITS = [("asmjit/core/assembler.cpp", r"asmjit::BaseAssembler::[A-Za-z_0-9]+$"), ("asmjit/core/builder.cpp", r"asmjit::BaseBuilder::[A-Za-z_0-9]+$"),
         ("asmjit/core/compiler.cpp", r"asmjit::BaseCompiler::[A-Za-z_0-9]+$")]
STATE_READS = ("inst_options", "extra_reg", "inline_comment", "forced_inst_options")
STATE_FIELDS = ("_inst_options", "_extra_reg", "_inline_comment")


def run(chk):
    RB = "R-BIND-ON-EVERY-SUCCESS"
    chk.rule(RB, "in BaseAssembler / BaseBuilder / BaseCompiler: a function that calls bind(<its Label parameter>) reaches every `return kOk` only "
                 "after that call: the label is bound on all successful paths or on none, the same in every front end")
    RG = "R-NO-STATE-READ-AFTER-GRAB"
    chk.rule(RG, "after `_grab_state()` (which resets the emitter's one-shot instruction state) no path reads that state through the emitter "
                 "again (inst_options(), extra_reg(), inline_comment(), _inst_options, _extra_reg, _inline_comment): nodes are built from the "
                 "grabbed copy")
    RS = "R-STATE-GRABBED-BEFORE-EXIT"
    chk.rule(RS, "a Compiler function that takes the one-shot instruction state with _grab_state() does so before every return: a failing exit "
                 "that leaves earlier keeps the state armed (\"a failed call clears the one-shot instruction state\")")
    nb = ng = ns = 0
    for unit, rex in UNITS:
        f = chk.facts(unit, funcs=rex)
        for fn in cfg.load_functions(f):
            if not fn.file.endswith(unit.split("/")[-1]):
                continue
            short = fn.name.replace("asmjit::", "")
            label_params = {p["did"]: p["name"] for p in fn.params if "Label" in p["ty"]}
            binds = [(i, x) for i, x in fn.calls(lambda x: x["k"] in ("mcall", "call") and x.get("cn") == "bind" and x.get("args"))
                     if (fn.e(fn.strip(x["args"][0])) or {}).get("did") in label_params]
            if binds and not short.endswith("::bind"):
                def elem(eid, x):
                    if x["k"] in ("mcall", "call") and x.get("cn") == "bind" and x.get("args") and (fn.e(fn.strip(x["args"][0])) or {}).get("did") in label_params:
                        return ((("bound",),), ())
                    return None
                m = Must(fn, elem, None)
                for b, idx, r in fn.return_sites():
                    v = fn.e(fn.strip(fn.e(r).get("val"))) if fn.e(r).get("val") is not None else None
                    if v is None or v.get("cvn") != "kOk":
                        continue
                    nb += 1
                    chk.ob(RB, "%s|return@%d" % (short, fn.line_of(r) - fn.line), ("bound",) in (m.before(r) or frozenset()), loc=fn.loc(r),
                           detail="%s returns kOk on a path that never bound `%s`, although it binds it on its other successful paths" %
                                  (short, sorted(label_params.values())[0]), key="bindsuccess|%s" % short)
            grabs = [i for i, x in fn.calls(lambda x: x.get("cn") == "_grab_state")]
            if grabs:
                def elem2(eid, x):
                    if x["k"] in ("mcall", "call") and x.get("cn") == "_grab_state":
                        return ((("grabbed",),), ())
                    return None
                m2 = Must(fn, elem2, None)
                # may-version: a read is wrong if the grab MAY have happened; the functions grab unconditionally at the top, so must == may here
                for i, x in sorted(fn.ex.items()):
                    hit = None
                    if x["k"] == "mcall" and x.get("cn") in STATE_READS and not x.get("args"):
                        o = fn.e(fn.strip(x["obj"])) if x.get("obj") else None
                        if o is not None and o["k"] == "this":
                            hit = x["cn"] + "()"
                    elif x["k"] == "member" and x.get("field") in STATE_FIELDS:
                        o = fn.e(fn.strip(x["base"])) if x.get("base") else None
                        if o is not None and o["k"] == "this":
                            hit = x["field"]
                    if hit is None:
                        continue
                    st = m2.before(i)
                    if st is None:
                        par = fn.parent_map()
                        j = i
                        while st is None and j in par:
                            j = par[j]
                            st = m2.before(j)
                    if ("grabbed",) in (st or frozenset()):
                        chk.ob(RG, "%s|%s@%d" % (short, hit, fn.line_of(i) - fn.line), False, loc=fn.loc(i),
                               detail="`%s` is read after _grab_state() reset it: the value is always the reset one, the grabbed copy `state` holds "
                                      "what the caller set" % hit, key="grabread|%s|%s" % (short, hit))
                for g_ in grabs:
                    ng += 1
                    chk.ob(RG, "%s|grab@%d" % (short, fn.line_of(g_) - fn.line), True, loc=fn.loc(g_))
                # ... and the grab (which is also the reset of the one-shot state) comes before every exit, failing ones included
                for b, idx, r in fn.return_sites():
                    st = m2.before(r) or frozenset()
                    chk.ob(RS, "%s|return@%d" % (short, fn.line_of(r) - fn.line), ("grabbed",) in st, loc=fn.loc(r),
                           detail="%s can return (`%s`) before _grab_state() ran: the pending options / extra register / inline comment stay armed "
                                  "and are applied to the next instruction" % (short, " ".join(fn.text(r).split())[:50]), key="grabfirst|%s" % short)
                    ns += 1
    chk.floor(RB + ":success-returns", nb, 2)
    chk.floor(RG + ":grabs", ng, 3)
    chk.floor(RS + ":returns", ns, 6)


def run_bind_last(chk):
    RL = "R-NO-FAILURE-AFTER-BIND"
    chk.rule(RL, "in BaseAssembler / BaseBuilder: a function that binds its Label parameter has no failing exit on the paths after the bind "
                 "succeeded (every return reachable from the success edge of the bind returns the constant kOk): everything that can fail - "
                 "reserving buffer space, creating the data node - happens before the label is bound, otherwise a failed call leaves the label "
                 "bound to nothing and the retry is refused with kLabelAlreadyBound")
    n = 0
    for unit, rex in UNITS[:2]:
        f = chk.facts(unit, funcs=rex)
        for fn in cfg.load_functions(f):
            if not fn.file.endswith(unit.split("/")[-1]) or fn.name.endswith("::bind"):
                continue
            label_params = {p["did"] for p in fn.params if "Label" in p["ty"]}
            blk = fn.block_of()
            for i, x in fn.calls(lambda x: x["k"] in ("mcall", "call") and x.get("cn") == "bind" and x.get("args")):
                if (fn.e(fn.strip(x["args"][0])) or {}).get("did") not in label_params:
                    continue
                # the block that tests the propagated result: its failing edge returns, the other edge is the success edge
                b0 = None
                for el_owner in (i, fn.parent_map().get(i)):
                    if el_owner in blk:
                        b0 = blk[el_owner][0]
                        break
                if b0 is None:
                    continue
                succ = [s for s in fn.blocks[b0]["succs"] if s is not None]
                fail_rets = set()
                good = []
                for s in succ:
                    rs = [r for bb, idx, r in fn.return_sites() if bb == s]
                    if rs and all((fn.e(fn.strip(fn.e(r).get("val"))) or {}).get("cvn") != "kOk" for r in rs) and len(fn.blocks[s]["elems"]) <= 6:
                        fail_rets.add(s)
                    else:
                        good.append(s)
                n += 1
                reach = set()
                for s in good:
                    reach |= fn.reachable_from(s, avoid=fail_rets)
                bad = None
                for bb, idx, r in fn.return_sites():
                    if bb in reach:
                        v = fn.e(fn.strip(fn.e(r).get("val"))) if fn.e(r).get("val") is not None else None
                        if v is None or v.get("cvn") != "kOk":
                            bad = r
                            break
                short = fn.name.replace("asmjit::", "")
                chk.ob(RL, "%s|after-bind" % short, bad is None, loc=fn.loc(bad) if bad is not None else fn.loc(i),
                       detail="%s can still fail (`%s`, line %s) after it bound the label: the label stays bound without its data and the call cannot "
                              "be repeated" % (short, " ".join(fn.text(bad).split())[:50] if bad is not None else "", fn.line_of(bad) if bad is not None else ""),
                       key="bindlast|%s" % short)
    chk.floor(RL + ":binds", n, 2)


def run_error_codes(chk):
    RE = "R-ERROR-CODE-SIBLINGS"
    chk.rule(RE, "for every emitter interface function implemented by both BaseAssembler and BaseBuilder: each Error constant the Builder's "
                 "version can return itself also occurs in the Assembler's version or in the CodeHolder / CodeWriter functions it calls "
                 "(kOutOfMemory and kNotInitialized aside): the same rejected call fails with the same code in both front ends")
    fa = chk.facts("asmjit/core/assembler.cpp", funcs=r"asmjit::BaseAssembler::[a-z_0-9]+$")
    fb = chk.facts("asmjit/core/builder.cpp", funcs=r"asmjit::BaseBuilder::[a-z_0-9]+$")
    fc = chk.facts("asmjit/core/codeholder.cpp", funcs=r"asmjit::CodeHolder::[a-z_0-9]+$")
    callee_fns = {}
    for fo in fc["functions"] + fa["functions"]:
        g = cfg.Fn(fo)
        callee_fns.setdefault(g.name, []).append(g)

    def codes(fn, depth=0, seen=()):
        out = set()
        for i, x in fn.ex.items():
            if x["k"] == "ref" and x.get("dk") == "enumconst" and (x.get("qn") or "").startswith("asmjit::Error::") and x.get("name") != "kOk":
                out.add(x["name"])
        if depth < 2:
            for i, x in fn.calls():
                for h in callee_fns.get(x.get("callee") or "", []):
                    if h.name not in seen and h is not fn:
                        out |= codes(h, depth + 1, seen + (fn.name,))
        return out
    A, B = {}, {}
    for fo in fa["functions"]:
        g = cfg.Fn(fo)
        if g.file.endswith("assembler.cpp"):
            A.setdefault("%s/%d" % (g.name.split("::")[-1], len(g.params)), g)
    for fo in fb["functions"]:
        g = cfg.Fn(fo)
        if g.file.endswith("builder.cpp"):
            B.setdefault("%s/%d" % (g.name.split("::")[-1], len(g.params)), g)
    n = 0
    for k in sorted(set(A) & set(B)):
        cb = {c for c in codes(B[k], depth=2) if c not in ("kOutOfMemory", "kNotInitialized")}
        if not cb:
            continue
        ca = codes(A[k])
        n += 1
        extra = sorted(cb - ca)
        chk.ob(RE, "BaseBuilder::%s" % k, not extra, loc="%s:%d" % (B[k].file.replace("/repo/", ""), B[k].line),
               detail="BaseBuilder::%s can fail with %s, which BaseAssembler::%s (and what it calls) never returns (it has: %s)" %
                      (k.split("/")[0], ", ".join(extra), k.split("/")[0], ", ".join(sorted(ca))), key="errcodes|%s" % k)
    chk.floor(RE + ":pairs", n, 3)
