"""R-VALIDATE-BEFORE-EMIT (DESIGN.md section 2): paired must/may dataflow over one emit
function.  A register id that is packed into the instruction word (masked with 31, so an
out-of-range id silently aliases another register) must have been range-tested on every
path before the word is written.

Validators are not a list of names: a callee defined in the same unit is a validator of its
i-th parameter when its body compares that parameter's id (read through id()/base_id()/
index_id(), directly or through a local, combined only with `|`) against something with a
relational/equality operator.  An id that goes through `+` or `&` before the comparison (as in
check_consecutive's first operand or check_even) is not credited.
"""
from .cfg import Fn, forward

ID_READS = {"id": "", "base_id": ".base", "index_id": ".index"}
CMP_OPS = ("<", "<=", ">", ">=", "==", "!=")


class KeyCtx:
    def __init__(self, fn):
        self.fn = fn
        self.defs = {}      # did -> list of rhs expr ids
        self.types = {}
        self.names = {}
        for p in fn.params:
            self.types[p["did"]] = p["ty"]
            self.names[p["did"]] = p["name"]
        for i, x in fn.ex.items():
            if x["k"] == "decl":
                for v in x["vars"]:
                    self.types[v["did"]] = v["ty"]
                    self.names[v["did"]] = v["name"]
                    if v.get("init"):
                        self.defs.setdefault(v["did"], []).append(v["init"])
            elif x["k"] == "binop" and x["op"] in ("=", "&=", "|="):
                l = fn.e(fn.strip(x["lhs"]))
                if l and l["k"] == "ref" and l.get("dk") == "local":
                    if x["op"] == "=":
                        self.defs.setdefault(l["did"], []).append(x["rhs"])
        self.cache = {}

    def is_int_type(self, ty):
        t = ty.replace("const ", "").strip()
        return t in ("uint32_t", "unsigned int", "int", "uint64_t", "size_t", "unsigned long", "int32_t", "uint8_t", "uint16_t",
                     "int64_t", "long", "unsigned char", "unsigned short", "short", "signed char", "char", "bool", "intptr_t", "uintptr_t")

    def alias(self, did):
        if did in self.cache:
            return self.cache[did]
        self.cache[did] = ""  # cycle guard
        ty = self.types.get(did, "")
        name = self.names.get(did, "?")
        keys = set()
        for rhs in self.defs.get(did, []):
            k = self.key_of(rhs)
            if k:
                keys.add(k)
        if self.is_int_type(ty):
            if len(keys) == 1:
                res = next(iter(keys))
            elif len(keys) > 1:
                res = name
            else:
                res = ""
        else:
            if len(keys) == 1 and len(self.defs.get(did, [])) == 1:
                res = next(iter(keys))
            else:
                res = name
        self.cache[did] = res
        return res

    def key_of(self, eid):
        """'' when the expression does not denote (the id of) a register operand."""
        fn = self.fn
        eid = fn.strip(eid)
        x = fn.e(eid)
        if not x:
            return ""
        k = x["k"]
        if k == "ref":
            if x.get("dk") == "parm":
                if self.is_int_type(x.get("ty", "")):
                    return ""
                return x["name"]
            if x.get("dk") == "local":
                return self.alias(x["did"])
            return ""
        if k == "mcall":
            cn = x.get("cn")
            if cn in ID_READS and x.get("obj") and not x.get("args"):
                b = self.key_of(x["obj"])
                return (b + ID_READS[cn]) if b else ""
            return ""
        if k == "binop" and x["op"] in ("&", "|"):
            return self.key_of(x["lhs"]) or self.key_of(x["rhs"])
        if k == "member":
            return ""
        return ""

    def is_id_valued(self, eid):
        """Does the expression read a register id (id(), base_id(), index_id()) or an id-local?"""
        fn = self.fn
        eid = fn.strip(eid)
        x = fn.e(eid)
        if not x:
            return False
        if x["k"] == "mcall" and x.get("cn") in ID_READS and not x.get("args"):
            return bool(self.key_of(eid))
        if x["k"] == "ref" and x.get("dk") == "local" and self.is_int_type(x.get("ty", "")):
            return bool(self.alias(x["did"]))
        return False


def validator_summary(fn):
    """For a callee: {param index: suffix} of the parameters whose id the body range-tests."""
    kc = KeyCtx(fn)
    pnames = {p["name"]: i for i, p in enumerate(fn.params)}
    res = {}

    def id_terms(eid, out):
        """Collect (param key) of ids that reach this operand through casts and `|` only."""
        eid = fn.strip(eid)
        x = fn.e(eid)
        if not x:
            return
        if x["k"] == "binop" and x["op"] == "|":
            id_terms(x["lhs"], out)
            id_terms(x["rhs"], out)
            return
        if kc.is_id_valued(eid):
            out.append(kc.key_of(eid))

    for i, x in fn.ex.items():
        if x["k"] == "binop" and x["op"] in CMP_OPS:
            terms = []
            id_terms(x["lhs"], terms)
            id_terms(x["rhs"], terms)
            for t in terms:
                base, _, suf = t.partition(".")
                if base in pnames:
                    res[pnames[base]] = ("." + suf) if suf else ""
    # calls of other validators with own parameters are folded by the caller (summaries closure)
    return res, kc


def close_summaries(fns):
    """fns: {qualified name+arity: Fn}.  Returns {callee key: {param index: suffix}} closed over
    validator-calls-validator (check_gp_type(o0,o1,..) style wrappers)."""
    summ = {}
    kcs = {}
    for name, fn in fns.items():
        s, kc = validator_summary(fn)
        summ[name] = s
        kcs[name] = kc
    changed = True
    while changed:
        changed = False
        for name, fn in fns.items():
            pnames = {p["name"]: i for i, p in enumerate(fn.params)}
            for i, x in fn.calls():
                ck = callee_key(x)
                if ck in summ and ck != name:
                    for ai, suf in summ[ck].items():
                        if ai < len(x.get("args", [])):
                            k = kcs[name].key_of(x["args"][ai])
                            base, _, s2 = k.partition(".")
                            if base in pnames and not s2:
                                if pnames[base] not in summ[name]:
                                    summ[name][pnames[base]] = suf
                                    changed = True
    return summ


def callee_key(x):
    return "%s/%d" % (x.get("callee", "?"), len(x.get("args", [])))


def cond_atom(fn, eid):
    """Strip `!`, __builtin_expect and bool casts: returns (atom id, polarity) where polarity is
    True when the condition being true means the atom is true."""
    pol = True
    for _ in range(16):
        eid = fn.strip(eid)
        x = fn.e(eid)
        if not x:
            break
        if x["k"] == "unop" and x["op"] == "!":
            pol = not pol
            eid = x["sub"]
            continue
        if x["k"] == "call" and x.get("cn") == "__builtin_expect":
            eid = x["args"][0]
            continue
        if x["k"] == "binop" and x["op"] in ("||", "&&"):
            # the block that ends an `a || b` / `a && b` condition evaluated only the right operand
            eid = x["rhs"]
            continue
        break
    return eid, pol


def analyse(fn, summaries, emit_callees=("emit32u_le",), pack_callee="add_reg", imm_callee="add_imm",
            mask_values=(31,)):
    """Returns dict with events and reports.  reports: list of (key, pack_line, emit_line)."""
    kc = KeyCtx(fn)
    ev = {b: [] for b in fn.blocks}
    edge_credit = {}   # block -> (polarity, keys)
    stats = {"packs": 0, "validator_calls": 0, "compare_validations": 0, "emits": 0}

    def id_local(eid):
        x = fn.e(fn.strip(eid))
        if x and x["k"] == "ref" and x.get("dk") == "local" and kc.is_int_type(x.get("ty", "")) and kc.alias(x["did"]):
            return x["did"]
        return None

    # id-locals that flow into the instruction word: their definitions are the pack events
    packed_locals = set()
    for i, x in fn.ex.items():
        if x["k"] == "mcall" and x.get("cn") in (pack_callee, imm_callee) and x.get("args"):
            d = id_local(x["args"][0])
            if d:
                packed_locals.add(d)
        elif x["k"] == "binop" and x["op"] in ("&", "&="):
            r = fn.e(fn.strip(x["rhs"]))
            if r is not None and r.get("cv") in mask_values:
                d = id_local(x["lhs"])
                if d:
                    packed_locals.add(d)
    def_sites = {}   # expr id of the defining decl/assignment -> key
    for i, x in fn.ex.items():
        if x["k"] == "decl":
            for v in x["vars"]:
                if v["did"] in packed_locals and v.get("init"):
                    kk = kc.key_of(v["init"])
                    if kk:
                        def_sites[i] = kk
        elif x["k"] == "binop" and x["op"] == "=":
            l = fn.e(fn.strip(x["lhs"]))
            if l and l["k"] == "ref" and l.get("did") in packed_locals:
                kk = kc.key_of(x["rhs"])
                if kk:
                    def_sites[i] = kk

    for b in fn.blocks.values():
        term = b.get("term")
        atom = None
        pol = True
        if term and term.get("cond") and len([s for s in b["succs"]]) == 2:
            atom, pol = cond_atom(fn, term["cond"])
        for el in b["elems"]:
            if not isinstance(el, int):
                continue
            x = fn.e(el)
            if not x:
                continue
            k = x["k"]
            if el in def_sites:
                ev[b["id"]].append(("pack", [def_sites[el]], x["l"], el))
                stats["packs"] += 1
            if k in ("call", "mcall"):
                cn = x.get("cn", "")
                ck = callee_key(x)
                if cn in emit_callees:
                    ev[b["id"]].append(("emit", None, x["l"], el))
                    stats["emits"] += 1
                elif ck in summaries and summaries[ck]:
                    keys = []
                    for ai, suf in summaries[ck].items():
                        if ai < len(x["args"]):
                            kk = kc.key_of(x["args"][ai])
                            if kk:
                                keys.append(kk + suf)
                    stats["validator_calls"] += 1
                    if atom == el:
                        edge_credit[b["id"]] = (pol, keys, x["l"], cn)
                    else:
                        ev[b["id"]].append(("validate", keys, x["l"], el))
                elif cn == pack_callee and k == "mcall":
                    a0 = x["args"][0] if x.get("args") else None
                    a0x = fn.e(fn.strip(a0)) if a0 else None
                    if a0x is not None and "cv" in a0x:
                        continue
                    if id_local(a0):
                        continue
                    # only the outermost pack of an operand/id counts (add_reg(op) calls add_reg(id))
                    kk = kc.key_of(a0) if a0 else ""
                    ev[b["id"]].append(("pack", [kk or "?" + fn.text(a0)], x["l"], el))
                    stats["packs"] += 1
                elif cn == imm_callee and k == "mcall" and x.get("args"):
                    a0 = x["args"][0]
                    if kc.is_id_valued(a0) and not id_local(a0):
                        ev[b["id"]].append(("pack", [kc.key_of(a0)], x["l"], el))
                        stats["packs"] += 1
            elif k == "binop":
                op = x["op"]
                if op in ("&", "&="):
                    r = fn.e(fn.strip(x["rhs"]))
                    l = fn.e(fn.strip(x["lhs"]))
                    side = None
                    if r is not None and r.get("cv") in mask_values:
                        side = x["lhs"]
                    elif l is not None and l.get("cv") in mask_values and op == "&":
                        side = x["rhs"]
                    if side is not None and kc.is_id_valued(side) and not id_local(side):
                        ev[b["id"]].append(("pack", [kc.key_of(side)], x["l"], el))
                        stats["packs"] += 1
                elif op in CMP_OPS:
                    keys = []
                    for side in (x["lhs"], x["rhs"]):
                        if kc.is_id_valued(side):
                            keys.append(kc.key_of(side))
                    if keys:
                        ev[b["id"]].append(("validate", keys, x["l"], el))
                        stats["compare_validations"] += 1

    universe = set()
    for lst in ev.values():
        for e in lst:
            if e[1]:
                universe.update(e[1])
    for pol, keys, _, _ in edge_credit.values():
        universe.update(keys)
    universe = frozenset(universe)

    reports = {}

    def apply(events, state, report):
        V, U = set(state[0]), set(state[1])
        for kind, keys, line, el in events:
            if kind == "validate":
                for k in keys:
                    V.add(k)
                U = {u for u in U if u[0] not in keys}
            elif kind == "pack":
                for k in keys:
                    if k not in V:
                        U.add((k, line))
            elif kind == "emit" and report:
                for (k, pl) in U:
                    reports.setdefault((k, pl), line)
        return (frozenset(V), frozenset(U))

    def transfer(b, st):
        return apply(ev[b], st, False)

    def edge(b, si, succ, st):
        ec = edge_credit.get(b)
        if not ec:
            return st
        pol, keys, _, _ = ec
        # successor 0 is the branch taken when the condition is true
        cond_true = (si == 0)
        if cond_true == pol:
            V = set(st[0]) | set(keys)
            U = frozenset(u for u in st[1] if u[0] not in keys)
            return (frozenset(V), U)
        return st

    def join(states):
        V = set(states[0][0])
        U = set(states[0][1])
        for s in states[1:]:
            V &= s[0]
            U |= s[1]
        return (frozenset(V), frozenset(U))

    IN, OUT = forward(fn, (frozenset(), frozenset()), transfer, join, edge=edge)
    for b in fn.blocks:
        if b in IN:
            apply(ev[b], IN[b], True)

    pack_sites = []
    for b, lst in ev.items():
        for kind, keys, line, el in lst:
            if kind == "pack":
                for k in keys:
                    pack_sites.append((k, line, el, b))
    return {"reports": reports, "stats": stats, "pack_sites": pack_sites, "universe": sorted(universe),
            "edge_validators": len(edge_credit), "IN": IN, "events": ev}
