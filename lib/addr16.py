"""R-ADDR16-ONLY-IN-32BIT (C01, C14): no address-size prefix decision of x86 Assembler::_emit is made before 16-bit addressing was
ruled out for 64-bit mode.

`mem_info_table` marks a memory operand with 16-bit base / index registers with kX86MemInfo_67H_X86: in 32-bit mode it needs the 67h
prefix.  In 64-bit mode 67h selects 32-bit addressing - 16-bit addressing does not exist - and `_address_override_mask()` holds only
the 64-bit flag, so without a test the operand is encoded through the 16-bit ModRM table with no prefix at all (`mov eax, [bx+si]` =
8B 00 = `mov eax, [rax]`).  Every `emit_address_override()` is dominated by a branch whose condition mentions
kX86MemInfo_67H_X86 together with is_32bit() / is_64bit()."""
from . import cfg
from .must import Must


def _mentions(fn, e, pred, depth=0):
    x = fn.e(e)
    if x is None or depth > 14:
        return False
    if pred(x):
        return True
    return any(_mentions(fn, c, pred, depth + 1) for c in fn.children(e))


def run(chk, unit="asmjit/x86/x86assembler.cpp", rule="R-ADDR16-ONLY-IN-32BIT"):
    chk.rule(rule, "x86 _emit: every writer.emit_address_override(..) is dominated by a branch whose condition tests kX86MemInfo_67H_X86 "
                   "together with the mode (is_32bit() / is_64bit()): 16-bit addressing is refused in 64-bit mode instead of being encoded "
                   "as the 64-bit registers of the same numbers")
    f = chk.facts(unit, funcs=r"x86::Assembler::_emit$")
    fn = cfg.find_fn(f, "x86::Assembler::_emit")

    def edge(b, si, atom, holds):
        term = fn.blocks[b].get("term") or {}
        c = term.get("cond")
        if c is None:
            return ()
        if (_mentions(fn, c, lambda y: y.get("cvn") == "kX86MemInfo_67H_X86" or (y["k"] == "ref" and y.get("name") == "kX86MemInfo_67H_X86")) and
                _mentions(fn, c, lambda y: y["k"] in ("mcall", "call") and y.get("cn") in ("is_32bit", "is_64bit"))):
            return [("addr16-decided",)]
        return ()
    m = Must(fn, None, edge)
    par = fn.parent_map()
    n = 0
    for i, x in sorted(fn.calls(lambda x: x["k"] == "mcall" and x.get("cn") == "emit_address_override"), key=lambda t: fn.line_of(t[0])):
        # only the sites whose argument is computed from rm_info (a constant `true` is an explicit request of the case)
        if not _mentions(fn, i, lambda y: y["k"] == "ref" and y.get("name") == "rm_info"):
            continue
        n += 1
        st = m.before(i)
        j = i
        while st is None and j in par:
            j = par[j]
            st = m.before(j)
        chk.ob(rule, "x86::_emit|emit_address_override#%d" % n, ("addr16-decided",) in (st or frozenset()), loc=fn.loc(i),
               detail="the address-size prefix is decided (line %d) on a path that never tested kX86MemInfo_67H_X86 against the mode: in 64-bit "
                      "mode a memory operand with 16-bit registers gets no prefix and is encoded as the 64-bit registers of the same numbers "
                      "(`mov eax, [bx+si]` = 8B 00 = `mov eax, [rax]`)" % fn.line_of(i), key="addr16|%d" % n)
    chk.floor(rule + ":sites", n, 5)
    return n
