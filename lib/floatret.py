"""R-FLOAT-RET-FOLLOWS-ARG-CLASS (C06): where a 32-bit x86 convention returns a float is decided from the convention, not from the
word size alone.

32-bit cdecl / stdcall / fastcall return float and double in ST0; __vectorcall - which passes them in XMM registers
(CallConvFlags::kPassFloatsByVec) - returns them in XMM0 (MSVC: "a vector type is either a floating-point type or a SIMD vector type
... vector type results are returned in XMM0").  In x86 FuncInternal::init_func_detail every choice between RegType::kX86_St and
RegType::kVec128 is made by a condition that mentions the convention (its kPassFloatsByVec flag or its id); a choice that looks only
at Environment::is_32bit() gives one answer for conventions that differ."""
from . import cfg


def _mentions(fn, e, names, depth=0):
    x = fn.e(e)
    if x is None or depth > 14:
        return False
    if x.get("cvn") in names:
        return True
    return any(_mentions(fn, c, names, depth + 1) for c in fn.children(e))


def run(chk, unit="asmjit/x86/x86func.cpp", rule="R-FLOAT-RET-FOLLOWS-ARG-CLASS"):
    chk.rule(rule, "x86 init_func_detail: every conditional that selects between RegType::kX86_St and RegType::kVec128 for a returned value has a "
                   "condition that mentions CallConvFlags::kPassFloatsByVec or a CallConvId")
    f = chk.facts(unit, funcs=r"x86::FuncInternal::init_func_detail$")
    fn = cfg.find_fn(f, "init_func_detail")
    n = 0
    for i, x in sorted(fn.ex.items()):
        if x["k"] != "cond":
            continue
        arms = {(fn.e(fn.strip(x.get(k))) or {}).get("cvn") for k in ("a", "b") if x.get(k) is not None}
        if arms != {"kX86_St", "kVec128"}:
            continue
        n += 1
        ok = _mentions(fn, x["c"], {"kPassFloatsByVec", "kVectorCall"})
        chk.ob(rule, "x86::init_func_detail|st-or-xmm#%d" % n, ok, loc=fn.loc(i),
               detail="`%s`: ST0 or XMM0 for a returned float is chosen without looking at the convention: 32-bit __vectorcall (floats passed "
                      "in XMM0..5) is told to return a float in ST0 although the argument of the same type arrives in XMM0" %
                      " ".join(fn.text(i).split())[:90], key="floatret|%d" % n)
    chk.floor(rule + ":choices", n, 1)
    return n
