"""R-FAIL-PATH-PURE (C15): in the arena containers an allocation-failure exit leaves the object as it was.

For every function of the listed units: a return statement that is reached on the edge where an allocation result tested
null (must-fact `alloc-failed`) must not be reachable through a write to a member of `this` made earlier on the same path
(may-fact `dirty`, path-sensitive through literal bool flags via lib.relational is not needed: the facts are generated and
consumed on one straight path).  Writes that happen *before the allocation call itself* are tolerated only if the function
restores them - none of the containers does that today, so any write counts."""
import re
from .cfg import forward
from .must import Must, branch_atoms

ALLOC_CALLS = re.compile(r"^(alloc|alloc_oneshot|alloc_reusable|alloc_reusable_zeroed|alloc_zeroed|_alloc_oneshot|_alloc_reusable|_alloc_reusable_zeroed|malloc|realloc|calloc|new_node_t|new_t|dup)$")


def run(chk, units, rule="R-FAIL-PATH-PURE", floor=4):
    chk.rule(rule, "arena containers (ArenaHash, ArenaVector, ArenaBitSet, ArenaString, ...): a return taken because an allocation returned null "
                   "is not preceded, on any path, by a write to a member of the container - a failed grow/rehash leaves the container exactly as "
                   "it was, with its old storage and its old size/modulus")
    from .cfg import load_functions
    n = 0
    for unit, rex in units:
        f = chk.facts(unit, funcs=rex)
        for fn in load_functions(f):
            # locals holding allocation results
            alloc_locals = {}
            for i, x in fn.ex.items():
                if x["k"] == "decl":
                    for v in x["vars"]:
                        if v.get("init") and any(fn.e(j)["k"] in ("call", "mcall") and ALLOC_CALLS.match(fn.e(j).get("cn") or "") for j in fn.walk(v["init"])):
                            alloc_locals[v["did"]] = v["name"]
                elif x["k"] == "binop" and x["op"] == "=":
                    l = fn.e(fn.strip(x["lhs"]))
                    if l and l["k"] == "ref" and l.get("dk") == "local" and any(fn.e(j)["k"] in ("call", "mcall") and ALLOC_CALLS.match(fn.e(j).get("cn") or "") for j in fn.walk(x["rhs"])):
                        alloc_locals[l["did"]] = l["name"]
            if not alloc_locals:
                continue

            def null_edge(atom, holds):
                """does `atom` evaluating to `holds` mean that an allocation result is null?"""
                x = fn.e(atom)
                if not x:
                    return None
                if x["k"] == "ref" and x.get("did") in alloc_locals:
                    return x["did"] if not holds else None
                if x["k"] == "unop" and x["op"] == "!":
                    s = fn.e(fn.strip(x["sub"]))
                    if s and s["k"] == "ref" and s.get("did") in alloc_locals:
                        return s["did"] if holds else None
                if x["k"] == "binop" and x["op"] in ("==", "!="):
                    a, b = fn.e(fn.strip(x["lhs"])), fn.e(fn.strip(x["rhs"]))
                    for p, q in ((a, b), (b, a)):
                        if p and p["k"] == "ref" and p.get("did") in alloc_locals and q is not None and (q["k"] == "null" or q.get("cv") == 0):
                            return p["did"] if (x["op"] == "==") == holds else None
                return None

            def edge_fx(b, si, atom, holds):
                d = null_edge(atom, holds)
                return [("alloc-failed", d)] if d is not None else ()

            def elem_fx(eid, x):
                if x["k"] == "binop" and x["op"] == "=":
                    l = fn.e(fn.strip(x["lhs"]))
                    if l and l["k"] == "ref" and l.get("did") in alloc_locals:
                        return ((), (("alloc-failed", l["did"]),))      # the local now holds something else
                return None
            m = Must(fn, elem_fx, edge_fx)

            def is_write(el):
                x = fn.e(el)
                if not x:
                    return False
                tgt = None
                if x["k"] == "binop" and x["op"].endswith("=") and x["op"] not in ("==", "!=", "<=", ">="):
                    tgt = x["lhs"]
                elif x["k"] == "unop" and x["op"] in ("++", "--"):
                    tgt = x["sub"]
                elif x["k"] == "opcall" and (x.get("op") or "").endswith("=") and x.get("op") not in ("==", "!=", "<=", ">=") and x.get("obj"):
                    tgt = x["obj"]
                if tgt is None:
                    return False
                p = fn.access_path(tgt) or ""
                return p.startswith("this.")

            def transfer(b, st):
                for el in fn.blocks[b]["elems"]:
                    if isinstance(el, int) and not st and is_write(el):
                        st = el
                return st
            IN, OUT = forward(fn, 0, transfer, lambda ss: max(ss))
            for b, idx, r in fn.return_sites():
                st = m.before(r) or frozenset()
                failed = [f_[1] for f_ in st if f_[0] == "alloc-failed"]
                if not failed:
                    continue
                rx = fn.e(r)
                val = fn.e(fn.strip(rx["val"])) if rx.get("val") else None
                if val is not None and not (val["k"] == "null" or val.get("cv") == 0 or (val.get("cvn") and val.get("cvn") != "kOk")
                                            or (val["k"] in ("call", "mcall") and val.get("cn") in ("make_error", "report_error"))):
                    continue            # not a failure result
                dirty = IN.get(b, 0)
                for el in fn.blocks[b]["elems"][:idx]:
                    if isinstance(el, int) and not dirty and is_write(el):
                        dirty = el
                n += 1
                chk.ob(rule, "%s|return-after-null(%s)#%d" % (fn.name.replace("asmjit::", ""), alloc_locals[failed[0]], n), not dirty, loc=fn.loc(r),
                       detail="this exit is taken when the allocation of `%s` failed, but `%s` (line %d) has already modified the container on a path "
                              "to it: the container keeps its old storage with new bookkeeping" % (
                                  alloc_locals[failed[0]], " ".join(fn.text(dirty).split())[:50] if dirty else "", fn.line_of(dirty) if dirty else 0),
                       key="failpure|%s|%s" % (fn.name.replace("asmjit::", ""), alloc_locals[failed[0]]))
    chk.floor(rule + ":failure-exits", n, floor)


RELEASES = re.compile(r"^(unmap_memory|release|release_dual_mapping|free|munmap|VirtualFree|close)$")


def run_release_not_failed(chk, units, rule="R-RELEASE-NOT-FAILED", floor=1):
    chk.rule(rule, "on the edge where an acquisition `err = acquire(&X, ...)` reported failure, no release call is handed X itself: X was not "
                   "produced by the failed call (it is null or stale); what has to be rolled back is what earlier acquisitions produced")
    from .cfg import load_functions
    n = 0
    for unit, rex in units:
        f = chk.facts(unit, funcs=rex)
        for fn in load_functions(f):
            acq = {}            # did of the Error local -> normalised text of the out argument, per assignment element
            for i, x in fn.ex.items():
                call, errdid = None, None
                if x["k"] == "decl":
                    for v in x["vars"]:
                        if v.get("init") and "Error" in v.get("ty", ""):
                            c = fn.e(fn.strip(v["init"]))
                            if c and c["k"] in ("call", "mcall"):
                                call, errdid = c, v["did"]
                elif x["k"] == "binop" and x["op"] == "=":
                    l = fn.e(fn.strip(x["lhs"]))
                    c = fn.e(fn.strip(x["rhs"]))
                    if l and l["k"] == "ref" and "Error" in l.get("ty", "") and c and c["k"] in ("call", "mcall"):
                        call, errdid = c, l["did"]
                if call is None:
                    continue
                for a in call.get("args", []):
                    ax = fn.e(a)
                    while ax and ax["k"] in ("cast", "paren"):
                        ax = fn.e(ax["sub"])
                    if ax and ax["k"] == "unop" and ax["op"] == "&":
                        acq.setdefault(errdid, {})[i] = re.sub(r"\s+", "", fn.text(ax["sub"]))
            if not acq:
                continue
            # which acquisition does `err` describe at a branch?  the last assignment in the same or a dominating block: use a must-analysis
            def elem_fx(eid, x):
                for d, sites in acq.items():
                    if eid in sites:
                        kills = tuple(("acq", d, t) for t in set(sites.values()) if t != sites[eid])
                        return ((("acq", d, sites[eid]),), kills)
                return None

            def edge_fx(b, si, atom, holds):
                x = fn.e(atom)
                if x and x["k"] == "binop" and x["op"] in ("!=", "=="):
                    a, c = fn.e(fn.strip(x["lhs"])), fn.e(fn.strip(x["rhs"]))
                    for p, q in ((a, c), (c, a)):
                        if p and p["k"] == "ref" and p.get("did") in acq and q is not None and q.get("cvn") == "kOk" and (x["op"] == "!=") == holds:
                            return [("failed", p["did"])]
                return ()
            m = Must(fn, elem_fx, edge_fx)
            for i, x in fn.calls(lambda x: RELEASES.match(x.get("cn") or "")):
                if not x.get("args"):
                    continue
                st = m.before(i) or frozenset()
                failed = {f_[1] for f_ in st if f_[0] == "failed"}
                outs = {f_[2] for f_ in st if f_[0] == "acq" and f_[1] in failed}
                if not failed:
                    continue
                n += 1
                arg = re.sub(r"\s+", "", fn.text(x["args"][0]))
                chk.ob(rule, "%s|%s(%s)" % (fn.name.replace("asmjit::", ""), x["cn"], arg[:30]), arg not in outs, loc=fn.loc(i),
                       detail="`%s` releases `%s`, the output of the acquisition that has just failed; the mapping acquired before it is never "
                              "released" % (" ".join(fn.text(i).split())[:60], arg),
                       key="releasefailed|%s|%s" % (fn.name.replace("asmjit::", ""), x["cn"]))
    chk.floor(rule + ":release-on-failure-sites", n, floor)


COMMIT_CALLS = ("insert", "append", "append_unchecked", "push", "add")


def run_commit_last(chk, unit, rex, rule="R-COMMIT-LAST", floor=5):
    chk.rule(rule, "CodeHolder: once an entry was put into one of the holder's own containers (sections, labels, named labels, relocations, address "
                   "table entries), no failing return of the same function can follow - the insertion is the last step that can fail, so a "
                   "reported failure never leaves a half-registered entry behind")
    from .cfg import load_functions
    f = chk.facts(unit, funcs=rex)
    n = 0
    for fn in load_functions(f):
        ret = fn.raw.get("ret") or ""
        if "Error" not in ret and "*" not in ret:
            continue
        commits = [i for i, x in fn.calls(lambda x: x["k"] == "mcall" and x.get("cn") in COMMIT_CALLS and x.get("obj"))
                   if (fn.access_path(fn.e(i)["obj"]) or "").startswith("this._")]
        if not commits:
            continue

        def transfer(b, st, fn=fn, commits=commits):
            for el in fn.blocks[b]["elems"]:
                if isinstance(el, int) and el in commits:
                    st = el
            return st
        IN, OUT = forward(fn, 0, transfer, lambda ss: max(ss))
        bad = None
        for b, idx, r in fn.return_sites():
            st = IN.get(b, 0)
            for el in fn.blocks[b]["elems"][:idx]:
                if isinstance(el, int) and el in commits:
                    st = el
            x = fn.e(r)
            v = fn.e(fn.strip(x["val"])) if x.get("val") else None
            if v is None or v.get("cvn") == "kOk":
                continue
            fail = (v["k"] == "null" or (v.get("cvn") and v["cvn"] != "kOk") or (v["k"] in ("call", "mcall") and v.get("cn") in ("make_error", "report_error"))
                    or (v["k"] == "ref" and "Error" in v.get("ty", "") and v.get("dk") in ("local", "parm")))
            if st and fail and bad is None:
                bad = (st, r)
        for c in commits:
            n += 1
        chk.ob(rule, fn.name.replace("asmjit::", ""), bad is None, loc=fn.loc(bad[0]) if bad else "%s:%d" % (unit, fn.line),
               detail="`%s` registers the entry and the failing return at line %d can still follow: after the reported failure the entry stays "
                      "registered although the rest of the operation did not happen" % (" ".join(fn.text(bad[0]).split())[:60] if bad else "", fn.line_of(bad[1]) if bad else 0),
               key="commitlast|%s" % fn.name.replace("asmjit::", ""))
    chk.floor(rule + ":commit-sites", n, floor)


def run_arena_reset(chk, unit="asmjit/core/codeholder.cpp", rex=r"asmjit::CodeHolder::[a-z_0-9]+$|asmjit::CodeHolder_[A-Za-z_0-9]+$"):
    """R-ARENA-RESET-AFTER-CONTAINERS: no container keeps storage of an arena that is reset"""
    R = "R-ARENA-RESET-AFTER-CONTAINERS"
    chk.rule(R, "CodeHolder: where `_arena.reset()` is called, every arena container member that may have received storage earlier on the path "
                "(directly, or in a unit helper called with the holder: reserve* / append / insert / resize with the arena) has been reset "
                "before: otherwise the container's data pointer outlives the arena block it points into")
    f = chk.facts(unit, funcs=rex)
    fns = load_functions_(f)
    by = {}
    for g in fns:
        by.setdefault(g.name, []).append(g)
    GROW = re.compile(r"^(reserve|reserve_additional|reserve_fit|reserve_grow|append|insert|prepend|resize|resize_fit|resize_grow|grow)$")

    def member_of(g, obj):
        t = re.sub(r"\s+", "", g.text(obj))
        m = re.match(r"^(?:this->|self->)?(_[a-z_0-9]+)$", t)
        return m.group(1) if m else None

    def grows(g, depth=0):
        """members of the holder that g may give arena storage to"""
        out = set()
        for i, x in g.calls(lambda x: x["k"] == "mcall" and GROW.match(x.get("cn") or "") and x.get("obj") and x.get("args")):
            if "_arena" in g.text(x["args"][0]):
                m = member_of(g, x["obj"])
                if m:
                    out.add(m)
        return out
    n = 0
    for g in fns:
        if not g.file.endswith(unit.split("/")[-1]):
            continue
        resets = [i for i, x in g.calls(lambda x: x["k"] == "mcall" and x.get("cn") == "reset" and x.get("obj") and member_of(g, x["obj"]) == "_arena")]
        if not resets:
            continue

        def transfer(b, st, g=g):
            st = set(st)
            for el in g.blocks[b]["elems"]:
                if not isinstance(el, int):
                    continue
                x = g.e(el)
                if x is None:
                    continue
                if x["k"] == "mcall" and x.get("obj"):
                    m = member_of(g, x["obj"])
                    if m and GROW.match(x.get("cn") or "") and x.get("args") and "_arena" in g.text(x["args"][0]):
                        st.add(m)
                    elif m and x.get("cn") == "reset":
                        st.discard(m)
                elif x["k"] == "call":
                    for h in by.get(x.get("callee") or "", []):
                        if h is not g:
                            st |= grows(h)
            return frozenset(st)
        IN, OUT = forward(g, frozenset(), transfer, lambda ss: frozenset().union(*ss))
        pos = g.block_of()
        for r in resets:
            if r not in pos:
                continue
            b, idx = pos[r]
            st = set(IN.get(b, frozenset()))
            for el in g.blocks[b]["elems"][:idx]:
                if isinstance(el, int):
                    x = g.e(el)
                    if x and x["k"] == "mcall" and x.get("obj"):
                        m = member_of(g, x["obj"])
                        if m and GROW.match(x.get("cn") or "") and x.get("args") and "_arena" in g.text(x["args"][0]):
                            st.add(m)
                        elif m and x.get("cn") == "reset":
                            st.discard(m)
                    elif x and x["k"] == "call":
                        for h in by.get(x.get("callee") or "", []):
                            if h is not g:
                                st |= grows(h)
            n += 1
            short = g.name.replace("asmjit::", "")
            chk.ob(R, "%s|_arena.reset@%d" % (short, g.line_of(r) - g.line), not st, loc=g.loc(r),
                   detail="`_arena.reset()` runs while %s may still hold storage allocated from the arena on this path" % ", ".join(sorted(st)),
                   key="arenareset|%s" % short)
    chk.floor(R + ":resets", n, 2)


def load_functions_(f):
    from .cfg import load_functions
    return load_functions(f)


def run_wrapping_bounds(chk, units, fixture=None, floor=10):
    """R-NO-WRAPPING-BOUND-TEST: a bounds test does not add two caller-controlled sizes"""
    R = "R-NO-WRAPPING-BOUND-TEST"
    chk.rule(R, "in the JIT allocator / section copy functions no relational test has an operand `a + b` in which a and b are size_t / "
                "uint64_t parameters or non-constant locals of the function and neither has an upper bound established (a dominating "
                "comparison) on every path to the test: such a sum wraps for large values and the test then accepts a range that lies outside "
                "the object (the safe form is `a > n || n - a < b`); a fixture with one wrapping and one safe test is analysed on every run to "
                "show that the matcher still fires")
    def scan(fn):
        """relational tests with an operand `a + b` where a and b are size-typed parameters or locals and neither has an upper bound
        established on every path to the test"""
        from .must import Must
        SZ = r"size_t|uint64_t|unsigned long"
        pd = {p["did"] for p in fn.params if re.search(SZ, p["ty"]) and "*" not in p["ty"] and "&" not in p["ty"]}
        for i, x in fn.ex.items():
            if x["k"] == "decl":
                for v in x["vars"]:
                    if re.search(SZ, v.get("ty") or "") and "*" not in v["ty"] and "&" not in v["ty"]:
                        iv = fn.e(fn.strip(v["init"])) if v.get("init") is not None else None
                        if iv is not None and isinstance(iv.get("cv"), int):
                            continue            # a constant
                        pd.add(v["did"])
        cands = []
        for i, x in fn.ex.items():
            if x["k"] == "binop" and x["op"] in ("<", "<=", ">", ">="):
                for side in (x["lhs"], x["rhs"]):
                    y = fn.e(fn.strip(side))
                    if y is not None and y["k"] == "binop" and y["op"] == "+":
                        a, b = fn.e(fn.strip(y["lhs"])), fn.e(fn.strip(y["rhs"]))
                        if a is not None and b is not None and a["k"] == "ref" and b["k"] == "ref" and a.get("did") in pd and b.get("did") in pd:
                            cands.append((i, a["did"], b["did"]))
        if not cands:
            return []

        def edge(b, si, atom, holds):
            x = fn.e(atom)
            if not (x and x["k"] == "binop" and x["op"] in ("<", "<=", ">", ">=")):
                return ()
            out = []
            for v_, o_, op in ((x["lhs"], x["rhs"], x["op"]), (x["rhs"], x["lhs"], {"<": ">", "<=": ">=", ">": "<", ">=": "<="}[x["op"]])):
                vx = fn.e(fn.strip(v_))
                ox = fn.e(fn.strip(o_))
                if vx is not None and vx["k"] == "ref" and vx.get("did") in pd and not (ox is not None and ox["k"] == "binop" and ox["op"] == "+"):
                    upper = (op in ("<", "<=")) == holds
                    if upper:
                        out.append(("ub", vx["did"]))
            return out
        m = Must(fn, None, edge)
        par = fn.parent_map()
        out = []
        for i, a, b in cands:
            st = m.before(i)
            j = i
            while st is None and j in par:
                j = par[j]
                st = m.before(j)
            if st is None:
                for blk in fn.blocks.values():
                    t = blk.get("term")
                    if t and t.get("cond") is not None and i in set(fn.walk(t["cond"])):
                        st = m.at_block_end(blk["id"])
            st = st or frozenset()
            if ("ub", a) not in st and ("ub", b) not in st:
                out.append(i)
        return out
    n = 0
    for unit, rex in units:
        f = chk.facts(unit, funcs=rex)
        for fn in load_functions_(f):
            if not fn.file.endswith(unit.split("/")[-1]):
                continue
            if not any(re.search(r"size_t|uint64_t", p["ty"]) for p in fn.params):
                continue
            n += 1
            bad = scan(fn)
            short = fn.name.replace("asmjit::", "")
            chk.ob(R, "%s/%d" % (short, len(fn.params)), not bad, loc=fn.loc(bad[0]) if bad else "%s:%d" % (unit, fn.line),
                   detail="`%s` compares a sum of two caller-supplied sizes: for arguments close to SIZE_MAX the sum wraps and the range is accepted" %
                          (" ".join(fn.text(bad[0]).split())[:60] if bad else ""), key="wrapbound|%s" % short)
    chk.floor(R + ":functions", n, floor)
    if fixture:
        ff = core_astfacts(fixture)
        got = {}
        for fn in load_functions_(ff):
            got[fn.name.split("::")[-1]] = len(scan(fn))
        chk.need(got.get("write_wrapping") == 1 and got.get("write_safe") == 0, "the wrapping-bound matcher no longer recognises its positive example (%s)" % got)


def core_astfacts(path):
    from . import core
    return core.astfacts(path, funcs=r"fixture::[a-z_]+$")
