"""Stack argument slots of the x86 conventions (C06).

R-STACK-SLOT-AT-LEAST-REGISTER: every advance of the argument area `stack_offset += S` in x86 init_func_detail() uses a slot size that
is a constant or computed as max(size_of(type), register_size): the psABI (and every 32-bit convention) rounds each stack argument up
to the register size - a `float` on the x86-64 stack occupies an eightbyte.

R-STACK-ADVANCE-ONLY-FOR-STACK-ARGS: an advance of `stack_offset` is executed only for an argument that was given a stack slot: on
every path from the start of the argument's iteration to the `+=` an assign_stack_offset() has happened (an argument - or the pointer
to it - that went into a register consumes no stack)."""
from . import cfg
from .must import Must


def run(chk, unit="asmjit/x86/x86func.cpp", fname=r"asmjit::x86::FuncInternal::init_func_detail$"):
    R1 = "R-STACK-SLOT-AT-LEAST-REGISTER"
    R2 = "R-STACK-ADVANCE-ONLY-FOR-STACK-ARGS"
    chk.rule(R1, "x86 init_func_detail(): the amount added to `stack_offset` for a stack-passed argument is a constant or a local computed as "
                 "max(TypeUtils::size_of(type), register_size): no stack argument occupies less than a register-sized slot")
    chk.rule(R2, "x86 init_func_detail(): every `stack_offset += ...` is reached, within the iteration of its argument, only after "
                 "assign_stack_offset() was called for that argument: arguments passed in registers (or whose address is) take no stack")
    f = chk.facts(unit, funcs=fname)
    fns = [g for g in cfg.load_functions(f) if g.file.endswith(unit.split("/")[-1])]
    chk.need(fns, "x86 init_func_detail not found")
    fn = fns[0]
    inits = {}
    for i, x in fn.ex.items():
        if x["k"] == "decl":
            for v in x["vars"]:
                if v.get("init") is not None:
                    inits[v["did"]] = v["init"]

    def elem(eid, x):
        if x["k"] == "mcall" and x.get("cn") == "assign_stack_offset":
            return ((("stack",),), ())
        if x["k"] == "decl" and any("FuncValue" in (v.get("ty") or "") for v in x["vars"]):
            return ((), (("stack",),))          # `FuncValue& arg = ...` starts the next argument
        return None
    m = Must(fn, elem, None)
    n = 0
    for i, x in sorted(fn.ex.items()):
        if not (x["k"] == "binop" and x["op"] == "+="):
            continue
        l = fn.e(fn.strip(x["lhs"]))
        if l is None or l.get("name") != "stack_offset":
            continue
        n += 1
        r = fn.e(fn.strip(x["rhs"]))
        ok = False
        if r is not None and isinstance(r.get("cv"), int):
            ok = True
        elif r is not None and r["k"] == "ref" and r.get("did") in inits:
            src = inits[r["did"]]
            has_max = any((fn.e(j) or {}).get("k") in ("call", "mcall") and (fn.e(j) or {}).get("cn") == "max" for j in fn.walk(src))
            has_reg = any((fn.e(j) or {}).get("k") == "ref" and (fn.e(j) or {}).get("name") == "register_size" for j in fn.walk(src))
            ok = has_max and has_reg
        inst = "init_func_detail|stack_offset+=%s@%d" % (" ".join(fn.text(x["rhs"]).split())[:12], fn.line_of(i) - fn.line)
        chk.ob(R1, inst, ok, loc=fn.loc(i),
               detail="`%s` advances the argument area by the bare size of the type: a 4-byte `float` passed on the x86-64 stack then occupies 4 "
                      "bytes instead of an eightbyte and every later stack argument is misplaced" % " ".join(fn.text(i).split())[:50], key="stackslot|size|%d" % n)
        chk.ob(R2, inst, ("stack",) in (m.before(i) or frozenset()), loc=fn.loc(i),
               detail="`%s` is also executed for an argument that was not given a stack slot (it, or its address, went into a register): the "
                      "following stack arguments are placed 8 bytes too far" % " ".join(fn.text(i).split())[:50], key="stackslot|advance|%d" % n)
    chk.floor(R1 + ":advances", n, 4)

    # ------------------------------------------------------------------------------------------------ vector stack arguments are aligned
    R3 = "R-VEC-STACK-ARG-ALIGNED"
    chk.rule(R3, "x86 init_func_detail(), default strategy: in the branch that handles float / vector types every assign_stack_offset() is "
                 "reached only after `stack_offset = align_up(stack_offset, <computed from the argument's size>)` on the same path (psABI: an "
                 "__m128 / __m256 stack argument is aligned to its size); the register-sized integer slots need no alignment")
    par = fn.parent_map()

    def in_vec_branch(e):
        j = e
        while j in par:
            up = par[j]
            ux = fn.e(up)
            if ux is not None and ux["k"] == "s:IfStmt" and ux.get("cond") is not None and j != ux["cond"]:
                rest = [c for c in ux.get("ch", []) if c != ux["cond"]]
                if rest and j == rest[0] and any((fn.e(q) or {}).get("k") in ("call", "mcall") and (fn.e(q) or {}).get("cn") == "is_vec" for q in fn.walk(ux["cond"])):
                    return True
            j = up
        return False
    size_locals = {d for d, init in inits.items() if any((fn.e(j) or {}).get("k") in ("call", "mcall") and (fn.e(j) or {}).get("cn") == "size_of" for j in fn.walk(init))}

    def elem2(eid, x):
        if x["k"] == "binop" and x["op"] == "=":
            l = fn.e(fn.strip(x["lhs"]))
            r = fn.e(fn.strip(x["rhs"]))
            if l is not None and l.get("name") == "stack_offset" and r is not None and r["k"] in ("call", "mcall") and r.get("cn") == "align_up" and len(r.get("args", [])) == 2:
                if any((fn.e(j) or {}).get("k") == "ref" and (fn.e(j) or {}).get("did") in size_locals for j in fn.walk(r["args"][1])):
                    return ((("aligned",),), ())
        if x["k"] == "decl" and any("FuncValue" in (v.get("ty") or "") for v in x["vars"]):
            return ((), (("aligned",),))
        return None
    def edge2(b, si, atom, holds):
        # `if (size >= 16) align`: on the other edge the argument is smaller than a vector and needs no alignment beyond its slot
        x = fn.e(atom)
        if x is not None and x["k"] == "binop" and x["op"] in (">=", ">") and not holds:
            l, r = fn.e(fn.strip(x["lhs"])), fn.e(fn.strip(x["rhs"]))
            if l is not None and l.get("did") in size_locals and r is not None and isinstance(r.get("cv"), int) and r["cv"] + (1 if x["op"] == ">" else 0) <= 16:
                return [("aligned",)]
        return ()
    m2 = Must(fn, elem2, edge2)
    nv = 0
    for i, x in sorted(fn.calls(lambda x: x["k"] == "mcall" and x.get("cn") == "assign_stack_offset")):
        if not in_vec_branch(i):
            continue
        # the Win64 strategies pass vectors by reference (8-byte slots): only slots whose size comes from the type are judged
        b, idx = fn.block_of().get(i, (None, None))
        uses_size = any(isinstance(el, int) and (fn.e(el) or {}).get("k") == "binop" and (fn.e(el) or {}).get("op") == "+=" and
                        (fn.e(fn.strip(fn.e(el)["rhs"])) or {}).get("did") in size_locals for el in (fn.blocks[b]["elems"] if b is not None else []))
        if not uses_size:
            continue
        nv += 1
        chk.ob(R3, "init_func_detail|assign_stack_offset@%d" % (fn.line_of(i) - fn.line), ("aligned",) in (m2.before(i) or frozenset()), loc=fn.loc(i),
               detail="a float / vector argument is given the next free stack offset without aligning it to the argument's size: a __m128 after one "
                      "8-byte stack argument lands at [8] instead of [16]", key="vecstackalign|%d" % nv)
    chk.floor(R3 + ":slots", nv, 1)
    return n
