"""Stack argument slots of the x86 conventions (C06).

R-STACK-SLOT-AT-LEAST-REGISTER: every advance of the argument area `stack_offset += S` in x86 init_func_detail() uses a slot size that
is a constant or computed as max(size_of(type), register_size): the psABI (and every 32-bit convention) rounds each stack argument up
to the register size - a `float` on the x86-64 stack occupies an eightbyte.

R-STACK-ADVANCE-ONLY-FOR-STACK-ARGS: an advance of `stack_offset` is executed only for an argument that was given a stack slot: on
every path from the start of the argument's iteration to the `+=` an assign_stack_offset() has happened (an argument - or the pointer
to it - that went into a register consumes no stack)."""
from . import cfg
from .must import Must


def run(chk, unit="asmjit/x86/x86func.cpp", fname=r"asmjit::x86::FuncInternal::init_func_detail$"):
    R1 = "R-STACK-SLOT-AT-LEAST-REGISTER"
    R2 = "R-STACK-ADVANCE-ONLY-FOR-STACK-ARGS"
    chk.rule(R1, "x86 init_func_detail(): the amount added to `stack_offset` for a stack-passed argument is a constant or a local computed as "
                 "max(TypeUtils::size_of(type), register_size): no stack argument occupies less than a register-sized slot")
    chk.rule(R2, "x86 init_func_detail(): every `stack_offset += ...` is reached, within the iteration of its argument, only after "
                 "assign_stack_offset() was called for that argument: arguments passed in registers (or whose address is) take no stack")
    f = chk.facts(unit, funcs=fname)
    fns = [g for g in cfg.load_functions(f) if g.file.endswith(unit.split("/")[-1])]
    chk.need(fns, "x86 init_func_detail not found")
    fn = fns[0]
    inits = {}
    for i, x in fn.ex.items():
        if x["k"] == "decl":
            for v in x["vars"]:
                if v.get("init") is not None:
                    inits[v["did"]] = v["init"]

    def elem(eid, x):
        if x["k"] == "mcall" and x.get("cn") == "assign_stack_offset":
            return ((("stack",),), ())
        if x["k"] == "decl" and any("FuncValue" in (v.get("ty") or "") for v in x["vars"]):
            return ((), (("stack",),))          # `FuncValue& arg = ...` starts the next argument
        return None
    m = Must(fn, elem, None)
    n = 0
    for i, x in sorted(fn.ex.items()):
        if not (x["k"] == "binop" and x["op"] == "+="):
            continue
        l = fn.e(fn.strip(x["lhs"]))
        if l is None or l.get("name") != "stack_offset":
            continue
        n += 1
        r = fn.e(fn.strip(x["rhs"]))
        ok = False
        if r is not None and isinstance(r.get("cv"), int):
            ok = True
        elif r is not None and r["k"] == "ref" and r.get("did") in inits:
            src = inits[r["did"]]
            has_max = any((fn.e(j) or {}).get("k") in ("call", "mcall") and (fn.e(j) or {}).get("cn") == "max" for j in fn.walk(src))
            has_reg = any((fn.e(j) or {}).get("k") == "ref" and (fn.e(j) or {}).get("name") == "register_size" for j in fn.walk(src))
            ok = has_max and has_reg
        inst = "init_func_detail|stack_offset+=%s@%d" % (" ".join(fn.text(x["rhs"]).split())[:12], fn.line_of(i) - fn.line)
        chk.ob(R1, inst, ok, loc=fn.loc(i),
               detail="`%s` advances the argument area by the bare size of the type: a 4-byte `float` passed on the x86-64 stack then occupies 4 "
                      "bytes instead of an eightbyte and every later stack argument is misplaced" % " ".join(fn.text(i).split())[:50], key="stackslot|size|%d" % n)
        chk.ob(R2, inst, ("stack",) in (m.before(i) or frozenset()), loc=fn.loc(i),
               detail="`%s` is also executed for an argument that was not given a stack slot (it, or its address, went into a register): the "
                      "following stack arguments are placed 8 bytes too far" % " ".join(fn.text(i).split())[:50], key="stackslot|advance|%d" % n)
    chk.floor(R1 + ":advances", n, 4)
    return n
