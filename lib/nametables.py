"""C13.b / C20 — instruction-name tables: decode the packed names exactly as
InstNameUtils::decode_to_buffer does and check the invariants the readers rely on."""
import re
from . import cfg


def decode5(c):
    return chr((ord('a') - 1 if c <= 26 else ord('0') - 27) + c)


def decode(value, strtab):
    if value & 0x80000000:
        out = []
        for i in range(6):
            c = value & 0x1F
            if c == 0:
                break
            out.append(decode5(c))
            value >>= 5
        return "".join(out)
    pb, ps = value & 0xFFF, (value >> 12) & 0xF
    sb, ss = (value >> 16) & 0xFFF, (value >> 28) & 0x7
    s = "".join(chr(strtab[pb + i] & 0xFF) for i in range(ps))
    if sb != 0xFFF:
        s += "".join(chr(strtab[sb + i] & 0xFF) for i in range(ss))
    return s


def cmp_views(a, b):
    """Support::compare_string_views"""
    for x, y in zip(a, b):
        if x != y:
            return ord(x) - ord(y)
    return len(a) - len(b)


def run(chk, arch, unit, api_unit, rule="R-NAME-INDEX"):
    ns = "asmjit::%s::InstDB::" % arch
    chk.rule(rule, "packed instruction names (decoded as InstNameUtils does): each id's name equals its enumerator, ids are strictly ascending "
                   "inside the first-letter range that the index gives for their letter, ranges cover all ids, max_name_length is exact; "
                   "alias names are sorted, map to existing ids and agree with the alias enumerators (exhaustive over all ids)")
    f = chk.facts(unit, tables=r"asmjit::%s::InstDB::(_inst_name_index|_inst_name_string_table|_inst_name_index_table|alias_name_string_table|"
                              r"alias_name_index_table|alias_index_to_inst_id_table|kAliasTableSize)$" % arch,
                  enums=r"asmjit::%s::Inst::Id$" % arch)
    T = f["tables"]

    def tab(n, required=True):
        t = T.get(ns + n)
        if required:
            chk.need(t is not None and "value" in t, "%s%s not dumped from %s" % (ns, n, unit))
        return t["value"] if t and "value" in t else None
    index, strtab, names = tab("_inst_name_index"), tab("_inst_name_string_table"), tab("_inst_name_index_table")
    enum = f["enums"].get("asmjit::%s::Inst::Id" % arch)
    chk.need(enum is not None, "Inst::Id enum of %s not found" % arch)
    canon = {}
    aliases_enum = {}
    count = None
    for n, v in enum["enumerators"]:
        if n == "_kIdCount":
            count = v
            continue
        if count is None:
            canon.setdefault(v, n)
        else:
            aliases_enum[n[3:].lower()] = v
    chk.need(count is not None and count == len(names), "%s: _kIdCount %s != name table length %d" % (arch, count, len(names)))
    chk.floor(rule + ":%s-ids" % arch, len(names), 700)
    decoded = [decode(v, strtab) for v in names]

    # (1) identity id <-> name
    for i in range(1, len(names)):
        en = canon.get(i, "?")
        want = re.sub(r"_v$", "", en[3:].lower())
        chk.ob(rule, "%s|name-of-id|%s" % (arch, en), decoded[i] == want, loc=unit,
               detail="id %d (%s) decodes to `%s`, enumerator says `%s`" % (i, en, decoded[i], want))
    # which reader does string_to_inst_id use?  binary search (find_instruction) needs sorted spans,
    # a linear scan of the span only needs the span to contain every id of the letter
    fr = chk.facts(api_unit, funcs=r"asmjit::%s::InstInternal::string_to_inst_id$" % arch)
    rfn = cfg.find_fn(fr, "InstInternal::string_to_inst_id")
    binary = any(True for i, x in rfn.calls(lambda x: x.get("cn") == "find_instruction"))
    reads_index = any(x["k"] == "ref" and x.get("qn", "").endswith("InstDB::_inst_name_index") for x in rfn.ex.values())
    chk.need(binary or reads_index, "%s string_to_inst_id neither calls find_instruction nor reads _inst_name_index" % arch)
    chk.extra.setdefault("name_reader", {})[arch] = "binary-search" if binary else "linear-scan-of-letter-span"
    if not binary:
        for li, sp in enumerate(index["data"]):
            letter = chr(ord('a') + li)
            s, e = sp["start"], sp["end"]
            ids_l = [i for i in range(1, len(names)) if decoded[i].startswith(letter)]
            if s == 0:
                ok = not ids_l
            else:
                ok = 0 < s <= e <= len(names) and all(s <= i < e for i in ids_l)
            chk.ob(rule, "%s|span|%s" % (arch, letter), ok, loc=unit,
                   detail="span [%d,%d) of letter %s does not contain every id whose name starts with it (%s)" % (s, e, letter, [i for i in ids_l if not (s <= i < e)][:5]))
    # (2) ranges
    covered = [0] * len(names)
    for li, sp in enumerate(index["data"] if binary else []):
        letter = chr(ord('a') + li)
        s, e = sp["start"], sp["end"]
        if s == 0:
            ok = not any(d.startswith(letter) for d in decoded[1:])
            chk.ob(rule, "%s|range|%s" % (arch, letter), ok, loc=unit, detail="letter %s has an empty range but names start with it" % letter)
            continue
        ok = 0 < s <= e <= len(names)
        prev = None
        for i in range(s, min(e, len(names))):
            covered[i] += 1
            if not decoded[i].startswith(letter):
                ok = False
            if prev is not None and cmp_views(prev, decoded[i]) >= 0:
                # a64 uses one mnemonic for a GP and a SIMD id: equal neighbours are allowed there
                if not (arch == "a64" and prev == decoded[i]):
                    ok = False
            prev = decoded[i]
        chk.ob(rule, "%s|range|%s" % (arch, letter), ok, loc=unit,
               detail="ids [%d,%d) of letter %s are not all `%s...` names in strictly ascending order (binary search precondition)" % (s, e, letter, letter))
    if binary:
        chk.ob(rule, "%s|range-cover" % arch, all(c == 1 for c in covered[1:]), loc=unit, detail="the 26 ranges do not cover every id exactly once")
    chk.ob(rule, "%s|max-name-length" % arch, index["max_name_length"] == max(len(d) for d in decoded), loc=unit,
           detail="max_name_length %d != longest name %d" % (index["max_name_length"], max(len(d) for d in decoded)))
    # (3) aliases
    an = tab("alias_name_index_table", required=False)
    if an is not None:
        astr, amap, asz = tab("alias_name_string_table"), tab("alias_index_to_inst_id_table"), tab("kAliasTableSize")
        chk.ob(rule, "%s|alias-size" % arch, asz == len(an) == len(amap), loc=unit, detail="kAliasTableSize %s, tables %d/%d" % (asz, len(an), len(amap)))
        adec = [decode(v, astr) for v in an]
        prev = None
        for i, a in enumerate(adec):
            ok = (prev is None or cmp_views(prev, a) < 0) and 0 < amap[i] < len(names) and a not in decoded
            ok = ok and aliases_enum.get(a) == amap[i]
            chk.ob(rule, "%s|alias|%s" % (arch, a), ok, loc=unit,
                   detail="alias #%d `%s` -> id %d (%s): not sorted, out of range, shadows a canonical name, or disagrees with the alias enumerator (%s)" % (
                       i, a, amap[i], decoded[amap[i]] if amap[i] < len(decoded) else "?", aliases_enum.get(a)))
            prev = a
        chk.ob(rule, "%s|alias-complete" % arch, set(adec) == set(aliases_enum), loc=unit,
               detail="alias table and alias enumerators differ: %s" % sorted(set(adec) ^ set(aliases_enum))[:8])

    # (4) readers hand matching tables to the name utilities
    R2 = "R-NAME-READER-ARGS"
    chk.rule(R2, "every call of InstNameUtils::decode/find_instruction/find_alias passes an index table and a string table of the same family "
                 "(_inst_name_* with _inst_name_*, alias_name_* with alias_name_*), and an alias index only subscripts alias_index_to_inst_id_table")
    fa = chk.facts(api_unit, funcs_calling=r"asmjit::InstNameUtils::(decode|find_instruction|find_alias)$")
    ncalls = 0
    for fn in cfg.load_functions(fa):
        for i, x in fn.calls(lambda x: x.get("callee", "").startswith("asmjit::InstNameUtils::")):
            inits = {}
            for d in fn.ex.values():
                if d["k"] == "decl":
                    for v in d["vars"]:
                        if v.get("init"):
                            inits[v["did"]] = v["init"]

            def table_of(a, depth=0):
                for j in fn.walk(a):
                    y = fn.e(j)
                    if y["k"] == "ref" and y.get("dk") == "global" and "InstDB::" in y.get("qn", ""):
                        return y["qn"].split("::")[-1]
                if depth < 3:
                    # an element that was first copied into a local (`uint32_t v = table[i]; decode(v, ...)`)
                    for j in fn.walk(a):
                        y = fn.e(j)
                        if y["k"] == "ref" and y.get("dk") == "local" and y.get("did") in inits:
                            g = table_of(inits[y["did"]], depth + 1)
                            if g:
                                return g
                return None
            glob = [table_of(a) for a in x["args"]]
            tabs = [g for g in glob if g and ("index_table" in g or "string_table" in g)]
            fam = {"alias" if g.startswith("alias_") else "inst" for g in tabs}
            ncalls += 1
            want = "alias" if x["cn"] == "find_alias" else "inst"
            ok = len(tabs) == 2 and fam == {want}
            chk.ob(R2, "%s|%s|%s" % (arch, fn.name.split("::")[-1], x["cn"]), ok, loc=fn.loc(i),
                   detail="%s(%s): tables of different families (or not the %s family) are passed together" % (x["cn"], ", ".join(str(g) for g in glob), want))
    chk.floor(R2 + ":%s-calls" % arch, ncalls, 2)

    # (5) a linear-scan reader examines every id
    R3 = "R-SCAN-COMPLETE"
    scanned = 0
    for fn in cfg.load_functions(fa):
        if not fn.name.endswith("string_to_inst_id"):
            continue
        decs = [i for i, x in fn.calls(lambda x: x.get("callee", "").endswith("InstNameUtils::decode"))]
        incs = [i for i, x in fn.ex.items() if x["k"] == "unop" and x["op"] in ("++", "post++", "pre++") or (x["k"] == "unop" and "++" in x.get("op", ""))]
        if not decs or not incs:
            continue
        chk.rule(R3, "a name reader that scans the ids linearly decodes every candidate: on every path through the loop body the decode call "
                     "is executed before the loop variable advances (no id is skipped by a shortcut before its name was looked at)")
        from .must import Must

        def elem_fx(eid, x, fn=fn, decs=decs):
            if eid in decs:
                return ((("decoded",),), ())
            if x["k"] == "binop" and x["op"] in ("<", "<=", "!=") and eid in loop_conds:
                return ((), (("decoded",),))
            return None
        # loop conditions: comparisons evaluated in a block that has a back edge predecessor
        loop_conds = set()
        rpo = {b: k for k, b in enumerate(fn.rpo())}
        for b, blk in fn.blocks.items():
            if any(p in rpo and b in rpo and rpo[p] >= rpo[b] for p in fn.preds.get(b, [])):
                for el in blk["elems"]:
                    if isinstance(el, int) and fn.e(el) and fn.e(el)["k"] == "binop" and fn.e(el)["op"] in ("<", "<=", "!="):
                        loop_conds.add(el)
        m = Must(fn, elem_fx, None)
        for inc in incs:
            st = m.before(inc)
            if st is None:
                continue
            scanned += 1
            chk.ob(R3, "%s|%s|advance@%s" % (arch, fn.name.split("::")[-1], " ".join(fn.text(inc).split())[:20]), ("decoded",) in st, loc=fn.loc(inc),
                   detail="the scan advances to the next id on a path that never decoded the current one: ids whose name is stored in the skipped "
                          "form can no longer be found by name")
    # (no floor: a reader that does not scan linearly - e.g. a binary search - is decided by the index preconditions above)
    return decoded
