"""Bit-level may-analysis: an upper bound of the bits an unsigned 32/64-bit expression can have set,
given which inputs are unknown.  Locals are resolved through their unique reaching definition
(lib.linear.Sym).  Sound over-approximation: anything not understood yields all bits."""
from .linear import Sym


class MayBits:
    def __init__(self, fn, width=32, unknown_full=(), one_bit=()):
        self.fn = fn
        self.w = width
        self.full = (1 << width) - 1
        self.sym = Sym(fn)
        self.one_bit = set(one_bit)        # names of variables known to be 0/1
        self.unknown_full = set(unknown_full)

    def eval(self, eid, at, depth=0, known=None):
        """known: {name: exact int} from sanity checks on the path."""
        fn, full = self.fn, self.full
        eid = fn.strip(eid)
        x = fn.e(eid)
        known = known or {}
        if x is None or depth > 16:
            return full
        if "cv" in x and isinstance(x["cv"], int):
            return x["cv"] & full
        k = x["k"]
        if k == "ref" and x.get("dk") in ("local", "parm"):
            if x["name"] in known:
                return known[x["name"]] & full
            if x["name"] in self.one_bit:
                return 1
            if x["name"] in self.unknown_full:
                return full
            st = self.sym.facts_at(at) or frozenset()
            ds = [f for f in st if f[0] == "def" and f[1] == x["did"]]
            if len(ds) == 1 and ds[0][2] is not None:
                return self.eval(ds[0][2], at, depth + 1, known)
            return full
        if k == "binop":
            op = x["op"]
            if op in ("&",):
                return self.eval(x["lhs"], at, depth + 1, known) & self.eval(x["rhs"], at, depth + 1, known)
            if op in ("|", "^", "+"):
                a, b = self.eval(x["lhs"], at, depth + 1, known), self.eval(x["rhs"], at, depth + 1, known)
                if op == "+":
                    # carries can set higher bits: everything up to one above the highest possible bit
                    hi = max(a.bit_length(), b.bit_length()) + 1
                    return ((1 << hi) - 1) & full
                return a | b
            if op in ("<<", ">>"):
                r = fn.e(fn.strip(x["rhs"]))
                sh = None
                if r is not None and "cv" in r:
                    sh = r["cv"]
                elif r is not None and r["k"] == "ref" and r.get("name") in known:
                    sh = known[r["name"]]
                else:
                    sub = self.const_of(x["rhs"], at, known)
                    sh = sub
                a = self.eval(x["lhs"], at, depth + 1, known)
                if sh is None:
                    if op == ">>":
                        return (1 << a.bit_length()) - 1
                    return full if a else 0
                return ((a << sh) & full) if op == "<<" else (a >> sh)
            if op in ("==", "!=", "<", "<=", ">", ">=", "&&", "||"):
                return 1
            if op == "-":
                return full
        if k == "unop":
            if x["op"] == "!":
                return 1
            if x["op"] == "~":
                return full
        if k in ("call", "mcall"):
            cn = x.get("cn")
            if cn in ("lsb_mask", "bit_mask") and x.get("args"):
                n = self.const_of(x["args"][0], at, known)
                if n is not None:
                    return ((1 << n) - 1) & full
                return full
        if k == "cond":
            return self.eval(x["a"], at, depth + 1, known) | self.eval(x["b"], at, depth + 1, known)
        return full

    def const_of(self, eid, at, known):
        fn = self.fn
        x = fn.e(fn.strip(eid))
        if x is None:
            return None
        if "cv" in x and isinstance(x["cv"], int):
            return x["cv"]
        if x["k"] == "ref" and x.get("name") in known:
            return known[x["name"]]
        if x["k"] == "binop" and x["op"] in ("-", "+"):
            a, b = self.const_of(x["lhs"], at, known), self.const_of(x["rhs"], at, known)
            if a is not None and b is not None:
                return a - b if x["op"] == "-" else a + b
        if x["k"] == "ref" and x.get("dk") == "local":
            st = self.sym.facts_at(at) or frozenset()
            ds = [f for f in st if f[0] == "def" and f[1] == x["did"]]
            if len(ds) == 1 and ds[0][2] is not None:
                return self.const_of(ds[0][2], at, known)
        return None

    def known_equalities(self, at):
        """{name: const} from `name != C` tests whose false edge dominates `at` (sanity checks)."""
        out = {}
        st = self.sym.m.before(at) or frozenset()
        for f in st:
            if f[0] != "cond":
                continue
            _, atom, holds = f
            x = self.fn.e(atom)
            if not x or x["k"] != "binop" or x["op"] not in ("!=", "=="):
                continue
            if (x["op"] == "!=") == holds:
                continue          # inequality known, not equality
            l, r = self.fn.e(self.fn.strip(x["lhs"])), self.fn.e(self.fn.strip(x["rhs"]))
            if l and r and l["k"] == "ref" and "cv" in r and "name" in l:
                out[l["name"]] = r["cv"]
        return out
