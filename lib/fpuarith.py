"""R-FPU-ARITH-BYTE-BY-ORDER (C01): the x87 arithmetic register forms get the second opcode byte of their own operand order.

fadd / fmul / fsub / fsubr / fdiv / fdivr have two register forms: `st(0), st(i)` = D8 xx+i and `st(i), st(0)` = DC yy+i.  For
fsub / fdiv and their reverses xx != yy and the DC byte of one is the D8 byte of the other: with the wrong byte `fsub st(i), st(0)` is
silently encoded as `fsubr st(i), st(0)`.  The instruction table stores both bytes in one word (FPU_2B field and low byte);
kEncodingFpuArith of x86 Assembler::_emit composes the opcode in two branches (`op_reg == 0`, `rb_reg == 0`).

The rule folds the two branches from the source (assignments of the branch in order, unit-local helpers inlined) for every
instruction of the class with its table word and i = 0..7 and compares the two bytes EmitFpuOp writes - `(v >> kFPU_2B_Shift) & 0xFF`
and `v & 0xFF` - with the database form of the same mnemonic and the same operand order."""
import re
from . import cfg, x86db


class _Unk(Exception):
    pass


def run(chk, enc_enum, unit="asmjit/x86/x86assembler.cpp", rule="R-FPU-ARITH-BYTE-BY-ORDER"):
    chk.rule(rule, "x86 _emit, case kEncodingFpuArith: for every instruction of the class (table word from _inst_info_table) and i = 0..7 the "
                   "opcode composed by the `op_reg == 0` branch equals the database form `st(0), st(i)` and the one composed by the "
                   "`rb_reg == 0` branch the form `st(i), st(0)` (both branches folded from the source)")
    ft = chk.facts("asmjit/x86/x86instdb.cpp",
                   tables=r"asmjit::x86::InstDB::(_inst_info_table|main_opcode_table|alt_opcode_table)$",
                   enums=r"asmjit::x86::Inst::Id$|asmjit::x86::Opcode::Bits$")
    B = {n: v for n, v in ft["enums"]["asmjit::x86::Opcode::Bits"]["enumerators"]}
    ids = ft["enums"]["asmjit::x86::Inst::Id"]["enumerators"]
    rows = ft["tables"]["asmjit::x86::InstDB::_inst_info_table"]["value"]
    main = ft["tables"]["asmjit::x86::InstDB::main_opcode_table"]["value"]
    enc_val = {n: v for n, v in enc_enum["enumerators"]}.get("kEncodingFpuArith")
    chk.need(enc_val is not None, "kEncodingFpuArith not in the encoding enum")
    shift = B["kFPU_2B_Shift"]
    members = {}
    for idname, idval in ids:
        if idname.startswith("kId") and idval < len(rows) and rows[idval]["_encoding"] == enc_val:
            members[idname[3:].lower()] = main[rows[idval]["_main_opcode_index"]] | rows[idval]["_main_opcode_value"]
    chk.need(len(members) >= 6, "only %d instructions of class kEncodingFpuArith" % len(members))
    db = x86db.load_db(chk)
    forms = {}
    for e in db:
        if e["name"] in members and len(e["ops"]) == 2:
            k = tuple(o["s"] for o in e["ops"])
            if k in (("st(0)", "st(i)"), ("st(i)", "st(0)")):
                p = x86db.parse_opcode_string(e["op"])
                if p and len(p["bytes"]) == 2:
                    forms[(e["name"], k)] = tuple(p["bytes"])
    f = chk.facts(unit, funcs=r"x86::Assembler::_emit$")
    fn = cfg.find_fn(f, "x86::Assembler::_emit")
    fh = chk.facts(unit, funcs=r"asmjit::x86::[a-z_0-9]+$")
    helpers = {g.name: g for g in cfg.load_functions(fh) if g.file.endswith(unit.split("/")[-1])}
    # the case's line range
    case_l = nxt = None
    for i, x in fn.ex.items():
        if x["k"] == "s:SwitchStmt":
            cs = sorted((c for c in x.get("cases", []) if c.get("n", "").startswith("kEncoding") or "kEncoding" in c.get("n", "")), key=lambda c: c["l"])
            for j, c in enumerate(cs):
                if c["n"].endswith("kEncodingFpuArith"):
                    case_l = c["l"]
                    nxt = cs[j + 1]["l"] if j + 1 < len(cs) else case_l + 80
    chk.need(case_l is not None, "case kEncodingFpuArith not found")

    def fold(g, e, env, depth=0):
        x = g.e(g.strip(e))
        if x is None or depth > 30:
            raise _Unk()
        if isinstance(x.get("cv"), int) and x["k"] != "ref":
            return x["cv"]
        k = x["k"]
        if k == "ref":
            if x.get("did") in env:
                return env[x["did"]]
            if isinstance(x.get("cv"), int):
                return x["cv"]
            raise _Unk()
        if k in ("cast", "paren", "fcast"):
            return fold(g, x["sub"], env, depth + 1)
        if k == "construct" and len(x.get("args") or []) == 1:
            return fold(g, x["args"][0], env, depth + 1)
        if k == "member" and x.get("field") == "v":
            return fold(g, x["base"], env, depth + 1)
        if k == "binop" or (k == "opcall" and x.get("op") in ("+", "-", "<<", ">>", "&", "|")):
            if k == "binop":
                a, b = fold(g, x["lhs"], env, depth + 1), fold(g, x["rhs"], env, depth + 1)
            else:
                args = [c for c in (x.get("args") or [])]
                if x.get("obj") is not None:
                    args = [x["obj"]] + args
                if len(args) != 2:
                    raise _Unk()
                a, b = fold(g, args[0], env, depth + 1), fold(g, args[1], env, depth + 1)
            op = x["op"]
            M = (1 << 32) - 1
            if op == "+":
                return (a + b) & M
            if op == "-":
                return (a - b) & M
            if op == "<<":
                return (a << b) & M
            if op == ">>":
                return a >> b
            if op == "&":
                return a & b
            if op == "|":
                return a | b
            raise _Unk()
        if k == "call" and x.get("callee") in helpers:
            h = helpers[x["callee"]]
            rets = list(h.return_sites())
            if len(rets) != 1 or h.e(rets[0][2]).get("val") is None:
                raise _Unk()
            henv = {p["did"]: fold(g, a, env, depth + 1) for p, a in zip(h.params, x.get("args") or [])}
            return fold(h, h.e(rets[0][2])["val"], henv, depth + 1)
        raise _Unk()

    def operands_of(x):
        if x["k"] == "binop":
            return x["lhs"], x["rhs"]
        args = list(x.get("args") or [])
        if x.get("obj") is not None:
            args = [x["obj"]] + args
        return (args[0], args[1]) if len(args) == 2 else (None, None)

    def run_branch(stmt, env):
        """assignments of a compound statement in order, until the goto"""
        x = fn.e(stmt)
        if x is None:
            return None
        if x["k"] == "s:CompoundStmt":
            for c in x.get("ch", []):
                r = run_branch(c, env)
                if r is not None:
                    return r
            return None
        if x["k"] == "label":
            # the extractor numbers nodes in pre-order and records no child for a label: the labelled statement is the next node
            sub = stmt + 1
            if x.get("ch"):
                sub = x["ch"][0]
            return run_branch(sub, env) if fn.e(sub) is not None else None
        if x["k"] == "goto":
            return x.get("label") or "goto"
        if (x["k"] == "binop" and x["op"] == "=") or (x["k"] == "opcall" and x.get("op") == "="):
            l, r = operands_of(x)
            lx = fn.e(fn.strip(l)) if l is not None else None
            if lx is None or lx["k"] != "ref":
                raise _Unk()
            env[lx["did"]] = fold(fn, r, env)
            return None
        if x["k"].startswith("s:") and x["k"] not in ("s:NullStmt",):
            raise _Unk()
        return None
    # the two branches
    branches = {}
    dids = {}
    for i, x in sorted(fn.ex.items()):
        if x["k"] == "s:IfStmt" and case_l <= x.get("l", 0) < nxt and x.get("cond") is not None:
            c = fn.e(fn.strip(x["cond"]))
            if c is not None and c["k"] == "binop" and c["op"] == "==":
                l, r = fn.e(fn.strip(c["lhs"])), fn.e(fn.strip(c["rhs"]))
                if l is not None and l["k"] == "ref" and l.get("name") in ("op_reg", "rb_reg") and r is not None and r.get("cv") == 0:
                    rest = [ch for ch in x.get("ch", []) if ch != x["cond"]]
                    if rest and l["name"] not in branches:
                        branches[l["name"]] = rest[0]
                        dids[l["name"]] = l["did"]
    chk.need(set(branches) == {"op_reg", "rb_reg"}, "FpuArith: the branches `op_reg == 0` / `rb_reg == 0` were not found (%s)" % sorted(branches))
    # the other register's did and the opcode's did
    for i, x in fn.ex.items():
        if x["k"] == "ref" and x.get("name") in ("op_reg", "rb_reg", "opcode") and x.get("dk") == "local" and case_l <= x.get("l", 0) < nxt:
            dids.setdefault(x["name"], x["did"])
    chk.need({"op_reg", "rb_reg", "opcode"} <= set(dids), "FpuArith: locals op_reg / rb_reg / opcode not found")
    n = 0
    for name, word in sorted(members.items()):
        for which, order in (("op_reg", ("st(0)", "st(i)")), ("rb_reg", ("st(i)", "st(0)"))):
            want = forms.get((name, order))
            if want is None:
                chk.ob(rule, "%s|%s, %s" % (name, order[0], order[1]), False, loc="db/isa_x86.json:1",
                       detail="no database form `%s %s, %s` with a two-byte opcode" % (name, order[0], order[1]), key="fpuarith|%s|db" % name)
                continue
            bad = None
            for i_ in range(8):
                if which == "rb_reg" and i_ == 0:
                    continue            # st(0), st(0) takes the first branch
                env = {dids["opcode"]: word & 0xFFFFFFFF, dids["op_reg"]: 0 if which == "op_reg" else i_, dids["rb_reg"]: i_ if which == "op_reg" else 0}
                try:
                    run_branch(branches[which], env)
                    v = env[dids["opcode"]]
                    got = ((v >> shift) & 0xFF, v & 0xFF)
                except _Unk:
                    got = None
                if got != (want[0], (want[1] + i_) & 0xFF):
                    bad = (i_, got)
                    break
            n += 1
            chk.ob(rule, "%s|%s, %s" % (name, order[0], order[1]), bad is None, loc=fn.loc(branches[which]),
                   detail="`%s %s, %s` with i = %s: the `%s == 0` branch composes %s, the database form is %02X %02X+i - the instruction is "
                          "encoded as a different operation (fsub <-> fsubr, fdiv <-> fdivr)" %
                          (name, order[0], order[1], bad[0] if bad else "", which,
                           ("%02X %02X" % bad[1]) if bad and bad[1] else "something the rule cannot fold", want[0], want[1]),
                   key="fpuarith|%s|%s" % (name, which))
    chk.floor(rule + ":forms", n, 12)
    return n
