"""Forward must-analysis (intersection at joins) with facts generated at CFG elements and on
branch edges.  Facts are hashable values; the rule drivers decide what they mean."""
from .cfg import forward
from .vbe import cond_atom


def resolve_local_atom(fn, atom, pol, depth=0):
    """If the branch atom is a bool local with exactly one definition (its initialiser) follow it:
    `bool is_used = f(x); if (!is_used) ...` tests f(x)."""
    x = fn.e(atom)
    if depth > 4 or not x or x["k"] != "ref" or x.get("dk") != "local":
        return atom, pol
    did = x["did"]
    init = None
    ndefs = 0
    for i, y in fn.ex.items():
        if y["k"] == "decl":
            for v in y["vars"]:
                if v["did"] == did and v.get("init"):
                    init = v["init"]
                    ndefs += 1
        elif y["k"] == "binop" and y["op"].endswith("=") and y["op"] not in ("==", "!=", "<=", ">="):
            l = fn.e(fn.strip(y["lhs"]))
            if l and l["k"] == "ref" and l.get("did") == did:
                ndefs += 1
    if ndefs != 1 or init is None:
        return atom, pol
    a2, p2 = cond_atom(fn, init)
    return resolve_local_atom(fn, a2, pol == p2, depth + 1)


def branch_atoms(fn, resolve_locals=False):
    """block id -> (atom expr id, polarity).  Polarity True: successor 0 (condition true) is the
    edge on which the atom holds."""
    out = {}
    for b in fn.blocks.values():
        term = b.get("term")
        if term and term.get("cond") and len(b["succs"]) == 2:
            atom, pol = cond_atom(fn, term["cond"])
            if resolve_locals:
                atom, pol = resolve_local_atom(fn, atom, pol)
            out[b["id"]] = (atom, pol)
    return out


ASSERT_MACROS = ("ASMJIT_ASSERT", "ASMJIT_ASSUME", "ASMJIT_NOT_REACHED")


def _implied_atoms(fn, cond, value):
    """atoms (id, holds) implied by the whole condition having `value`: every conjunct of a top-level `&&` chain when it is true,
    every disjunct (negated) of a top-level `||` chain when it is false; `!` and __builtin_expect are looked through"""
    out = []

    def walk(e, val, depth=0):
        e = fn.strip(e)
        x = fn.e(e)
        if x is None or depth > 12:
            return
        if x["k"] == "unop" and x["op"] == "!":
            walk(x["sub"], not val, depth + 1)
        elif x["k"] == "call" and x.get("cn") == "__builtin_expect" and x.get("args"):
            walk(x["args"][0], val, depth + 1)
        elif x["k"] == "binop" and x["op"] == "&&" and val:
            walk(x["lhs"], True, depth + 1)
            walk(x["rhs"], True, depth + 1)
        elif x["k"] == "binop" and x["op"] == "||" and not val:
            walk(x["lhs"], False, depth + 1)
            walk(x["rhs"], False, depth + 1)
        elif x["k"] == "binop" and x["op"] in ("&&", "||"):
            return
        else:
            out.append((e, val))
    walk(cond, value)
    return out


class Must:
    def __init__(self, fn, elem_fx=None, edge_fx=None, init=frozenset(), resolve_locals=False, pseudo=False):
        """elem_fx(eid, x) -> (adds, kills) or None;  edge_fx(block, succ_index, atom, holds) -> adds
        where `atom` is the stripped branch condition and `holds` says whether it is true on
        that edge."""
        self.fn = fn
        self.elem_fx = elem_fx
        self.edge_fx = edge_fx
        self.atoms = branch_atoms(fn, resolve_locals)
        self.fx = {}
        for b in fn.blocks.values():
            lst = []
            for el in b["elems"]:
                if isinstance(el, int):
                    x = fn.e(el)
                    r = elem_fx(el, x) if (elem_fx and x) else None
                    lst.append((el, r))
                elif isinstance(el, dict) and elem_fx and pseudo:
                    # pseudo elements: automatic-object destructors / ctor initialisers
                    r = elem_fx(None, el)
                    if r:
                        lst.append((None, r))
            self.fx[b["id"]] = lst
        self.edge_cache = {}
        self.IN, self.OUT = forward(fn, init, self._transfer, self._join, edge=self._edge)

    def _transfer(self, b, st):
        s = None
        for el, r in self.fx[b]:
            if r:
                if s is None:
                    s = set(st)
                adds, kills = r
                s -= set(kills)
                s |= set(adds)
        return st if s is None else frozenset(s)

    def _edge(self, b, si, succ, st):
        if not self.edge_fx or b not in self.atoms:
            return st
        key = (b, si)
        if key not in self.edge_cache:
            atom, pol = self.atoms[b]
            holds = (si == 0) == pol
            ax = self.fn.e(atom)
            if ax is not None and ax.get("m") in ASSERT_MACROS:
                # the condition of an assertion is not a check: release builds do not evaluate it
                self.edge_cache[key] = frozenset()
            else:
                adds_ = set(self.edge_fx(b, si, atom, holds) or ())
                # `if (A && B && C)` whose value is materialised in a join block (all short-circuit edges meet in the block that tests
                # the whole conjunction): the true edge implies every conjunct, the false edge of `A || B || C` every negated disjunct
                term = self.fn.blocks[b].get("term") or {}
                if term.get("cond") is not None and len(self.fn.blocks[b]["succs"]) == 2:
                    for a2, h2 in _implied_atoms(self.fn, term["cond"], si == 0):
                        if a2 != atom:
                            ax2 = self.fn.e(a2)
                            if ax2 is not None and ax2.get("m") not in ASSERT_MACROS:
                                adds_ |= set(self.edge_fx(b, si, a2, h2) or ())
                self.edge_cache[key] = frozenset(adds_)
        adds = self.edge_cache[key]
        return st | adds if adds else st

    @staticmethod
    def _join(states):
        s = states[0]
        for t in states[1:]:
            s = s & t
        return s

    def before(self, eid):
        """Facts that hold on every path just before element `eid` is evaluated (None if the
        element is unreachable / not a CFG element)."""
        pos = self.fn.block_of().get(eid)
        if not pos:
            return None
        b, idx = pos
        if b not in self.IN:
            return None
        s = set(self.IN[b])
        for el, r in self.fx[b]:
            if el == eid:
                break
            if r:
                s -= set(r[1])
                s |= set(r[0])
        return frozenset(s)

    def at_block_end(self, b):
        return self.OUT.get(b)
