"""R-CONVENTION-SETTING-NOT-OVERWRITTEN (C06): what a calling convention's case sets is what the convention ends up with.

init_call_conv() describes each convention in its `case` (register order per group, preserved registers, flags) and then applies
blocks that are shared by several conventions.  A setting made in the case and replaced, on the same path, by a later call of the same
setter for the same register group never takes effect: the convention silently gets the shared block's values (32-bit __vectorcall:
`set_passed_order(kVec, 0..5)` followed by the standard block's `set_passed_order(kVec, 0, 1, 2)`).

May-analysis over the CFG: a call `cc.set_X(<constant group>, ...)` reached while an earlier call of the same setter with the same group
is still pending on some path - no read of the setting in between - is a violation naming both."""
from . import cfg
from .cfg import forward

SETTERS = ("set_passed_order", "set_preserved_regs", "set_save_restore_reg_size", "set_save_restore_alignment")
UNITS = [("asmjit/x86/x86func.cpp", r"asmjit::x86::FuncInternal::init_call_conv$"), ("asmjit/arm/a64func.cpp", r"asmjit::a64::FuncInternal::init_call_conv$")]


def run(chk, rule="R-CONVENTION-SETTING-NOT-OVERWRITTEN", floor=20):
    chk.rule(rule, "x86 / a64 init_call_conv(): no call of set_passed_order / set_preserved_regs / set_save_restore_* for a register group is "
                   "reachable from an earlier call of the same setter for the same group: a convention's own setting is never replaced by a "
                   "block shared with other conventions")
    n = 0
    for unit, pat in UNITS:
        f = chk.facts(unit, funcs=pat)
        for fn in cfg.load_functions(f):
            if not fn.file.endswith(unit.split("/")[-1]):
                continue
            sites = {}
            for i, x in fn.calls(lambda x: x["k"] == "mcall" and x.get("cn") in SETTERS and x.get("args")):
                g = fn.e(fn.strip(x["args"][0]))
                if g is None or not (isinstance(g.get("cv"), int) or g.get("cvn")):
                    continue
                sites[i] = (x["cn"], g.get("cvn") or g.get("cv"))

            par = fn.parent_map()

            pos = fn.block_of()
            switches = {}
            for bid, b in fn.blocks.items():
                t = b.get("term") or {}
                if t.get("kind") == "SwitchStmt":
                    labs = [s_ for s_ in b["succs"] if s_ is not None and (fn.blocks[s_].get("label") or {}).get("kind") in ("case", "default")]
                    if len(labs) >= 2:
                        switches[bid] = {l: set(fn.reachable_from(l)) | {l} for l in labs}

            def labels_reaching(e):
                """switch block -> set of its case labels from which the element's block is reachable"""
                j = e
                while j not in pos and j in par:
                    j = par[j]
                if j not in pos:
                    return {}
                b = pos[j][0]
                return {sw: frozenset(l for l, r in labs.items() if b in r) for sw, labs in switches.items()}
            from .relational import Relational

            def elem_fx(eid, x, facts):
                if eid in sites:
                    key = sites[eid]
                    return ([("set", key, eid)], [t for t in facts if t[0] == "set" and t[1] == key])
                return None
            def switched_var(b):
                c = (fn.blocks[b].get("term") or {}).get("cond")
                x = fn.e(fn.strip(c)) if c is not None else None
                return x.get("did") if x is not None and x["k"] == "ref" else None

            def switch_fx(b, lab, facts):
                d = switched_var(b)
                if d is not None and lab.get("kind") == "case" and lab.get("v") is not None:
                    return [("is", d, lab["v"])]
                return ()

            def edge_fx(b, si, atom, holds, facts):
                x = fn.e(atom)
                if x is not None and x["k"] == "binop" and x["op"] in ("==", "!="):
                    for u, w in ((x["lhs"], x["rhs"]), (x["rhs"], x["lhs"])):
                        ux, wx = fn.e(fn.strip(u)), fn.e(fn.strip(w))
                        if ux is not None and ux["k"] == "ref" and wx is not None and isinstance(wx.get("cv"), int):
                            known = [t[2] for t in facts if t[0] == "is" and t[1] == ux.get("did")]
                            if known:
                                equal = known[0] == wx["cv"]
                                if ((x["op"] == "==") == equal) != holds:
                                    return "INFEASIBLE"
                return ()
            base_elem = elem_fx

            def elem_fx2(eid, x, facts):
                r = base_elem(eid, x, facts)
                if x["k"] == "binop" and x["op"] == "=":
                    l = fn.e(fn.strip(x["lhs"]))
                    if l is not None and l["k"] == "ref":
                        kills = [t for t in facts if t[0] == "is" and t[1] == l.get("did")]
                        if kills:
                            return ((r[0] if r else []), (list(r[1]) if r else []) + kills)
                return r
            rel = Relational(fn, elem_fx2, edge_fx, switch_fx)
            rep = {}
            for i in sorted(sites):
                states = rel.before(i)
                if states is None:
                    continue
                olds = set()
                for facts, flags in states:
                    for t in facts:
                        if t[0] == "set" and t[1] == sites[i] and t[2] != i:
                            olds.add(t[2])
                # a convention's own setting (made under its case label) replaced by a block that is shared by several conventions;
                # "defaults first, the case overrides them" is the intended idiom and not reported
                li = labels_reaching(i)

                def own_setting_replaced(o):
                    lo = labels_reaching(o)
                    for sw, labs in switches.items():
                        a, b_ = lo.get(sw, frozenset()), li.get(sw, frozenset())
                        if a and len(a) < len(labs) and a < b_:
                            return True         # o is reached from some conventions' labels only, i from strictly more of them
                    return False
                olds = sorted(o for o in olds if own_setting_replaced(o))
                if olds:
                    rep[i] = olds
            for i in sorted(sites):
                n += 1
                over = rep.get(i)
                chk.ob(rule, "%s|%s(%s)@%d" % (fn.name.replace("asmjit::", ""), sites[i][0], sites[i][1], fn.line_of(i) - fn.line), not over, loc=fn.loc(i),
                       detail="`%s` replaces the setting made by `%s` (line %s) on the same path: the convention's own %s for %s never takes effect" %
                              (" ".join(fn.text(i).split())[:60], " ".join(fn.text(over[0]).split())[:60] if over else "", fn.line_of(over[0]) if over else "",
                               sites[i][0][4:], sites[i][1]), key="deadsetting|%s|%s|%s" % (fn.name.split("::")[-2], sites[i][0], sites[i][1]))
    chk.floor(rule + ":setter-calls", n, floor)
    return n
