"""R-BROADCAST-ELEMENT-SIZE (C13): the validator gives an AVX-512 broadcast operand the element size of the instruction.

`{1toN}` operands broadcast one element of 2 (kB16, AVX512-FP16), 4 (kB32) or 8 (kB64) bytes.  validate() accepts a specified memory
size only when it is that element size, assumes the element size when none is given, and scales it by N to match the vector
signature.  The decision is a small loop-free block; it is evaluated from the source (lib/evexfeatures._eval_stmt: compound / if /
assignment / return, expressions folded by lib/exprfold.py) for every element flag and every specified size in {0, 2, 4, 8}:

    specified == 0              -> no refusal, the size becomes the element size of the flag
    specified == element size   -> no refusal, the size stays
    anything else               -> the block returns an error"""
from . import cfg
from .exprfold import Unknown
from . import evexfeatures
from .evexfeatures import _eval_stmt, _Ret

ELEM = {16: 2, 32: 4, 64: 8}


def run(chk, unit="asmjit/x86/x86instapi.cpp", rule="R-BROADCAST-ELEMENT-SIZE"):
    chk.rule(rule, "x86 InstInternal::validate(): the `if (m.has_broadcast())` block, evaluated from the source for the element flags kB16 / kB32 / "
                   "kB64 and the specified memory sizes 0, 2, 4, 8, refuses exactly the specified sizes that are not the element size and "
                   "otherwise leaves the element size of the flag in mem_size (before scaling by {1toN})")
    f = chk.facts(unit, funcs=r"asmjit::x86::InstInternal::validate$")
    fns = [g for g in cfg.load_functions(f) if g.file.endswith(unit.split("/")[-1])]
    chk.need(fns, "x86 validate not found")
    fn = max(fns, key=lambda g: len(g.ex))
    block = None
    for i, x in fn.ex.items():
        if x["k"] == "s:IfStmt" and x.get("cond") is not None:
            c = fn.e(fn.strip(x["cond"]))
            if c is not None and c["k"] == "mcall" and c.get("cn") == "has_broadcast":
                block = i
    chk.need(block is not None, "validate(): `if (m.has_broadcast())` not found")
    msz = None
    for d in fn.ex.values():
        if d["k"] == "decl":
            for v in d["vars"]:
                if v["name"] == "mem_size":
                    msz = v["did"]
    chk.need(msz is not None, "validate(): local mem_size not found")
    fh = chk.facts(unit, funcs=r"asmjit::x86::[A-Za-z_0-9:]+$")
    evexfeatures.HELPERS.clear()
    evexfeatures.HELPERS.update({g.name: g for g in cfg.load_functions(fh) if g.file.endswith(unit.split("/")[-1]) and g.name != fn.name})
    n = 0
    for flag in (16, 32, 64):
        for spec in (0, 2, 4, 8):
            def leaf(text, node, flag=flag):
                if node["k"] == "mcall":
                    cn = node.get("cn")
                    if cn == "has_broadcast":
                        return 1
                    if cn == "get_broadcast":
                        return 0
                    if cn in ("has_avx512_bcst16", "has_avx512_bcst32", "has_avx512_bcst64"):
                        return int(cn.endswith(str(flag)))
                    if cn == "has_avx512_bcst":
                        return 1
                if node["k"] in ("call", "mcall") and node.get("cn") == "make_error":
                    return 1
                if isinstance(node.get("cv"), int):
                    return node["cv"]
                raise Unknown()
            env = {msz: spec}
            refused, unk = False, False
            try:
                _eval_stmt(fn, block, env, leaf)
            except _Ret:
                refused = True
            except Unknown:
                unk = True
            want_refuse = spec != 0 and spec != ELEM[flag]
            ok = not unk and refused == want_refuse and (refused or env[msz] == ELEM[flag])
            n += 1
            chk.ob(rule, "validate|kB%d|size=%d" % (flag, spec), ok, loc=fn.loc(block),
                   detail="a {1toN} operand of a kB%d instruction (%d-byte elements) with %s: the block %s%s - expected %s" %
                          (flag, ELEM[flag], "no size" if spec == 0 else "a specified size of %d bytes" % spec,
                           "could not be evaluated" if unk else ("refuses it" if refused else "accepts it with element size %s" % env.get(msz)), "",
                           "a refusal" if want_refuse else "acceptance with element size %d" % ELEM[flag]), key="bcstsize|%d|%d" % (flag, spec))
    chk.floor(rule + ":cases", n, 12)
    return n
