"""R-SENTINEL-TESTED (C02, C14, C01): an "invalid" marker read from a lookup table is tested before the value is used.

A *marker table* is a constant table of an unsigned integer type that contains the type's all-ones value (0xFF for uint8_t) next to
other entries that all lie in the lower half of the type's range: the all-ones entries mark combinations that cannot be encoded
(`0xFF // H <- H (Invalid)`).  A reader that packs the loaded value without comparing it first encodes the marker's bits.

For every direct subscript of a marker table whose value is stored in an integer local v: forward may-analysis of the fact
"v holds an untested table value" (generated at the store, killed by any comparison of v with a constant - the comparison is
the test, one of its edges leaves - and by a re-assignment of v); a use of v outside such a comparison while the fact may hold is
a violation.  A subscript that is not stored in a local must itself be an operand of a comparison."""
import re
from .cfg import forward

UMAX = {"uint8_t": 0xFF, "unsigned char": 0xFF, "uint16_t": 0xFFFF, "unsigned short": 0xFFFF, "uint32_t": 0xFFFFFFFF, "unsigned int": 0xFFFFFFFF}
CMP = ("==", "!=", "<", "<=", ">", ">=")


def elem_type(ty):
    m = re.match(r"(?:const\s+)?([A-Za-z_0-9 ]+?)\s*(?:\[\d*\])+$", (ty or "").strip())
    return m.group(1).strip() if m else None


def is_marker_table(ty, values):
    et = elem_type(ty)
    if et not in UMAX or not values or any(not isinstance(v, int) for v in values):
        return False
    mx = UMAX[et]
    others = [v for v in values if v != mx]
    return len(others) >= 1 and len(others) < len(values) and max(others) <= mx // 2


def _flat(v):
    if isinstance(v, list):
        for y in v:
            yield from _flat(y)
    else:
        yield v


def _is_out_param_store(fn, lhs):
    """`*p = ...` / `r = ...` where p / r is a pointer / reference parameter"""
    x = fn.e(lhs)
    while x is not None and x["k"] in ("paren", "cast"):
        x = fn.e(x["sub"])
    if x is None:
        return False
    if x["k"] == "unop" and x["op"] == "*":
        y = fn.e(fn.strip(x["sub"]))
        return y is not None and y["k"] == "ref" and y.get("dk") == "parm"
    return x["k"] == "ref" and x.get("dk") == "parm" and "&" in (x.get("ty") or "") + "".join(p["ty"] for p in fn.params if p["did"] == x.get("did"))


def run(chk, fns, tables, rule="R-SENTINEL-TESTED", floor=4):
    """tables: qualified name -> (type string, value list) of the unit's namespace-scope constant tables"""
    chk.rule(rule, "every value loaded from a constant table that marks impossible combinations with the element type's all-ones value (other "
                   "entries in the lower half of the range) is compared with a constant before any other use: the marker is never packed into an "
                   "instruction")
    marker_global = {}
    for qn, (ty, val) in tables.items():
        vals = list(_flat(val))
        if is_marker_table(ty, vals):
            marker_global[qn.split("::")[-1]] = qn
    n = 0
    ntab = set()
    for fn in fns:
        local_marker = set()
        for i, x in fn.ex.items():
            if x["k"] == "decl":
                for v in x["vars"]:
                    if v.get("static") and v.get("init") and (fn.e(v["init"]) or {}).get("k") == "initlist":
                        vals = [(fn.e(c) or {}).get("cv") for c in fn.e(v["init"])["ch"]]
                        if is_marker_table(v["ty"], vals):
                            local_marker.add((v["name"], x.get("l")))
        local_names = {nm for nm, _ in local_marker}
        par = fn.parent_map()
        reads = []      # (subscript eid, table name)
        for i, x in fn.ex.items():
            if x["k"] != "subscript":
                continue
            b = fn.e(fn.strip(x["base"]))
            if b is None or b["k"] != "ref" or b.get("dk") != "global":
                continue
            nm = b.get("name")
            if nm in local_names or (nm in marker_global and elem_type(b.get("ty")) in UMAX):
                reads.append((i, nm))
        if not reads:
            continue

        def cmp_var(x):
            """comparison of a local with a constant -> did"""
            if x is None or x["k"] != "binop" or x["op"] not in CMP:
                return None
            for a, b in ((x["lhs"], x["rhs"]), (x["rhs"], x["lhs"])):
                va, cb = fn.e(fn.strip(a)), fn.e(fn.strip(b))
                if va is not None and va["k"] == "ref" and va.get("dk") == "local" and cb is not None and cb.get("cv") is not None:
                    return va["did"]
            return None

        # where each read goes
        gen = {}        # element id (decl / assignment) -> did
        for i, nm in reads:
            ntab.add(nm)
            n += 1
            j = i
            while j in par and fn.e(par[j])["k"] in ("cast", "paren"):
                j = par[j]
            p = fn.e(par[j]) if j in par else None
            inst = "%s|%s[...]@%d" % (fn.name.replace("asmjit::", ""), nm, n)
            if p is not None and p["k"] == "binop" and p["op"] in CMP:
                chk.ob(rule, inst, True, loc=fn.loc(i))
                continue
            did = None
            site = None
            if p is not None and p["k"] == "binop" and p["op"] == "=" and p["rhs"] == j:
                l = fn.e(fn.strip(p["lhs"]))
                if l is not None and l["k"] == "ref" and l.get("dk") == "local":
                    did, site = l["did"], par[j]
            if did is None:
                for di, dx in fn.ex.items():
                    if dx["k"] == "decl":
                        for v in dx["vars"]:
                            if v.get("init") == j or (v.get("init") is not None and fn.strip(v["init"]) == i):
                                did, site = v["did"], di
            if did is None:
                chk.ob(rule, inst, False, loc=fn.loc(i),
                       detail="`%s` is used in place (`%s`): the table's all-ones marker entries are never tested" %
                              (" ".join(fn.text(i).split())[:50], " ".join(fn.text(par.get(j, j)).split())[:60]), key="sentinel|%s|%s|inline" % (fn.name.replace("asmjit::", ""), nm))
                continue
            gen[site] = (did, inst, i, nm)

        if not gen:
            continue
        bad = {}
        delegated = set()

        def transfer(b, st, report=False):
            st = set(st)
            for el in fn.blocks[b]["elems"]:
                if not isinstance(el, int):
                    continue
                x = fn.e(el)
                if x is None:
                    continue
                if el in gen:
                    st = {t for t in st if t[0] != gen[el][0]}
                    st.add((gen[el][0], el))
                    continue
                cv = cmp_var(x)
                if cv is not None:
                    st = {t for t in st if t[0] != cv}
                    continue
                if x["k"] == "binop" and x["op"] == "=" :
                    l = fn.e(fn.strip(x["lhs"]))
                    if l is not None and l["k"] == "ref" and l.get("dk") == "local":
                        st = {t for t in st if t[0] != l["did"]}
                        continue
                if x["k"] == "ref" and x.get("dk") == "local" and any(t[0] == x["did"] for t in st):
                    # a use: is it the operand of a constant comparison / the target of an assignment?
                    p = el
                    while p in par and fn.e(par[p])["k"] in ("cast", "paren"):
                        p = par[p]
                    px = fn.e(par[p]) if p in par else None
                    if px is not None and cmp_var(px) == x["did"]:
                        continue
                    if px is not None and px["k"] == "binop" and px["op"] == "=" and fn.strip(px["lhs"]) == el:
                        continue
                    if px is not None and px["k"] == "binop" and px["op"] == "=" and fn.strip(px["rhs"]) == el and _is_out_param_store(fn, px["lhs"]):
                        # handed to the caller through an out-parameter: accepted when the helper's result *is* the test (checked below)
                        for t in st:
                            if t[0] == x["did"]:
                                delegated.add((t[1], x["did"]))
                        continue
                    if report:
                        for t in st:
                            if t[0] == x["did"]:
                                bad.setdefault(t[1], el)
            return frozenset(st)
        res = forward(fn, frozenset(), lambda b, st: transfer(b, st), lambda states: frozenset().union(*states))
        ins = res[0] if isinstance(res, tuple) else res
        for b in fn.blocks:
            st = ins.get(b)
            if st is not None:
                transfer(b, st, report=True)
        for site, did in sorted(delegated):
            # every return of the helper is `v <cmp> constant` (or a constant false), and every caller branches on the call
            rets_ok = True
            for b, idx, r in fn.return_sites():
                val = fn.e(r).get("val")
                vx = fn.e(fn.strip(val)) if val is not None else None
                if vx is not None and vx["k"] in ("bool", "int") and vx.get("cv") == 0:
                    continue
                if vx is None or cmp_var(vx) != did:
                    rets_ok = False
            callers_ok = True
            ncall = 0
            for h in fns:
                conds = set()
                for b in h.blocks.values():
                    t = b.get("term")
                    if t and t.get("cond"):
                        conds |= set(h.walk(t["cond"]))
                for ci, cx in h.calls(lambda cx: cx.get("callee") == fn.name):
                    ncall += 1
                    if ci not in conds:
                        callers_ok = False
            if not (rets_ok and callers_ok and ncall):
                bad.setdefault(site, site)
        for site, (did, inst, i, nm) in gen.items():
            use = bad.get(site)
            chk.ob(rule, inst, use is None, loc=fn.loc(i),
                   detail="the value loaded by `%s` can reach `%s` (line %s) without having been compared: for an operand combination the table marks "
                          "invalid the all-ones marker is packed into the instruction" %
                          (" ".join(fn.text(i).split())[:50], " ".join(fn.text(par.get(use, use)).split())[:50] if use is not None else "", fn.line_of(use) if use is not None else ""),
                   key="sentinel|%s|%s" % (fn.name.replace("asmjit::", ""), nm))
    chk.floor(rule + ":reads", n, floor)
    return n, sorted(ntab)


UNITS = {"a64": ("asmjit/arm/a64assembler.cpp", r"a64::Assembler::_emit$|asmjit::a64::[a-z_0-9]+$", r"a64::[A-Za-z0-9_]+$"),
         "x86": ("asmjit/x86/x86assembler.cpp", r"x86::Assembler::_emit$|asmjit::x86::[A-Za-z_0-9:]+$", r"asmjit::x86::[A-Za-z0-9_]+$")}


def run_units(chk, which=("a64", "x86"), floor=None):
    from . import cfg
    total = 0
    for w in which:
        unit, pat, tabs = UNITS[w]
        f = chk.facts(unit, funcs=pat, tables=tabs)
        tables = {k: (v.get("ty") or v.get("type"), v.get("value")) for k, v in f["tables"].items()}
        n, _ = run(chk, [cfg.Fn(fo) for fo in f["functions"]], tables, floor=0)
        total += n
    chk.floor("R-SENTINEL-TESTED:reads", total, floor if floor is not None else 2 * len(which))
