"""AArch64 vector arrangements: what the encoder accepts vs what db/isa_aarch64.json lists (C02, C13).

R-VEC-FORMS-DB-AGREE.  Most AdvSIMD cases decide the register shape of their significant operand with
    element_type_to_size_op(<kVO_* of the row>, reg_type, element_type)
which looks the (register width, element type) pair up in size_op_table and accepts it when the SizeOp code is in the
accept_mask of the row's kVO_* entry of size_op_map.  Both tables are constant data; the index expression of the lookup is folded
from the function's source over the whole (reg_type, element_type) grid.  For every instruction row of every case that makes such a
call the accepted arrangements are compared with the arrangements the database lists for the same operand of the same mnemonic
(forms filtered by the operand kinds the call site's dominating signature test establishes):

  * element sizes (B/H/S/D, separately for scalar and vector shapes) accepted by the encoder must be listed by the database - an
    accepted size that does not exist is encoded with a reserved size field;
  * for rows that are neither Long nor Narrow also the lane arrangements (8B, 16B, ...) must be listed.

Aliases the encoder deliberately accepts are normalised first: an untyped 64/128-bit register for the byte-wise operations
(kTableBin) is 8B/16B, `.1D` is the scalar D.  What the database lists and the encoder does not accept is reported as a note
(an instruction that cannot be assembled, not a wrong encoding).

R-DB-ARRANGEMENT-Q.  Database self-consistency for AdvSIMD forms whose opcode string fixes bit 30 (Q): every arrangement of a `t`
list is a 64-bit arrangement when Q = 0 and a 128-bit one when Q = 1."""
import re
import collections
from . import exprfold, nametables
from .must import Must

LANES = {("kVec64", "kB"): "8B", ("kVec128", "kB"): "16B", ("kVec64", "kH"): "4H", ("kVec128", "kH"): "8H",
         ("kVec64", "kS"): "2S", ("kVec128", "kS"): "4S", ("kVec64", "kD"): "1D", ("kVec128", "kD"): "2D"}
SCALAR = [("kVec8", "B"), ("kVec16", "H"), ("kVec32", "S"), ("kVec64", "D"), ("kVec128", "Q")]
BITS64 = {"8B", "4H", "2S", "1D"}
BITS128 = {"16B", "8H", "4S", "2D", "1Q"}


class _F(exprfold.Folder):
    def fold(self, fn, eid, depth=0):
        x = fn.e(eid)
        if x is not None and x["k"] == "call" and x.get("cn") == "diff" and len(x.get("args", [])) == 2:
            return (self.fold(fn, x["args"][0], depth + 1) - self.fold(fn, x["args"][1], depth + 1)) & 0xFFFFFFFF
        return super().fold(fn, eid, depth)


def accepted_sets(chk, A):
    """kVO index -> set of arrangement names, folded from element_type_to_size_op + size_op_map + size_op_table"""
    ft = chk.facts("asmjit/arm/a64assembler.cpp", tables=r"a64::(size_op_table|size_op_map)$",
                   enums=r"asmjit::RegType$|asmjit::a64::VecElementType$|asmjit::a64::InstDB::VOType$")
    som = ft["tables"].get("asmjit::a64::size_op_map", {}).get("value")
    sot = ft["tables"].get("asmjit::a64::size_op_table", {}).get("value")
    chk.need(isinstance(som, list) and isinstance(sot, list), "size_op_map / size_op_table not dumped")
    rt = {n: v for n, v in ft["enums"]["asmjit::RegType"]["enumerators"]}
    et = {n: v for n, v in ft["enums"]["asmjit::a64::VecElementType"]["enumerators"] if n != "kMaxValue"}
    vo = {v: n for n, v in ft["enums"]["asmjit::a64::InstDB::VOType"]["enumerators"]}
    g = [h for k, h in A["helpers"].items() if k.startswith("asmjit::a64::element_type_to_size_op/")]
    chk.need(len(g) == 1 and len(g[0].params) == 3, "element_type_to_size_op(vec_op_type, reg_type, element_type) not found")
    g = g[0]
    pn = [p["name"] for p in g.params]
    inits = {}
    for i, x in g.ex.items():
        if x["k"] == "decl":
            for v in x["vars"]:
                if v.get("init"):
                    inits[v["name"]] = (v["did"], v["init"])
    nows = lambda e: re.sub(r"\s+", "", g.text(e))
    map_l = [n for n, (d, e) in inits.items() if nows(e) == "size_op_map[%s]" % pn[0]]
    chk.need(len(map_l) == 1, "element_type_to_size_op: no local bound to size_op_map[%s]" % pn[0])
    tab_l = [n for n, (d, e) in inits.items() if nows(e) == "size_op_table[%s.table_id]" % map_l[0]]
    chk.need(len(tab_l) == 1, "element_type_to_size_op: no local bound to size_op_table[map.table_id]")
    op_l = [(n, e) for n, (d, e) in inits.items() if re.match(r"%s\.array\[[a-z_]+\]$" % re.escape(tab_l[0]), nows(e))]
    chk.need(len(op_l) == 1, "element_type_to_size_op: no local bound to table.array[index]")
    idx_name = re.match(r".*\[([a-z_]+)\]$", nows(op_l[0][1])).group(1)
    chk.need(idx_name in inits, "element_type_to_size_op: index local has no initialiser")
    guards = [i for i, x in g.ex.items() if x["k"] in ("call", "mcall") and x.get("cn") == "bit_test" and
              "%s.accept_mask" % map_l[0] in nows(i) and "%s.value" % op_l[0][0] in nows(i)]
    inval = [i for i, x in g.ex.items() if x["k"] == "mcall" and x.get("cn") == "make_invalid"]
    chk.need(len(guards) == 1 and len(inval) == 1, "element_type_to_size_op: accept_mask test / make_invalid not found")

    def index_of(rv, ev):
        def leaf(txt, node):
            if node.get("k") == "ref" and node.get("name") == pn[1]:
                return rv
            if node.get("k") == "ref" and node.get("name") == pn[2]:
                return ev
            if isinstance(node.get("cv"), int):
                return node["cv"]
            raise exprfold.Unknown()
        return _F({}, leaf, 64).fold(g, inits[idx_name][1])
    out = {}
    grid = 0
    for voi, m in enumerate(som):
        arr = sot[m["table_id"]]["array"]
        acc = set()
        for rn, sc in SCALAR:
            for en, ev in et.items():
                try:
                    idx = index_of(rt[rn], ev)
                except exprfold.Unknown:
                    chk.need(False, "element_type_to_size_op: index expression `%s` is not foldable" % g.text(inits[idx_name][1])[:80])
                grid += 1
                if idx >= len(arr):
                    continue
                v = arr[idx]["value"]
                if v != 0xFF and v < 16 and (m["accept_mask"] >> v) & 1:
                    a = sc if en == "kNone" else LANES.get((rn, en), "%s.%s" % (rn[1:], en[1:]))
                    if a == "1D":
                        a = "D"
                    if m["table_id"] == 0 and a in ("D", "Q"):
                        a = {"D": "8B", "Q": "16B"}[a]
                    acc.add(a)
        out[voi] = acc
    return out, vo, grid


def op_arrangements(e, k):
    if k >= len(e["ops"]):
        return None
    s = e["ops"][k]["s"]
    m = re.match(r"^([BHSDQ])[a-z]\d?$", s)
    if m:
        return {m.group(1)}
    m = re.match(r"^V[a-z]\d?\.(\d+[BHSDQ])$", s)
    if m:
        return {{"1D": "D", "1Q": "Q"}.get(m.group(1), m.group(1))}
    m = re.match(r"^V[a-z]\d?\.(t[a-z]?)$", s)
    if m:
        t = m.group(1)
        for key, val in e.get("tk", {}).items():
            ks = key.split(".")
            if t in ks:
                j = ks.index(t)
                return {{"1D": "D", "1Q": "Q"}.get(z, z) for z in (v.split(".")[j] for v in val.split() if v != "~" and len(v.split(".")) > j)}
    return None


def sizes(arrs):
    out = set()
    for a in arrs:
        m = re.match(r"^(\d*)([BHSDQ])$", a)
        if m:
            out.add(("vector" if m.group(1) else "scalar", m.group(2)))
    return out


def run(chk, A):
    from . import a64db, opkind
    R = "R-VEC-FORMS-DB-AGREE"
    chk.rule(R, "for every AdvSIMD instruction row whose case calls element_type_to_size_op(kVO of the row, shape of operand K): the element sizes "
                "(and, for rows that are neither Long nor Narrow, the lane arrangements) the call accepts - folded from size_op_map, size_op_table and "
                "the function's index expression - are listed for operand K of the mnemonic's forms in db/isa_aarch64.json; an accepted shape that "
                "does not exist is encoded with a reserved size/Q combination")
    emit, regions, dbf = A["emit"], A["regions"], A["db"]
    acc, vo, grid = accepted_sets(chk, A)
    chk.floor(R + ":grid", grid, 500)
    db = a64db.load_db(chk)
    T = dbf["tables"]
    rows = T["asmjit::a64::InstDB::_inst_info_table"]["value"]
    f2 = chk.facts("asmjit/arm/a64instdb.cpp", tables=r"asmjit::a64::InstDB::(_inst_name_string_table|_inst_name_index_table)$")
    strtab = f2["tables"]["asmjit::a64::InstDB::_inst_name_string_table"]["value"]
    names = [nametables.decode(v, strtab) for v in f2["tables"]["asmjit::a64::InstDB::_inst_name_index_table"]["value"]]
    enc_name = {v: n for n, v in dbf["enums"]["asmjit::a64::InstDB::EncodingId"]["enumerators"]}
    fl = {n: v for n, v in dbf["enums"]["asmjit::a64::InstDB::InstFlags"]["enumerators"]}
    case_arrays = {}
    for i, x in emit.ex.items():
        if x["k"] == "subscript":
            idx = emit.e(emit.strip(x["idx"]))
            base = emit.e(emit.strip(x["base"]))
            if idx and idx["k"] == "ref" and idx.get("name") == "encoding_index" and base and base["k"] == "ref" and base.get("dk") == "global":
                for reg in regions.group_of_line(x["l"]):
                    case_arrays.setdefault(reg, set()).add(base["qn"])
    by_name = collections.defaultdict(list)
    for e in db:
        if not a64db.is_sve(e):
            by_name[e["name"]].append(e)
    # operand kinds known at each call site (packed signature tests)
    ops = {p["did"]: int(p["name"][1]) for p in emit.params if re.match(r"o\d$", p["name"]) and "Operand_" in p["ty"]}

    def edge(b, si, atom, holds):
        x = emit.e(atom)
        if not (x and x["k"] == "binop" and x["op"] in ("==", "!=") and (x["op"] == "==") == holds):
            return ()
        for a, b_ in ((x["lhs"], x["rhs"]), (x["rhs"], x["lhs"])):
            v, c = emit.e(emit.strip(a)), emit.e(emit.strip(b_))
            if v is not None and v["k"] == "ref" and re.match(r"isign\d$", v.get("name") or "") and c is not None and isinstance(c.get("cv"), int) \
               and (c.get("m") or "").startswith("ENC_OPS"):
                return [("sig", c["cv"])]
        return ()
    m = Must(emit, None, edge)
    KIND = {1: "reg", 2: "mem", 4: "imm", 5: "rel"}
    n_rows = n_sites = 0
    notes = 0
    for i, x in sorted(emit.calls(lambda x: x.get("cn") == "element_type_to_size_op" and len(x.get("args", [])) == 3)):
        a0 = emit.e(emit.strip(x["args"][0]))
        opn = re.sub(r"\s+", "", emit.text(x["args"][1])).split(".")[0]
        fld = a0.get("field") if a0 is not None and a0["k"] == "member" else None
        const = a0.get("cv") if a0 is not None and fld is None and isinstance(a0.get("cv"), int) else None
        if fld is None and const is None:
            chk.ob(R, "site@%d" % emit.line_of(i), False, loc=emit.loc(i), detail="the kVO argument is neither a field of the row's data nor a constant")
            continue
        n_sites += 1
        regs = [r for r in regions.group_of_line(x["l"]) if r.startswith("case:")]
        arrays = set()
        for r in regs:
            arrays |= case_arrays.get(r, set())
        j = i
        st = m.before(i)
        par = emit.parent_map()
        while st is None and j in par:
            j = par[j]
            st = m.before(j)
        sigs = [f[1] for f in (st or ()) if f[0] == "sig"]
        kinds = None
        if len(sigs) == 1:
            kinds = [KIND.get((sigs[0] >> (3 * q)) & 7) for q in range(4)]
        for rid in range(1, len(rows)):
            en = enc_name.get(rows[rid]["_encoding"])
            if "case:%s" % en not in regs:
                continue
            name = names[rid]
            if fld is not None:
                if len(arrays) != 1:
                    continue
                data = T[next(iter(arrays))]["value"][rows[rid]["_encoding_data_index"]]
                if fld not in data:
                    continue
                voi = data[fld]
            else:
                voi = const
            flags = rows[rid].get("_flags", 0)
            k = {"o0": 0, "o1": 1, "o2": 2, "o3": 3}.get(opn)
            if opn == "sop":
                k = 1 if flags & fl["kInstFlagLong"] else 0
            if k is None or voi not in acc:
                continue
            E = acc[voi]
            D = set()
            nforms = 0
            for e in by_name.get(name, []):
                has_idx = any("[#" in o["s"] for o in e["ops"])
                if fld is not None and "element" in fld and not has_idx:
                    continue
                if fld is not None and "regular" in fld and has_idx:
                    continue
                if kinds is not None:
                    want = [q for q in kinds if q]
                    got = [o.get("type") for o in e["ops"]]
                    if len(got) != len(want) or any(w != g_ and not (w == "rel" and g_ == "imm") for w, g_ in zip(want, got)):
                        continue
                a = op_arrangements(e, k)
                if a is None:
                    continue
                D |= a
                nforms += 1
            if not nforms:
                continue
            n_rows += 1
            longnarrow = bool(flags & (fl["kInstFlagLong"] | fl["kInstFlagNarrow"]))
            extra_sizes = sizes(E) - sizes(D)
            extra_lanes = set() if longnarrow else (E - D)
            bad = sorted("%s %s" % t for t in extra_sizes) or sorted(extra_lanes)
            chk.ob(R, "%s|%s|%s|op%d" % (name, en[9:], fld or vo.get(voi), k), not bad, loc=emit.loc(i),
                   detail="`%s` (%s = %s) accepts %s for operand %d, which no form of the mnemonic in db/isa_aarch64.json has (database: %s): the "
                          "shape is encoded with a reserved size/Q combination - or the database is incomplete" %
                          (name, fld or "constant", vo.get(voi), ", ".join(bad), k, " ".join(sorted(D))), key="vecforms|%s|%s|op%d" % (name, fld or vo.get(voi), k))
            if D - E:
                notes += 1
    chk.floor(R + ":sites", n_sites, 12)
    chk.floor(R + ":rows", n_rows, 150)


def run_db_q(chk):
    from . import a64db
    R = "R-DB-ARRANGEMENT-Q"
    chk.rule(R, "db/isa_aarch64.json: an AdvSIMD vector form whose opcode string fixes bit 30 (Q) lists, in its `t` arrangements of the full-width "
                "operands, only 64-bit arrangements (8B 4H 2S 1D) when Q = 0 and only 128-bit ones (16B 8H 4S 2D) when Q = 1")
    db = a64db.load_db(chk)
    n = 0
    for e in db:
        if a64db.is_sve(e) or "t" not in e.get("tk", {}):
            continue
        op = e["op"].replace(" ", "")
        head = op.split("|")[0]
        if not re.match(r"^[01]{8}$", head) or head[0] != "0" or head[3:7] != "0111"[0:4] and head[4:7] != "111":
            continue
        if head[4:7] != "111":
            continue
        q = int(head[1])
        arrs = [v for v in e["tk"]["t"].split() if v != "~"]
        if not arrs or not all(re.match(r"^\d+[BHSDQ]$", v) for v in arrs):
            continue
        # only forms in which every vector operand carries the plain `.t` arrangement
        if not all(re.match(r"^V[a-z]\d?\.t$", o["s"]) or o.get("type") != "reg" for o in e["ops"]):
            continue
        n += 1
        bad = [v for v in arrs if v not in (BITS128 if q else BITS64)]
        chk.ob(R, "%s|%s" % (e["name"], head), not bad, loc="db/isa_aarch64.json",
               detail="`%s %s` has Q = %d in its opcode but lists %s" % (e["name"], ", ".join(o["s"] for o in e["ops"]), q, " ".join(bad)),
               key="dbq|%s|%s" % (e["name"], head))
    chk.floor(R + ":forms", n, 100)


def run_signature_rows(chk, A):
    """exact-signature classes: the operand shapes stored in each row exist as one form of the mnemonic in the database"""
    from . import a64db
    R = "R-SIGNATURE-ROWS-DB-AGREE"
    chk.rule(R, "a64 classes that compare operand signatures with constants stored in the row (ISimdVVx / VVVx / VVVVx): the shapes the row "
                "stores (decoded through InstDB::kOpSignature) are the operand shapes of one form of the mnemonic in db/isa_aarch64.json")
    T, dbf = A["db"]["tables"], A["db"]
    f = chk.facts("asmjit/arm/a64assembler.cpp", enums=r"a64::InstDB::kOpSignature$")
    en = f["enums"].get("asmjit::a64::InstDB::kOpSignature")
    chk.need(en is not None, "enum a64::InstDB::kOpSignature not found")
    sig = {v: n[4:] for n, v in en["enumerators"]}
    SH = {"GpW": "W", "GpX": "X"}

    def shape(v):
        n = sig.get(v)
        if n is None:
            return None
        return SH.get(n, n[1:] if n.startswith("V") else n)
    db = a64db.load_db(chk)
    by = collections.defaultdict(list)
    for e in db:
        if not a64db.is_sve(e):
            by[e["name"]].append(e)
    rows = T["asmjit::a64::InstDB::_inst_info_table"]["value"]
    f2 = chk.facts("asmjit/arm/a64instdb.cpp", tables=r"asmjit::a64::InstDB::(_inst_name_string_table|_inst_name_index_table)$")
    strtab = f2["tables"]["asmjit::a64::InstDB::_inst_name_string_table"]["value"]
    names = [nametables.decode(v, strtab) for v in f2["tables"]["asmjit::a64::InstDB::_inst_name_index_table"]["value"]]
    enc = {v: n for n, v in dbf["enums"]["asmjit::a64::InstDB::EncodingId"]["enumerators"]}

    def oparr(e, k):
        s = e["ops"][k]["s"]
        m = re.match(r"^([WX])[a-z]\d?$|^([WX])ZR$", s)
        if m:
            return {m.group(1) or m.group(2)}
        return op_arrangements(e, k)
    n = 0
    for tname, t in T.items():
        data = t.get("value")
        if not (isinstance(data, list) and data and isinstance(data[0], dict) and any(k.endswith("_signature") for k in data[0])):
            continue
        cls = "kEncodingI" + tname.split("::")[-1][1:]
        for rid in range(1, len(rows)):
            if enc.get(rows[rid]["_encoding"]) != cls or rows[rid]["_encoding_data_index"] >= len(data):
                continue
            d = data[rows[rid]["_encoding_data_index"]]
            shp = [shape(d[k]) for k in sorted(d) if k.endswith("_signature")]
            ok = False
            seen = []
            for e in by.get(names[rid], []):
                if len(e["ops"]) != len(shp):
                    continue
                arr = [oparr(e, k) for k in range(len(shp))]
                seen.append(" ".join("/".join(sorted(a)) if a else "?" for a in arr))
                if all(a is not None and s in a for a, s in zip(arr, shp)):
                    ok = True
            n += 1
            chk.ob(R, "%s|%s" % (names[rid], cls[9:]), ok and None not in shp, loc="asmjit/arm/a64instdb.cpp",
                   detail="row `%s` stores the operand shapes %s; the database's forms of the mnemonic are: %s" % (names[rid], shp, "; ".join(seen) or "(none)"),
                   key="sigrow|%s" % names[rid])
    chk.floor(R + ":rows", n, 25)


# ---------------------------------------------------------------------------------------------------------------------------
def fp_accept_sets(chk, A):
    """hf index -> (scalar arrangements, vector arrangements) accepted by pick_fp_opcode, folded from its two reject conditions"""
    ft = chk.facts("asmjit/arm/a64assembler.cpp", records=r"asmjit::a64::EncodeFpOpcodeBits$", enums=r"asmjit::RegType$|asmjit::a64::VecElementType$")
    rec = ft["records"].get("asmjit::a64::EncodeFpOpcodeBits")
    chk.need(rec is not None, "struct EncodeFpOpcodeBits not found")
    fidx = {f["name"]: k for k, f in enumerate(rec["fields"])}
    chk.need("size_mask" in fidx, "EncodeFpOpcodeBits::size_mask not found")
    rt = {n: v for n, v in ft["enums"]["asmjit::RegType"]["enumerators"]}
    et = {n: v for n, v in ft["enums"]["asmjit::a64::VecElementType"]["enumerators"] if n != "kMaxValue"}
    g = [h for k, h in A["helpers"].items() if k.startswith("asmjit::a64::pick_fp_opcode/7")]
    chk.need(len(g) == 1, "pick_fp_opcode(reg, s_op, s_hf, v_op, v_hf, opcode, sz_out) not found")
    g = g[0]
    pn = [p["name"] for p in g.params]
    tab = None
    inits = {}
    for i, x in g.ex.items():
        if x["k"] == "decl":
            for v in x["vars"]:
                if v.get("static") and v.get("init") and "EncodeFpOpcodeBits" in v["ty"]:
                    tab = (v["name"], [[(g.e(c) or {}) for c in (g.e(r) or {}).get("ch", [])] for r in g.e(v["init"])["ch"]])
                elif v.get("init"):
                    inits.setdefault(v["name"], []).append((i, v["did"], v["init"]))
    chk.need(tab is not None, "pick_fp_opcode: static EncodeFpOpcodeBits table not found")
    masks = [r[fidx["size_mask"]].get("cv") for r in tab[1]]
    chk.need(all(isinstance(m, int) for m in masks), "pick_fp_opcode: size_mask column is not constant")
    # the two reject conditions: terminators whose true edge leads to `return false`
    falses = {b for b, idx, r in g.return_sites() if (g.e(g.strip(g.e(r).get("val"))) or {}).get("cv") == 0 and g.e(g.strip(g.e(r).get("val")))["k"] in ("bool", "int")}
    conds = {}
    for b in g.blocks.values():
        t = b.get("term")
        if t and t.get("cond") and len(b["succs"]) == 2 and b["succs"][0] in falses:
            # every block of an `a || b || c` chain branches to the same exit; the last one carries the whole expression
            if b["succs"][0] not in conds or len(g.text(t["cond"])) > len(g.text(conds[b["succs"][0]])):
                conds[b["succs"][0]] = t["cond"]
    chk.need(len(conds) == 2, "pick_fp_opcode: expected one reject condition in the scalar and one in the vector branch (found %d)" % len(conds))
    # which is which: the vector branch defines a local from element_type()
    branch = {}
    for fb, c in conds.items():
        names = {(g.e(j) or {}).get("name") for j in g.walk(c) if (g.e(j) or {}).get("k") == "ref"}
        uses_elem = False
        for nm in names:
            cands = [d for d in inits.get(nm, []) if g.line_of(d[0]) <= g.line_of(c)]
            if cands and "element_type" in g.text(max(cands, key=lambda d: g.line_of(d[0]))[2]):
                uses_elem = True
        branch["vector" if uses_elem else "scalar"] = c
    chk.need(set(branch) == {"scalar", "vector"}, "pick_fp_opcode: scalar / vector reject conditions not told apart")

    def rejected(cond, rv, ev, hf, hfparam):
        def leaf(txt, node):
            if isinstance(node.get("cv"), int):
                return node["cv"]
            if txt.endswith(".reg_type()"):
                return rv
            if txt.endswith(".element_type()"):
                return ev
            if node.get("k") == "ref" and node.get("dk") == "local" and node.get("name") in inits:
                # the definition closest above the condition
                cands = [d for d in inits[node["name"]] if g.line_of(d[0]) <= g.line_of(cond)]
                if cands:
                    return F.fold(g, max(cands, key=lambda d: g.line_of(d[0]))[2])
            m = re.match(r"%s\[(%s|%s)\]\.size_mask$" % (re.escape(tab[0]), re.escape(pn[2]), re.escape(pn[4])), txt)
            if m:
                return masks[hf]
            raise exprfold.Unknown()
        F = _F({}, leaf, 64)
        F_bt = F.fold

        def fold(fn, eid, depth=0):
            x = fn.e(eid)
            if x is not None and x["k"] == "call" and x.get("cn") == "bit_test" and len(x.get("args", [])) == 2:
                return (fold(fn, x["args"][0], depth + 1) >> fold(fn, x["args"][1], depth + 1)) & 1
            return F_bt(fn, eid, depth)
        F.fold = fold
        return bool(F.fold(g, cond))
    out = {}
    grid = 0
    for hf in range(len(masks)):
        sc, ve = set(), set()
        for rn, scn in SCALAR:
            try:
                grid += 1
                if not rejected(branch["scalar"], rt[rn], 0, hf, pn[2]):
                    sc.add(scn)
                for en, ev in et.items():
                    if en == "kNone":
                        continue
                    grid += 1
                    if not rejected(branch["vector"], rt[rn], ev, hf, pn[4]):
                        ve.add(LANES.get((rn, en), "%s.%s" % (rn[1:], en[1:])))
            except exprfold.Unknown:
                chk.need(False, "pick_fp_opcode: a reject condition is not foldable")
        out[hf] = (sc, ve)
    return out, grid


def run_fp(chk, A):
    from . import a64db, subscript
    R = "R-FP-FORMS-DB-AGREE"
    chk.rule(R, "for every FP instruction row whose case calls pick_fp_opcode(operand K, scalar op, scalar hf, vector op, vector hf): the scalar "
                "and vector shapes that call accepts - pick_fp_opcode's two reject conditions folded over all register types, element types and "
                "half-float classes, the row's op/hf values folded through the EncodingData accessors - are listed for operand K of the mnemonic's "
                "forms in db/isa_aarch64.json")
    emit, regions, dbf = A["emit"], A["regions"], A["db"]
    acc, grid = fp_accept_sets(chk, A)
    chk.floor(R + ":grid", grid, 100)
    db = a64db.load_db(chk)
    T = dbf["tables"]
    rows = T["asmjit::a64::InstDB::_inst_info_table"]["value"]
    f2 = chk.facts("asmjit/arm/a64instdb.cpp", tables=r"asmjit::a64::InstDB::(_inst_name_string_table|_inst_name_index_table)$")
    strtab = f2["tables"]["asmjit::a64::InstDB::_inst_name_string_table"]["value"]
    names = [nametables.decode(v, strtab) for v in f2["tables"]["asmjit::a64::InstDB::_inst_name_index_table"]["value"]]
    enc_name = {v: n for n, v in dbf["enums"]["asmjit::a64::InstDB::EncodingId"]["enumerators"]}
    fa = chk.facts("asmjit/arm/a64assembler.cpp", funcs=subscript.ACCESSORS)
    accf = {}
    from . import cfg as _cfg
    for fo in fa["functions"]:
        h = _cfg.Fn(fo)
        accf.setdefault(h.name, h)
    case_arrays = {}
    for i, x in emit.ex.items():
        if x["k"] == "subscript":
            idx = emit.e(emit.strip(x["idx"]))
            base = emit.e(emit.strip(x["base"]))
            if idx and idx["k"] == "ref" and idx.get("name") == "encoding_index" and base and base["k"] == "ref" and base.get("dk") == "global":
                for reg in regions.group_of_line(x["l"]):
                    case_arrays.setdefault(reg, set()).add(base["qn"])
    by_name = collections.defaultdict(list)
    for e in db:
        if not a64db.is_sve(e):
            by_name[e["name"]].append(e)

    def fold_arg(e, row):
        x = emit.e(emit.strip(e))
        if x is not None and isinstance(x.get("cv"), int):
            return x["cv"]
        if x is not None and x["k"] == "mcall" and not x.get("args"):
            h = accf.get(x.get("callee"))
            if h is not None:
                def leaf(t, node):
                    if node.get("k") == "member" and node.get("field") in row and isinstance(row[node["field"]], int):
                        return row[node["field"]]
                    if isinstance(node.get("cv"), int):
                        return node["cv"]
                    raise exprfold.Unknown()
                F = exprfold.Folder(accf, leaf, 32)
                return F.fold(h, F.ret_of(h))
        if x is not None and x["k"] == "member" and x.get("field") in row:
            return row[x["field"]]
        raise exprfold.Unknown()
    n_rows = n_sites = 0
    for i, x in sorted(emit.calls(lambda x: x.get("cn") == "pick_fp_opcode" and len(x.get("args", [])) >= 6)):
        opn = re.sub(r"\s+", "", emit.text(x["args"][0])).split(".")[0]
        k = {"o0": 0, "o1": 1, "o2": 2}.get(opn)
        regs = [r for r in regions.group_of_line(x["l"]) if r.startswith("case:")]
        arrays = set()
        for r in regs:
            arrays |= case_arrays.get(r, set())
        if k is None or len(arrays) != 1:
            chk.ob(R, "site@%d" % emit.line_of(i), False, loc=emit.loc(i), detail="pick_fp_opcode call whose operand / EncodingData table is not recognised")
            continue
        n_sites += 1
        element_form = "element" in emit.text(x["args"][1])
        data_rows = T[next(iter(arrays))]["value"]
        for rid in range(1, len(rows)):
            en = enc_name.get(rows[rid]["_encoding"])
            if "case:%s" % en not in regs or rows[rid]["_encoding_data_index"] >= len(data_rows):
                continue
            row = data_rows[rows[rid]["_encoding_data_index"]]
            try:
                s_op, s_hf, v_op, v_hf = (fold_arg(x["args"][j], row) for j in (1, 2, 3, 4))
            except exprfold.Unknown:
                chk.ob(R, "%s|%s|evaluable" % (names[rid], en[9:]), False, loc=emit.loc(i), detail="the op/hf arguments of pick_fp_opcode are not foldable for this row")
                continue
            E = set()
            if s_op and s_hf in acc:
                E |= acc[s_hf][0]
            if v_op and v_hf in acc:
                E |= acc[v_hf][1]
            E = {{"1D": "1D"}.get(a, a) for a in E}
            D = set()
            nforms = 0
            for e in by_name.get(names[rid], []):
                has_idx = any("[#" in o["s"] for o in e["ops"])
                if has_idx != element_form:
                    continue
                a = op_arrangements(e, k)
                if a is None:
                    continue
                D |= a
                nforms += 1
            if not nforms or not E:
                continue
            n_rows += 1
            extra = sorted(E - D - ({"1D"} if "D" in D and False else set()))
            chk.ob(R, "%s|%s|%s|op%d" % (names[rid], en[9:], "element" if element_form else "plain", k), not extra, loc=emit.loc(i),
                   detail="`%s` accepts the shape(s) %s for operand %d (scalar hf class %s, vector hf class %s), which no form of the mnemonic in "
                          "db/isa_aarch64.json has (database: %s): a reserved size/Q combination is encoded" %
                          (names[rid], ", ".join(extra), k, s_hf if s_op else "-", v_hf if v_op else "-", " ".join(sorted(D))),
                   key="fpforms|%s|%s|op%d" % (names[rid], "element" if element_form else "plain", k))
    chk.floor(R + ":sites", n_sites, 6)
    chk.floor(R + ":rows", n_rows, 40)


def run_scalar_bit(chk, A):
    """R-SCALAR-SHAPE-BIT-PACKED: where a scalar register shape can be accepted, the scalar bit of the SizeOp is encoded"""
    R = "R-SCALAR-SHAPE-BIT-PACKED"
    chk.rule(R, "a64 _emit: for every call of element_type_to_size_op() whose kVO argument - over all instruction rows of the case - accepts a "
                "scalar register shape (B / H / S / D as a whole register), the SizeOp local it defines has its scalar() (or qs()) packed into "
                "the opcode wherever its q() / size() are: a by-element or regular form that accepts `h1, h2, v3.h[7]` but packs only Q encodes "
                "the vector form of the same instruction")
    emit, regions, dbf = A["emit"], A["regions"], A["db"]
    acc, vo, grid = accepted_sets(chk, A)
    T = dbf["tables"]
    rows = T["asmjit::a64::InstDB::_inst_info_table"]["value"]
    enc_name = {v: n for n, v in dbf["enums"]["asmjit::a64::InstDB::EncodingId"]["enumerators"]}
    case_arrays = {}
    for i, x in emit.ex.items():
        if x["k"] == "subscript":
            idx = emit.e(emit.strip(x["idx"]))
            base = emit.e(emit.strip(x["base"]))
            if idx and idx["k"] == "ref" and idx.get("name") == "encoding_index" and base and base["k"] == "ref" and base.get("dk") == "global":
                for reg in regions.group_of_line(x["l"]):
                    case_arrays.setdefault(reg, set()).add(base["qn"])
    SC = {"B", "H", "S", "D", "Q"}
    par = emit.parent_map()
    n = 0
    sites = []
    for i, x in sorted(emit.calls(lambda x: x.get("cn") == "element_type_to_size_op" and len(x.get("args", [])) == 3)):
        a0 = emit.e(emit.strip(x["args"][0]))
        fld = a0.get("field") if a0 is not None and a0["k"] == "member" else None
        const = a0.get("cv") if a0 is not None and fld is None and isinstance(a0.get("cv"), int) else None
        regs = [r for r in regions.group_of_line(x["l"]) if r.startswith("case:")]
        arrays = set()
        for r in regs:
            arrays |= case_arrays.get(r, set())
        vois = set()
        if fld is not None and len(arrays) == 1:
            for rid in range(1, len(rows)):
                if "case:%s" % enc_name.get(rows[rid]["_encoding"]) in regs:
                    data = T[next(iter(arrays))]["value"][rows[rid]["_encoding_data_index"]]
                    if fld in data:
                        vois.add(data[fld])
        elif const is not None:
            vois.add(const)
        scalar_rows = sorted(vo.get(v, str(v)) for v in vois if acc.get(v, set()) & SC)
        if not scalar_rows:
            continue
        # the local that receives the SizeOp
        did = None
        j = i
        while j in par and did is None:
            j = par[j]
            y = emit.e(j)
            if y is not None and y["k"] == "decl":
                for v in y["vars"]:
                    if v.get("init") is not None and i in set(emit.walk(v["init"])):
                        did = v["did"]
        if did is None:
            continue
        used = set()
        for k_, y in emit.ex.items():
            if y["k"] == "mcall" and y.get("obj") is not None and (emit.e(emit.strip(y["obj"])) or {}).get("did") == did:
                used.add(y.get("cn"))
            elif y["k"] == "call" and y.get("args"):
                # the SizeOp handed to a unit-local helper (`add_size_op(opcode, size_op)`): what the helper packs of its parameter counts
                for pi, a in enumerate(y["args"]):
                    if (emit.e(emit.strip(a)) or {}).get("did") == did:
                        for hk, h in A["helpers"].items():
                            if h.name == y.get("callee") and pi < len(h.params):
                                pd = h.params[pi]["did"]
                                for z in h.ex.values():
                                    if z["k"] == "mcall" and z.get("obj") is not None and (h.e(h.strip(z["obj"])) or {}).get("did") == pd:
                                        used.add(z.get("cn"))
        if not (used & {"q", "qs", "size", "scalar"}):
            continue
        sites.append((i, tuple(regs), fld or vo.get(const), scalar_rows, used))
    # an encoding class has a scalar bit when one of the SizeOp locals of the same case packs scalar() / qs(); only then is a sibling
    # that accepts scalar shapes and packs q() / size() alone a contradiction (MOVI-class encodings have no such bit)
    with_bit = set()
    for i, regs, what, scalar_rows, used in sites:
        if used & {"scalar", "qs"}:
            with_bit |= set(regs)
    for i, regs, what, scalar_rows, used in sites:
        if not (set(regs) & with_bit):
            continue
        n += 1
        ok = bool(used & {"scalar", "qs"})
        chk.ob(R, "%s|%s@%d" % ("+".join(r[5:] for r in regs)[:40], what, emit.line_of(i)), ok, loc=emit.loc(i),
               detail="the shapes accepted here include scalar registers (%s) and another branch of the same case packs the scalar bit, but here "
                      "only %s of the SizeOp are packed: a scalar operand is encoded as the vector form (bit 28 clear)" %
                      (", ".join(scalar_rows)[:80], sorted(used & {"q", "size"})), key="scalarbit|%d" % emit.line_of(i))
    chk.floor(R + ":sites", n, 3)
    return n
