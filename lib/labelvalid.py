"""R-LABEL-VALID: every CodeHolder::label_entry_of(id) outside CodeHolder is dominated by a
successful is_label_valid(id) on the same id expression (credited on the branch edge where the
test is true; an assignment to the id kills the credit)."""
import os
import re
from . import core
from .must import Must

SITES = [
    ("asmjit/x86/x86assembler.cpp", r"x86::Assembler::_emit$"),
    ("asmjit/arm/a64assembler.cpp", r"a64::Assembler::_emit$"),
    ("asmjit/core/assembler.cpp", r"BaseAssembler::(embed_label|embed_label_delta|bind|embed_const_pool)$"),
    ("asmjit/core/formatter.cpp", r"Formatter::format_label$"),
]
RULE = "R-LABEL-VALID"


def _valid_paths(fn, atom):
    """Paths validated when `atom` (a call) is true."""
    x = fn.e(atom)
    out = []
    if not x or x["k"] not in ("call", "mcall"):
        return out
    cn = x.get("cn")
    if cn == "is_label_valid" and x.get("args"):
        p = fn.access_path(x["args"][0])
        if p:
            out.append(p)
    elif cn == "bool_and":
        for a in x.get("args", []):
            out += _valid_paths(fn, fn.strip(a))
    return out


def analyse_fn(fn):
    def elem_fx(eid, x):
        if x["k"] == "binop" and x["op"] == "=":
            p = fn.access_path(x["lhs"])
            if p:
                return ((), (("valid", p),))
        return None

    def edge_fx(b, si, atom, holds):
        if holds:
            return [("valid", p) for p in _valid_paths(fn, atom)]
        return ()

    m = Must(fn, elem_fx, edge_fx)
    res = []
    for i, x in fn.calls(lambda x: x.get("cn") == "label_entry_of" and x.get("cls", "").endswith("CodeHolder")):
        p = fn.access_path(x["args"][0]) if x.get("args") else None
        st = m.before(i)
        ok = st is not None and p is not None and ("valid", p) in st
        res.append((i, p or fn.text(x["args"][0]), ok))
    return res


def run(chk, exceptions):
    chk.rule(RULE, "label_entry_of(id) outside CodeHolder is reached only through the true edge of is_label_valid(id)")
    total = 0
    for unit, regex in SITES:
        f = chk.facts(unit, funcs=regex)
        from .cfg import load_functions
        for fn in load_functions(f):
            ords = {}
            for eid, path, ok in analyse_fn(fn):
                short = fn.name.replace("asmjit::", "")
                o = ords.get(path, 0)
                ords[path] = o + 1
                inst = "%s|%s#%d" % (short, path, o)
                exc = exceptions.get("%s|%s" % (short, path))
                total += 1
                if not ok and exc:
                    chk.ob(RULE, inst, True, loc=fn.loc(eid), detail="accepted: " + exc)
                else:
                    chk.ob(RULE, inst, ok, loc=fn.loc(eid),
                           detail="label_entry_of(%s) is reachable without a successful is_label_valid(%s)" % (path, path),
                           key="labelvalid|" + inst)
    # completeness: every textual call site outside CodeHolder was analysed
    textual = 0
    for root, dirs, files in os.walk(os.path.join(core.REPO, "asmjit")):
        for fnm in files:
            if fnm.endswith((".cpp", ".h")) and not fnm.startswith("codeholder"):
                with open(os.path.join(root, fnm), errors="replace") as fh:
                    textual += len(re.findall(r"\blabel_entry_of\s*\(", fh.read()))
    chk.floor(RULE + ":sites", total, 9)
    chk.need(textual == total, "R-LABEL-VALID analysed %d label_entry_of call sites but the sources outside CodeHolder contain %d "
                               "(a new site is not covered by lib/labelvalid.py SITES)" % (total, textual))


BOUND_UNITS = [("asmjit/core/builder.cpp", r"asmjit::BaseBuilder::[A-Za-z_0-9]+$"),
               ("asmjit/core/codeholder.cpp", r"asmjit::CodeHolder[A-Za-z_0-9:]*$"),
               ("asmjit/core/emitter.cpp", r"asmjit::BaseEmitter::[A-Za-z_0-9]+$")]


def run_bound_strict(chk):
    R = "R-LABEL-BOUND-STRICT"
    chk.rule(R, "every comparison of a label id / label index with the number of labels (label_count(), _label_entries.size(), _label_nodes.size()) "
                "is the strict form - `id >= count` rejects, `id < count` accepts; `id > count` / `id <= count` would let the id one past the end through")
    n = 0
    for unit, rex in BOUND_UNITS:
        f = chk.facts(unit, funcs=rex)
        from .cfg import load_functions
        for fn in load_functions(f):
            for i, x in sorted(fn.ex.items()):
                if x["k"] != "binop" or x["op"] not in ("<", "<=", ">", ">=") or x.get("m") == "ASMJIT_ASSERT":
                    continue

                def is_count(e):
                    y = fn.e(fn.strip(e))
                    while y and y["k"] in ("cast", "paren"):
                        y = fn.e(y["sub"])
                    if not y or y["k"] != "mcall":
                        return False
                    if y.get("cn") == "label_count":
                        return True
                    return y.get("cn") == "size" and re.search(r"_label_(entries|nodes)\b", fn.text(y.get("obj", 0)) or "") is not None

                def is_index(e):
                    y = fn.e(fn.strip(e))
                    return y is not None and y["k"] == "ref" and y.get("dk") in ("local", "parm")
                if is_count(x["rhs"]) and is_index(x["lhs"]):
                    ok = x["op"] in (">=", "<")
                elif is_count(x["lhs"]) and is_index(x["rhs"]):
                    ok = x["op"] in ("<=", ">")
                else:
                    continue
                n += 1
                chk.ob(R, "%s|%s" % (fn.name.replace("asmjit::", ""), " ".join(fn.text(i).split())[:44]), ok, loc=fn.loc(i),
                       detail="`%s` treats the id equal to the number of labels as valid: the entry one past the end is accessed / created" % " ".join(fn.text(i).split())[:70],
                       key="labelbound|%s" % fn.name.replace("asmjit::", ""))
    chk.floor(R + ":comparisons", n, 3)
