"""R-LABEL-VALID: every CodeHolder::label_entry_of(id) outside CodeHolder is dominated by a
successful is_label_valid(id) on the same id expression (credited on the branch edge where the
test is true; an assignment to the id kills the credit)."""
import os
import re
from . import core
from .must import Must

SITES = [
    ("asmjit/x86/x86assembler.cpp", r"x86::Assembler::_emit$"),
    ("asmjit/arm/a64assembler.cpp", r"a64::Assembler::_emit$"),
    ("asmjit/core/assembler.cpp", r"BaseAssembler::(embed_label|embed_label_delta|bind|embed_const_pool)$"),
    ("asmjit/core/formatter.cpp", r"Formatter::format_label$"),
]
RULE = "R-LABEL-VALID"


def _valid_paths(fn, atom):
    """Paths validated when `atom` (a call) is true."""
    x = fn.e(atom)
    out = []
    if not x or x["k"] not in ("call", "mcall"):
        return out
    cn = x.get("cn")
    if cn == "is_label_valid" and x.get("args"):
        p = fn.access_path(x["args"][0])
        if p:
            out.append(p)
    elif cn == "bool_and":
        for a in x.get("args", []):
            out += _valid_paths(fn, fn.strip(a))
    return out


def analyse_fn(fn):
    def elem_fx(eid, x):
        if x["k"] == "binop" and x["op"] == "=":
            p = fn.access_path(x["lhs"])
            if p:
                return ((), (("valid", p),))
        return None

    def edge_fx(b, si, atom, holds):
        if holds:
            return [("valid", p) for p in _valid_paths(fn, atom)]
        return ()

    m = Must(fn, elem_fx, edge_fx)
    res = []
    for i, x in fn.calls(lambda x: x.get("cn") == "label_entry_of" and x.get("cls", "").endswith("CodeHolder")):
        p = fn.access_path(x["args"][0]) if x.get("args") else None
        st = m.before(i)
        ok = st is not None and p is not None and ("valid", p) in st
        res.append((i, p or fn.text(x["args"][0]), ok))
    return res


def run(chk, exceptions):
    chk.rule(RULE, "label_entry_of(id) outside CodeHolder is reached only through the true edge of is_label_valid(id)")
    total = 0
    for unit, regex in SITES:
        f = chk.facts(unit, funcs=regex)
        from .cfg import load_functions
        for fn in load_functions(f):
            ords = {}
            for eid, path, ok in analyse_fn(fn):
                short = fn.name.replace("asmjit::", "")
                o = ords.get(path, 0)
                ords[path] = o + 1
                inst = "%s|%s#%d" % (short, path, o)
                exc = exceptions.get("%s|%s" % (short, path))
                total += 1
                if not ok and exc:
                    chk.ob(RULE, inst, True, loc=fn.loc(eid), detail="accepted: " + exc)
                else:
                    chk.ob(RULE, inst, ok, loc=fn.loc(eid),
                           detail="label_entry_of(%s) is reachable without a successful is_label_valid(%s)" % (path, path),
                           key="labelvalid|" + inst)
    # completeness: every textual call site outside CodeHolder was analysed
    textual = 0
    for root, dirs, files in os.walk(os.path.join(core.REPO, "asmjit")):
        for fnm in files:
            if fnm.endswith((".cpp", ".h")) and not fnm.startswith("codeholder"):
                with open(os.path.join(root, fnm), errors="replace") as fh:
                    textual += len(re.findall(r"\blabel_entry_of\s*\(", fh.read()))
    chk.floor(RULE + ":sites", total, 9)
    chk.need(textual == total, "R-LABEL-VALID analysed %d label_entry_of call sites but the sources outside CodeHolder contain %d "
                               "(a new site is not covered by lib/labelvalid.py SITES)" % (total, textual))
