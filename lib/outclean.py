"""R-OUT-SLOT-CLEAN-ON-FAIL (C15): a creator that reports failure does not leave its result in a *persistent* slot.

Creators return their object through an `Out<T*>` parameter.  Two-step creators (allocate, then register) can fail in the
second step with the first step's object already stored in the out-parameter.  That is harmless when the caller passed a
local (the object is garbage in the arena), but when the caller passed a member that doubles as its "already created?"
cache (`if (!_slot) PROPAGATE(new_x(Out(_slot)))`), the next call finds the half-made object and uses it.

Summary (per function with an Out<T*> parameter, path enumeration over the acyclic CFG paths): the function is
*dirty on failure* when some path reaches a return that can carry an error while the out-parameter holds a value stored on
that path (by `out = x`, or by a forwarded creator that succeeded, or by a forwarded creator that is itself dirty on
failure).  A return carries no error when it returns the literal kOk or an Error local known to equal kOk on that path.

Rule: every call that passes `Out(<member of this>)` to a function that is dirty on failure is a violation unless the
caller assigns nullptr to the same slot after the call."""
import re
from . import cfg
from .vbe import cond_atom

UNITS = ["asmjit/core/builder.cpp", "asmjit/core/compiler.cpp", "asmjit/core/codeholder.cpp", "asmjit/core/rapass.cpp",
         "asmjit/core/assembler.cpp", "asmjit/core/emitter.cpp", "asmjit/core/constpool.cpp", "asmjit/core/func.cpp",
         "asmjit/x86/x86compiler.cpp", "asmjit/arm/a64compiler.cpp", "asmjit/x86/x86builder.cpp", "asmjit/arm/a64builder.cpp"]
MAX_PATHS = 4000


def _key(name, nparams):
    return "%s/%d" % (name, nparams)


def out_params(fn):
    return [k for k, p in enumerate(fn.params) if re.search(r"Out<.*\*\s*>", p["ty"])]


class Summaries:
    def __init__(self, fns):
        self.fns = fns          # key -> [Fn]
        self.memo = {}

    def lookup(self, fn, x):
        cal = x.get("callee")
        if not cal:
            return []
        return self.fns.get(_key(cal, len(x.get("args", []))), [])

    def dirty(self, g, pi, depth=0, entry="clean"):
        """True / False / None(unknown) : may g return an error with its pi-th (Out) parameter holding a stored object
        (entry: whether the slot already holds an object when g is entered)"""
        k = (id(g), pi, entry)
        if k in self.memo:
            return self.memo[k]
        self.memo[k] = False            # recursion guard
        r = self._compute(g, pi, depth, entry)
        self.memo[k] = r
        return r

    def _compute(self, g, pi, depth, entry="clean"):
        if depth > 6 or g.entry is None:
            return None
        pdid = g.params[pi]["did"]

        def is_out_ref(e):
            y = g.e(g.strip(e))
            while y is not None and y["k"] in ("unop", "opcall") and y.get("op") == "*":
                sub = y.get("sub") if y["k"] == "unop" else (y.get("obj") if y.get("obj") is not None else (y.get("args") or [None])[0])
                y = g.e(g.strip(sub)) if sub is not None else None
            return y is not None and y["k"] == "ref" and y.get("did") == pdid

        def is_null(e):
            y = g.e(g.strip(e))
            return y is not None and (y["k"] == "null" or y.get("cvn") == "nullptr" or g.text(e).strip() in ("nullptr", "NULL", "0"))

        npaths = [0]
        found = [None]

        def walk(b, seen, status, var_src, known_ok):
            # status: "clean" | "set" ; var_src: did -> (callee-dirty, ) for Error locals defined from a forwarding call on this path
            if found[0] is not None or npaths[0] > MAX_PATHS:
                return
            blk = g.blocks[b]
            status, var_src, known_ok = status, dict(var_src), set(known_ok)
            for el in blk["elems"]:
                if not isinstance(el, int):
                    continue
                x = g.e(el)
                if x is None:
                    continue
                opl = opr = None
                if x["k"] == "opcall" and x.get("op") == "=":
                    if x.get("obj") is not None and len(x.get("args", [])) == 1:
                        opl, opr = x["obj"], x["args"][0]
                    elif len(x.get("args", [])) == 2:
                        opl, opr = x["args"]
                if (opl is not None and is_out_ref(opl)) or (x["k"] == "binop" and x["op"] == "=" and is_out_ref(x["lhs"])):
                    rhs = opr if x["k"] == "opcall" else x["rhs"]
                    status = "clean" if is_null(rhs) else "set"
                elif x["k"] == "decl":
                    for v in x["vars"]:
                        if v.get("init") is not None and "Error" in (v.get("ty") or ""):
                            src = self._forward_call(g, v["init"], is_out_ref, depth, status)
                            known_ok.discard(v["did"])
                            if src is not None:
                                var_src[v["did"]] = src
                                # the callee ran: whether out is set depends on its outcome, decided at the test of the local
                            else:
                                var_src.pop(v["did"], None)
                elif x["k"] == "binop" and x["op"] == "=":
                    l = g.e(g.strip(x["lhs"]))
                    if l is not None and l["k"] == "ref" and "Error" in (l.get("ty") or ""):
                        src = self._forward_call(g, x["rhs"], is_out_ref, depth, status)
                        known_ok.discard(l["did"])
                        if src is not None:
                            var_src[l["did"]] = src
                        else:
                            var_src.pop(l["did"], None)
                elif x["k"] == "return":
                    val = x.get("val")
                    v = g.e(g.strip(val)) if val is not None else None
                    st = status
                    may_fail = True
                    if v is None or v.get("cvn") == "kOk":
                        may_fail = False
                    elif v["k"] == "ref" and v.get("did") in known_ok:
                        may_fail = False
                    elif v["k"] == "ref" and v.get("did") in var_src:
                        # untested result of a forwarding call
                        d = var_src[v["did"]][0]
                        st = "set" if d else "clean"
                    elif v["k"] in ("call", "mcall"):
                        src = self._forward_call(g, val, is_out_ref, depth, status)
                        if src is not None:
                            st = "set" if src[0] else "clean"       # the callee's summary already accounts for the entry status
                    if may_fail and st == "set":
                        found[0] = el
                        return
                    npaths[0] += 1
                    return
            succs = blk["succs"]
            term = blk.get("term")
            if term and term.get("cond") and len(succs) == 2:
                atom, pol = cond_atom(g, term["cond"])
                a = g.e(atom)
                for si, s in enumerate(succs):
                    if s is None or s in seen:
                        continue
                    holds = (si == 0) == pol
                    st2, ko2 = status, set(known_ok)
                    if a is not None and a["k"] == "binop" and a["op"] in ("!=", "=="):
                        for p_, q_ in ((a["lhs"], a["rhs"]), (a["rhs"], a["lhs"])):
                            pv, qv = g.e(g.strip(p_)), g.e(g.strip(q_))
                            if pv is not None and pv["k"] == "ref" and qv is not None and qv.get("cvn") == "kOk":
                                is_ok = holds if a["op"] == "==" else not holds
                                did = pv.get("did")
                                if is_ok:
                                    ko2.add(did)
                                    if did in var_src and var_src[did][1]:
                                        st2 = "set"             # the creator the slot was forwarded to succeeded: it stored its object
                                else:
                                    if did in var_src:
                                        st2 = "set" if var_src[did][0] else "clean"      # the callee's summary for the status it was entered with
                    vs2 = var_src
                    if a is not None and a["k"] == "binop" and a["op"] in ("!=", "=="):
                        # the outcome of the tested call is now part of the status: forget the pending result
                        tested = {(g.e(g.strip(z)) or {}).get("did") for z in (a["lhs"], a["rhs"])}
                        if tested & set(var_src):
                            vs2 = {k_: v_ for k_, v_ in var_src.items() if k_ not in tested}
                    walk(s, seen | {s}, st2, vs2, ko2)
            else:
                for s in succs:
                    if s is not None and s not in seen:
                        walk(s, seen | {s}, status, var_src, known_ok)

        import sys
        old = sys.getrecursionlimit()
        sys.setrecursionlimit(max(old, 20000))
        try:
            walk(g.entry, {g.entry}, entry, {}, set())
        finally:
            sys.setrecursionlimit(old)
        if found[0] is not None:
            return True
        if npaths[0] > MAX_PATHS:
            return None
        return False

    def _forward_call(self, g, e, is_out_ref, depth, status="clean"):
        """e is a call that forwards the out-parameter -> dirty flag of the callee (True/False), else None"""
        y = g.e(g.strip(e))
        if y is None or y["k"] not in ("call", "mcall"):
            return None
        for ai, a in enumerate(y.get("args", [])):
            if is_out_ref(a):
                ax = g.e(g.strip(a))
                slot = not (ax is not None and ax["k"] in ("unop", "opcall") and ax.get("op") == "*")      # `*out` passes the object, not the slot
                cands = self.lookup(g, y)
                if not cands:
                    return (True, slot)     # unknown creator: assume the worst
                res = [self.dirty(h, ai, depth + 1, status) if ai < len(h.params) else None for h in cands]
                return (any(r is None or r for r in res), slot)
        return None


def run(chk):
    R = "R-OUT-SLOT-CLEAN-ON-FAIL"
    chk.rule(R, "a call that passes a member of `this` as the Out<T*> slot of a creator (the member doubles as the 'already created' cache) "
                "targets a creator that never returns an error with an object stored in the slot (path enumeration of the creator, "
                "transitively through the creators it forwards the slot to), or the caller clears the slot after the call")
    fns = {}
    allfns = []
    for u in UNITS:
        f = chk.facts(u, funcs=r"asmjit::[A-Za-z_0-9:]+$")
        for fo in f["functions"]:
            fn = cfg.Fn(fo)
            fns.setdefault(_key(fn.name, len(fn.params)), [])
            if not any(h.file == fn.file and h.line == fn.line and [p["ty"] for p in h.params] == [p["ty"] for p in fn.params] for h in fns[_key(fn.name, len(fn.params))]):
                fns[_key(fn.name, len(fn.params))].append(fn)
                if fn.file.endswith(u.split("/")[-1]):
                    allfns.append(fn)
    S = Summaries(fns)
    n_sites = n_creators = 0
    dirty_names = set()
    for lst in fns.values():
        for g in lst:
            for pi in out_params(g):
                n_creators += 1
                if S.dirty(g, pi):
                    dirty_names.add(g.name.replace("asmjit::", ""))
    for fn in allfns:
        for i, x in fn.calls(lambda x: x["k"] in ("call", "mcall") and x.get("args")):
            for ai, a in enumerate(x["args"]):
                ax = fn.e(a)
                if ax is None or "Out<" not in (ax.get("ty") or "") or not re.search(r"Out<.*\*\s*>", ax.get("ty") or ""):
                    continue
                inner = fn.strip(a)
                iy = fn.e(inner)
                if iy is None or iy["k"] not in ("member", "subscript"):
                    continue
                path = fn.access_path(inner)
                root = fn.root_ref(inner)
                rx = fn.e(root) if root is not None else None
                if rx is None or rx["k"] != "this":
                    continue
                n_sites += 1
                cands = S.lookup(fn, x)
                res = [S.dirty(h, ai) for h in cands if ai < len(h.params)]
                dirty = (not res) or any(r is None or r for r in res)
                slot = re.sub(r"\s+", "", fn.text(inner))
                cleared = False
                for j, y in fn.ex.items():
                    if y["k"] == "binop" and y["op"] == "=" and re.sub(r"\s+", "", fn.text(y["lhs"])) == slot and fn.line_of(j) > fn.line_of(i):
                        r = fn.e(fn.strip(y["rhs"]))
                        if r is not None and (r["k"] == "null" or r.get("cvn") == "nullptr"):
                            cleared = True
                inst = "%s|%s(%s)" % (fn.name.replace("asmjit::", ""), x.get("cn"), slot)
                chk.ob(R, inst, (not dirty) or cleared, loc=fn.loc(i),
                       detail="`%s` hands the persistent slot `%s` to %s, which can fail after it stored its object there (%s): the failed call "
                              "leaves a half-made object that the next call takes for the finished one" %
                              (" ".join(fn.text(i).split())[:70], slot, x.get("cn"), "no summary" if not res else "second step fails with the out-parameter set"),
                       key="outslot|" + inst)
    chk.floor(R + ":sites", n_sites, 2)
    chk.floor(R + ":creators", n_creators, 20)
    return dirty_names
