"""R-TABLE-SUBSCRIPT-BOUND (C14.d): a constant lookup table is never read out of bounds, whatever operand was passed.

For every subscript `T[i]` in the analysed functions whose base is an array of known length N (C array, Support::Array<T,N>):
an upper bound of `i` is computed from
  * constants, masks (`x & c`), shifts, sums, casts to narrower unsigned types, conditional expressions;
  * the operand accessors, inlined through their single return expression; OperandSignature::get_field<M>() yields M >> ctz(M);
  * must-facts at the subscript: comparisons that dominate it (`if (i >= N) goto Invalid`), `x &= c` assignments;
  * locals with a single initialiser that are never re-assigned.
The obligation is ub(i) < N.  Anything the evaluator does not understand has the upper bound of its type, so an
unresolved subscript is reported, not skipped."""
import re
from . import narrow
from .must import Must

TYPE_MAX = {"bool": 1, "uint8_t": 255, "unsigned char": 255, "uint16_t": 65535, "unsigned short": 65535}


def tmax(ty):
    t = (ty or "").replace("const ", "").strip()
    if t in TYPE_MAX:
        return TYPE_MAX[t]
    return (1 << 64) - 1 if narrow.bits_of(t) == 64 else (1 << 32) - 1


def array_len(ty):
    m = re.search(r"\[(\d+)\]\s*$", ty or "")
    if m:
        return int(m.group(1))
    m = re.search(r"Array<[^,]+,\s*(\d+)\s*>", ty or "")
    return int(m.group(1)) if m else None


FIELD_MAX = {}


class UB:
    def __init__(self, fn, accessors, enum_max=None, tables=None, param_ub=None, row_leaf=None, helpers=None, param_const=None):
        self.fn = fn
        self.row_leaf = row_leaf      # optional: values of `op_data.<field>` leaves for ONE table row (conditions over them are folded)
        self.helpers = helpers or {}  # qualified name -> [Fn] of unit-local helpers: a bool helper on its true edge bounds its arguments
        self.param_const = param_const or {}   # did of a parameter -> its known value (helper instantiated for one call site)
        self._helper_cache = {}
        self.m = None
        self.acc = accessors          # qualified name -> Fn
        self.enum_max = enum_max or {}
        self.tables = tables or {}     # qualified name of a constant table -> list of row dicts
        self.param_ub = param_ub or {} # (function name, param index) -> upper bound over all call sites
        self.field_max = FIELD_MAX      # mask constant -> largest value any enumerator places in that field
        self.assigned = {}
        self.inits = {}
        for i, x in fn.ex.items():
            if x["k"] == "decl":
                for v in x["vars"]:
                    if v.get("init"):
                        self.inits[v["did"]] = v["init"]
            elif x["k"] == "binop" and x["op"].endswith("=") and x["op"] not in ("==", "!=", "<=", ">="):
                l = fn.e(fn.strip(x["lhs"]))
                if l and l["k"] == "ref" and "did" in l:
                    self.assigned.setdefault(l["did"], []).append(i)
            elif x["k"] == "unop" and x["op"] in ("++", "--", "&"):
                l = fn.e(fn.strip(x["sub"]))
                if l and l["k"] == "ref" and "did" in l:
                    self.assigned.setdefault(l["did"], []).append(i)
        self._acc_cache = {}
        self.m = self._analysis()

    def _analysis(self):
        fn = self.fn

        def any_root(e):
            y = fn.e(e)
            for _ in range(6):
                if not y:
                    return None
                if y["k"] == "ref" and "did" in y and y.get("dk") in ("local", "parm"):
                    return y["did"]
                if y["k"] in ("cast", "paren"):
                    y = fn.e(y["sub"])
                    continue
                return None
            return None

        def edge_fx(b, si, atom, holds):
            x = fn.e(atom)
            if x and x["k"] in ("call", "mcall") and holds and x.get("callee") in self.helpers and x.get("args"):
                out = []
                for h in self.helpers[x["callee"]]:
                    if len(h.params) != len(x["args"]) or (h.raw.get("ret") or "") != "bool" or h is fn:
                        continue
                    for j, a in enumerate(x["args"]):
                        d = any_root(a)
                        if d is None or "&" in h.params[j]["ty"] or "*" in h.params[j]["ty"]:
                            continue
                        bnd = self.helper_true_bound(h, j, x["args"])
                        if bnd is not None:
                            out.append(("ub", d, bnd))
                return out
            if not (x and x["k"] == "binop" and x["op"] in ("<", "<=", ">", ">=")):
                return ()
            if x["op"] in ("<", "<="):
                small, big, rel = (x["lhs"], x["rhs"], x["op"]) if holds else (x["rhs"], x["lhs"], "<=" if x["op"] == "<" else "<")
            else:
                small, big, rel = (x["rhs"], x["lhs"], "<" if x["op"] == ">" else "<=") if holds else (x["lhs"], x["rhs"], "<=" if x["op"] == ">" else "<")
            bx = fn.e(fn.strip(big))
            c = bx.get("cv") if bx is not None else None
            if not isinstance(c, int) and bx is not None and bx["k"] == "ref" and bx.get("dk") == "local" and bx.get("did") in self.inits \
               and not self.assigned.get(bx.get("did")):
                # compared with an immutable local: its own upper bound bounds the smaller side
                c = self.ub(self.inits[bx["did"]], None, 4)
                if c >= (1 << 32):
                    c = None
            if not isinstance(c, int) or c < 0:
                return ()
            lim = c if rel == "<=" else c - 1
            out, stack = [], [small]
            while stack:
                t = stack.pop()
                tx = fn.e(t)
                while tx and tx["k"] in ("paren",):
                    t = tx["sub"]
                    tx = fn.e(t)
                if tx and tx["k"] == "binop" and tx["op"] == "|":
                    stack += [tx["lhs"], tx["rhs"]]
                    continue
                d = any_root(t)
                if d is not None:
                    out.append(("ub", d, lim))
            return out
        self._edge_fx = edge_fx
        allf = {}
        for blk in fn.blocks.values():
            for el in blk["elems"]:
                if isinstance(el, int):
                    for h in (True, False):
                        for f_ in edge_fx(0, 0, el, h):
                            allf.setdefault(f_[1], set()).add(f_)

        def elem_fx(eid, x):
            if x["k"] == "binop" and x["op"] == "&=":
                l = fn.e(fn.strip(x["lhs"]))
                mk = fn.e(fn.strip(x["rhs"]))
                if l and l["k"] == "ref" and "did" in l and mk is not None and isinstance(mk.get("cv"), int) and mk["cv"] >= 0:
                    f_ = ("ub", l["did"], mk["cv"])
                    return ((f_,), tuple(g for g in allf.get(l["did"], ()) if g != f_))
            tgt = None
            if x["k"] == "binop" and x["op"].endswith("=") and x["op"] not in ("==", "!=", "<=", ">=", ">>=", "&="):
                tgt = fn.e(fn.strip(x["lhs"]))
            elif x["k"] == "unop" and x["op"] in ("++", "--"):
                tgt = fn.e(fn.strip(x["sub"]))
            if tgt and tgt["k"] == "ref" and "did" in tgt and tgt["did"] in allf:
                return ((), tuple(allf[tgt["did"]]))
            return None
        return Must(fn, elem_fx, edge_fx)

    def const_of(self, eid):
        """value of an expression that is constant here: literal / compiler-evaluated, a field of the one table row, a parameter with a
        known value, an immutable local whose initialiser is constant; None otherwise"""
        from . import exprfold
        fn = self.fn

        def leaf(txt, node):
            if isinstance(node.get("cv"), int):
                return node["cv"]
            if node.get("k") == "ref" and node.get("did") in self.param_const:
                return self.param_const[node["did"]]
            if node.get("k") == "ref" and node.get("dk") == "local" and node.get("did") in self.inits and not self.assigned.get(node.get("did")):
                return F.fold(fn, self.inits[node["did"]])
            if self.row_leaf is not None:
                return self.row_leaf(txt, node)
            raise exprfold.Unknown()
        F = exprfold.Folder({}, leaf, 64)
        try:
            return F.fold(fn, eid)
        except (exprfold.Unknown, RecursionError):
            return None

    def helper_true_bound(self, h, j, args):
        """upper bound of the j-th argument on the edge where the bool helper h returned true (None: no bound)"""
        consts = {}
        for i, a in enumerate(args):
            if i < len(h.params):
                v = self.const_of(a)
                if v is not None:
                    consts[h.params[i]["did"]] = v
        key = (id(h), j, tuple(sorted(consts.items())))
        if key in self._helper_cache:
            return self._helper_cache[key]
        self._helper_cache[key] = None
        sub = UB(h, self.acc, self.enum_max, self.tables, None, None, self.helpers, consts)
        pdid = h.params[j]["did"]
        ref = next((i for i, x in h.ex.items() if x["k"] == "ref" and x.get("did") == pdid), None)
        if ref is None:
            return None
        bounds = []
        for b, idx, r in h.return_sites():
            val = h.e(r).get("val")
            if val is None:
                continue
            cv = sub.const_of(val)
            if cv is not None and not cv:
                continue                      # `return false`
            bnd = sub.ub(ref, r)
            if cv is None:
                # `return <condition>`: true only when the condition holds
                stack = [val]
                while stack:
                    t = h.strip(stack.pop())
                    tx = h.e(t)
                    if tx is not None and tx["k"] == "binop" and tx["op"] == "&&":
                        stack += [tx["lhs"], tx["rhs"]]
                        continue
                    for f_ in sub._edge_fx(0, 0, t, True):
                        if f_[0] == "ub" and f_[1] == pdid:
                            bnd = min(bnd, f_[2])
            bounds.append(bnd)
        res = max(bounds) if bounds else None
        if res is not None and res >= (1 << 63):
            res = None
        self._helper_cache[key] = res
        return res

    def ub(self, eid, at, depth=0):
        fn = self.fn
        x = fn.e(eid)
        if x is None or depth > 24:
            return (1 << 64) - 1
        k = x["k"]
        if isinstance(x.get("cv"), int) and x["cv"] >= 0 and k != "ref":
            return x["cv"]
        if k == "paren":
            return self.ub(x["sub"], at, depth + 1)
        if k == "cast" or (k == "construct" and len(x.get("args", [])) == 1):
            sub = x["sub"] if k == "cast" else x["args"][0]
            return min(self.ub(sub, at, depth + 1), tmax(x.get("ty")))
        if k == "member":
            rows = self.rows_of(x.get("base"))
            if rows is not None and rows and isinstance(rows[0], dict) and x.get("field") in rows[0]:
                vals = [r[x["field"]] for r in rows if isinstance(r.get(x["field"]), int)]
                if vals:
                    return max(vals)
            return tmax(x.get("ty"))
        if k == "ref":
            if isinstance(x.get("cv"), int) and x["cv"] >= 0:
                return x["cv"]
            if x.get("did") in self.param_const:
                return self.param_const[x["did"]]
            best = tmax(x.get("ty"))
            if x.get("dk") == "parm":
                for pi, p in enumerate(fn.params):
                    if p["did"] == x.get("did") and (fn.name, pi) in self.param_ub:
                        best = min(best, self.param_ub[(fn.name, pi)])
            if x.get("ty") in self.enum_max:
                best = min(best, self.enum_max[x["ty"]])
            st = (self.m.before(at) if (at is not None and self.m is not None) else None) or frozenset()
            for f_ in st:
                if f_[0] == "ub" and f_[1] == x.get("did"):
                    best = min(best, f_[2])
            d = x.get("did")
            if d in self.inits and not self.assigned.get(d):
                best = min(best, self.ub(self.inits[d], None, depth + 1))
            elif x.get("dk") == "local" and self.assigned.get(d) and depth < 6:
                # every value the local can hold comes from its initialiser or one of its plain assignments
                vals = [self.ub(self.inits[d], None, depth + 1)] if d in self.inits else ([] if x.get("dk") != "local" else [])
                okk = True
                for ai in self.assigned[d]:
                    ax = fn.e(ai)
                    if ax["k"] == "binop" and ax["op"] == "=":
                        vals.append(self.ub(ax["rhs"], None, depth + 1))
                    else:
                        okk = False
                if okk and vals and (d in self.inits or True):
                    best = min(best, max(vals)) if d in self.inits or all(True for _ in vals) else best
            return best
        if k == "binop":
            op = x["op"]
            a = lambda: self.ub(x["lhs"], at, depth + 1)
            b = lambda: self.ub(x["rhs"], at, depth + 1)
            if op == "&":
                best = min(a(), b())
                for side in (x["lhs"], x["rhs"]):
                    sx = fn.e(fn.strip(side))
                    if sx is not None and isinstance(sx.get("cv"), int) and sx["cv"] in getattr(self, "field_max", {}):
                        best = min(best, self.field_max[sx["cv"]])
                return best
            if op in ("|", "^"):
                for p_, q_ in ((x["lhs"], x["rhs"]), (x["rhs"], x["lhs"])):
                    px = fn.e(p_)
                    while px and px["k"] in ("paren", "cast"):
                        px = fn.e(px["sub"])
                    if px and px["k"] == "binop" and px["op"] == "<<":
                        sx = fn.e(fn.strip(px["rhs"]))
                        if sx is not None and isinstance(sx.get("cv"), int) and 0 < sx["cv"] < 32:
                            lo = self.ub(q_, at, depth + 1)
                            if lo < (1 << sx["cv"]):
                                return (self.ub(px["lhs"], at, depth + 1) << sx["cv"]) + lo
                return (1 << max(a().bit_length(), b().bit_length())) - 1
            if op == "+":
                return a() + b()
            if op == "*":
                return a() * b()
            if op == "<<":
                r = fn.e(fn.strip(x["rhs"]))
                return a() << r["cv"] if r is not None and isinstance(r.get("cv"), int) and 0 <= r["cv"] < 64 else (1 << 64) - 1
            if op == ">>":
                r = fn.e(fn.strip(x["rhs"]))
                return a() >> r["cv"] if r is not None and isinstance(r.get("cv"), int) and 0 <= r["cv"] < 64 else a()
            if op in ("/",):
                r = fn.e(fn.strip(x["rhs"]))
                return a() // r["cv"] if r is not None and isinstance(r.get("cv"), int) and r["cv"] > 0 else a()
            if op == "%":
                r = fn.e(fn.strip(x["rhs"]))
                return r["cv"] - 1 if r is not None and isinstance(r.get("cv"), int) and r["cv"] > 0 else a()
            if op in ("<", "<=", ">", ">=", "==", "!=", "&&", "||"):
                return 1
            return tmax(x.get("ty"))
        if k == "unop" and x["op"] == "!":
            return 1
        if k == "cond":
            if getattr(self, "row_leaf", None) is not None or getattr(self, "param_const", None):
                cv_ = self.const_of(x["c"])
                if cv_ is not None:
                    return self.ub(x["a"] if cv_ else x["b"], at, depth + 1)
            return max(self.ub(x["a"], at, depth + 1), self.ub(x["b"], at, depth + 1))
        if k in ("mcall", "call"):
            if x.get("cn") == "get_field" and x.get("targs"):
                m = re.match(r"^(\d+)", str(x["targs"][0]))
                if m and int(m.group(1)) > 0:
                    v = int(m.group(1))
                    return v >> ((v & -v).bit_length() - 1)
            if x.get("cn") in ("min",) and len(x.get("args", [])) == 2:
                return min(self.ub(x["args"][0], at, depth + 1), self.ub(x["args"][1], at, depth + 1))
            rows = self.rows_of(x.get("obj")) if k == "mcall" and x.get("obj") and not x.get("args") else None
            g = self.acc.get(x.get("callee"))
            if rows is not None and g is not None:
                # accessor of a constant table row: fold it for every row
                from . import exprfold
                best = 0
                try:
                    for row in rows:
                        def leaf(t, node, row=row):
                            if node.get("k") == "member" and node.get("field") in row and isinstance(row[node["field"]], int):
                                return row[node["field"]]
                            raise exprfold.Unknown()
                        F = exprfold.Folder(self.acc, leaf, 32)
                        best = max(best, F.fold(g, F.ret_of(g)))
                    return best
                except exprfold.Unknown:
                    pass
            if g is not None and depth < 12:
                key = x.get("callee")
                if key not in self._acc_cache:
                    self._acc_cache[key] = tmax(x.get("ty"))      # recursion guard
                    rets = list(g.return_sites())
                    if len(rets) == 1 and g.e(rets[0][2]).get("val"):
                        sub = UB.__new__(UB)
                        sub.fn, sub.acc, sub.enum_max, sub.assigned, sub.inits, sub._acc_cache = g, self.acc, self.enum_max, {}, {}, self._acc_cache
                        sub.tables, sub.param_ub, sub.field_max = self.tables, {}, FIELD_MAX
                        sub.row_leaf, sub.helpers, sub.param_const, sub._helper_cache = None, {}, {}, {}
                        sub.m = type("M", (), {"before": staticmethod(lambda e: frozenset())})()
                        self._acc_cache[key] = min(tmax(x.get("ty")), sub.ub(g.e(rets[0][2])["val"], None, depth + 1))
                return min(self._acc_cache[key], self.enum_max.get(x.get("ty"), 1 << 64))
            if x.get("ty") in self.enum_max:
                return self.enum_max[x["ty"]]
            return tmax(x.get("ty"))
        return tmax(x.get("ty"))


def _rows_of(self, eid):
    """rows of the constant table a `const T& x = TABLE[i]` local (or TABLE[i] itself) refers to"""
    fn = self.fn
    y = fn.e(fn.strip(eid)) if eid else None
    for _ in range(4):
        if not y:
            return None
        if y["k"] == "ref" and y.get("did") in self.inits and not self.assigned.get(y.get("did")):
            y = fn.e(fn.strip(self.inits[y["did"]]))
            continue
        if y["k"] == "subscript":
            b = fn.e(fn.strip(y["base"]))
            if b and b["k"] == "ref" and b.get("dk") == "global":
                t = self.tables.get(b.get("qn"))
                if isinstance(t, list):
                    return t
            if b and b["k"] == "member":
                y = b
                continue
            return None
        if y["k"] == "member":
            rows = _rows_of(self, y.get("base"))
            if rows and isinstance(rows[0], dict) and isinstance(rows[0].get(y.get("field")), list):
                out = []
                for r in rows:
                    out += r[y["field"]]
                return out
            return None
        return None
    return None


UB.rows_of = _rows_of


def call_site_bounds(fns, accessors, enum_max, tables):
    """(callee name, param index) -> max over the call sites (inside fns) of the argument's upper bound; iterated so that
    a wrapper that forwards its own parameter inherits the bound of its callers"""
    names = {g.name for g in fns}
    prev = {}
    for _round in range(4):
        out = {}
        ubs = {}
        for fn in fns:
            for i, x in fn.calls(lambda x: x["k"] in ("call", "mcall")):
                c = x.get("callee")
                if not c or c not in names:
                    continue
                if fn.name not in ubs:
                    ubs[fn.name] = UB(fn, accessors, enum_max, tables, prev)
                for pi, a in enumerate(x.get("args", [])):
                    ax = fn.e(fn.strip(a))
                    if c == fn.name and ax is not None and ax["k"] == "ref" and ax.get("dk") == "parm":
                        continue        # an overload forwarding its own parameter adds no new values
                    v = ubs[fn.name].ub(a, i)
                    out[(c, pi)] = max(out.get((c, pi), 0), v)
        if out == prev:
            break
        prev = out
    return prev


DELEGATED = {"opcode_mm_table": "R-MM-INDEX-BOUND"}


def run(chk, fns, accessors, enum_max, tables=None, rule="R-TABLE-SUBSCRIPT-BOUND", floor=8, skip_index_names=("encoding_index",), only_fields=None, text=None):
    chk.rule(rule, text or "every subscript of a constant lookup table in the emit paths has an index whose upper bound (masks, operand-signature "
                   "field widths, dominating comparisons, enum ranges) is below the table's length: arbitrary operands cannot make the encoder "
                   "read past a table")
    n = 0
    pub = None
    for fn in fns:
        U = None
        for i, x in sorted(fn.ex.items()):
            if x["k"] != "subscript":
                continue
            b = fn.e(fn.strip(x["base"]))
            if not b or b["k"] not in ("ref", "member"):
                continue
            if b["k"] == "ref" and b.get("dk") not in ("global",):
                continue
            N = array_len(b.get("ty"))
            if not N:
                continue
            if only_fields is not None and (b["k"] != "member" or b.get("field") not in only_fields):
                continue
            ix = fn.e(fn.strip(x["idx"]))
            if ix is not None and ix["k"] == "ref" and ix.get("name") in skip_index_names:
                continue            # decided exhaustively by R-ENCODING-DATA-INDEX over the table rows
            if (b.get("name") or b.get("field")) in DELEGATED:
                continue            # index is a field of the instruction's opcode word, not of an operand: decided per table row by another rule
            if U is None:
                if pub is None:
                    pub = call_site_bounds(fns, accessors, enum_max, tables)
                U = UB(fn, accessors, enum_max, tables, pub)
            n += 1
            bound = U.ub(x["idx"], i)
            name = (b.get("name") or b.get("field") or "?")
            chk.ob(rule, "%s|%s[%s]" % (fn.name.replace("asmjit::", ""), name, " ".join(fn.text(x["idx"]).split())[:40]), bound < N, loc=fn.loc(i),
                   detail="`%s[%s]`: the table has %d entries but the index can be as large as %s on this path" % (
                       name, " ".join(fn.text(x["idx"]).split())[:50], N, bound if bound < (1 << 40) else "(unbounded)"),
                   key="subscript|%s|%s" % (fn.name.replace("asmjit::", ""), name))
    chk.floor(rule + ":subscripts", n, floor)
    return n


ACCESSORS = (r"asmjit::(BaseMem|Reg|Operand_|Operand|OperandSignature|x86::Mem|a64::Mem|Imm|BaseReg|x86::Reg|a64::Reg|x86::Gp|x86::Vec|a64::Gp|a64::Vec|"
             r"a64::SizeOp|x86::Opcode|a64::Opcode|a64::InstDB::EncodingData::[A-Za-z0-9_]+)::[a-zA-Z_0-9]+$")


def run_units(chk):
    """C14.d over both assemblers"""
    from . import cfg, core
    total = 0
    for unit, pat, tabs, dbunit, dbtabs in (
            ("asmjit/x86/x86assembler.cpp", r"x86::Assembler::_emit$|asmjit::x86::X86BufferWriter::[a-z_0-9]+$|asmjit::x86::x86_[a-z_0-9]+$", r"asmjit::x86::[A-Za-z0-9_]*(table|Table)[A-Za-z0-9_]*$", None, None),
            ("asmjit/arm/a64assembler.cpp", r"a64::Assembler::_emit$|asmjit::a64::[a-z_0-9]+$", r"a64::[A-Za-z0-9_]+_table$|a64::[a-z_]+_map$",
             "asmjit/arm/a64instdb.cpp", r"a64::InstDB::EncodingData::[A-Za-z0-9_]+$")):
        f = chk.facts(unit, funcs=pat, tables=tabs)
        fa = chk.facts(unit, funcs=ACCESSORS, enums=r"asmjit::(RegType|arm::ShiftOp|a64::VecElementType|x86::SReg::Id|x86::Opcode::Bits)$")
        ob = fa["enums"].get("asmjit::x86::Opcode::Bits")
        if ob:
            # opcode words are built from these enumerators only: the MM field never exceeds the largest kMM_* enumerator
            ev = {n_: v_ for n_, v_ in ob["enumerators"]}
            if "kMM_Mask" in ev:
                FIELD_MAX[ev["kMM_Mask"]] = max(v_ & ev["kMM_Mask"] for n_, v_ in ev.items() if n_.startswith("kMM_") and n_ not in ("kMM_Mask", "kMM_Shift"))
        tables = {k: v.get("value") for k, v in f["tables"].items()}
        if dbunit:
            fd = chk.facts(dbunit, tables=dbtabs)
            tables.update({k: v.get("value") for k, v in fd["tables"].items()})
        acc = {}
        for fo in fa["functions"]:
            g = cfg.Fn(fo)
            acc.setdefault(g.name, g)
        emax = {}
        for en, ev in fa["enums"].items():
            emax[en] = max(v for _, v in ev["enumerators"] if v < (1 << 20))
            emax[en.replace("asmjit::", "")] = emax[en]
        fns = [cfg.Fn(fo) for fo in f["functions"]]
        total += run(chk, fns, acc, emax, tables, floor=0)
    chk.floor("R-TABLE-SUBSCRIPT-BOUND:subscripts", total, 30)
    mm_index_rule(chk)


def mm_index_rule(chk):
    """the MM field of an opcode word indexes opcode_mm_table only for instructions whose MM field is inside the table"""
    from . import cfg
    R = "R-MM-INDEX-BOUND"
    chk.rule(R, "x86: for every instruction row whose dispatch case can reach X86BufferWriter::emit_mm_and_opcode() in the CFG of _emit, the MM field "
                "of its main and alternative opcode words (incl. the kMM_ForceEvex bit, which lies inside kMM_Mask) is below the length of "
                "opcode_mm_table")
    unit = "asmjit/x86/x86assembler.cpp"
    f = chk.facts(unit, funcs=r"x86::Assembler::_emit$", tables=r"asmjit::x86::opcode_mm_table$", enums=r"asmjit::x86::InstDB::EncodingId$|asmjit::x86::Opcode::Bits$")
    emit = cfg.find_fn(f, "x86::Assembler::_emit")
    tab = f["tables"].get("asmjit::x86::opcode_mm_table")
    chk.need(tab is not None and isinstance(tab.get("value"), list), "opcode_mm_table not dumped")
    N = len(tab["value"])
    B = {n_: v_ for n_, v_ in f["enums"]["asmjit::x86::Opcode::Bits"]["enumerators"]}
    encn = {v_: n_ for n_, v_ in f["enums"]["asmjit::x86::InstDB::EncodingId"]["enumerators"]}
    targets = {emit.block_of()[i][0] for i, x in emit.calls(lambda x: x.get("cn") == "emit_mm_and_opcode") if i in emit.block_of()}
    chk.need(len(targets) >= 3, "emit_mm_and_opcode call sites not found in _emit")
    reach = {}
    for b in emit.blocks.values():
        lab = b.get("label")
        if lab and lab.get("kind") == "case":
            r = emit.reachable_from(b["id"]) | {b["id"]}
            reach[lab["name"]] = bool(r & targets)
    fd = chk.facts("asmjit/x86/x86instdb.cpp", tables=r"asmjit::x86::InstDB::(_inst_info_table|main_opcode_table|alt_opcode_table)$", enums=r"asmjit::x86::Inst::Id$")
    rows = fd["tables"]["asmjit::x86::InstDB::_inst_info_table"]["value"]
    mainop = fd["tables"]["asmjit::x86::InstDB::main_opcode_table"]["value"]
    altop = fd["tables"]["asmjit::x86::InstDB::alt_opcode_table"]["value"]
    idn = {}
    for n_, v_ in fd["enums"]["asmjit::x86::Inst::Id"]["enumerators"]:
        idn.setdefault(v_, n_)
    n = 0
    bad = []
    for rid, r in enumerate(rows):
        enc = encn.get(r["_encoding"], "?")
        if not reach.get(enc, True):
            continue
        for opc in (mainop[r["_main_opcode_index"]] | r["_main_opcode_value"], altop[r["_alt_opcode_index"]]):
            if not opc:
                continue
            if enc.startswith("kEncodingFpu") and (opc & B.get("kFPU_2B_Mask", 0)):
                continue        # two-byte FPU opcode word (O_FPU layout overlaps the MM field); written by the EmitFpuOp tail, which has no MM lookup
            n += 1
            mm = (opc & B["kMM_Mask"]) >> B["kMM_Shift"]
            if mm >= N:
                bad.append((idn.get(rid, rid), enc, mm))
    chk.ob(R, "x86|rows-reaching-emit_mm_and_opcode", not bad, loc="asmjit/x86/x86instdb.cpp",
           detail="opcode words whose MM field is outside opcode_mm_table[%d] can reach emit_mm_and_opcode(): %s" % (N, bad[:5]), key="mmindex|rows")
    chk.floor(R + ":opcode-words", n, 500)
    chk.extra["mm_index"] = {"encodings_reaching_legacy_tail": sorted(k for k, v in reach.items() if v)[:200], "opcode_words": n}
