"""E4 — regenerate the generated tables from db/ with the repository's own generator in a scratch
copy (outside /repo and /verif) and diff every asmjit/** file against /repo."""
import filecmp
import os
import shutil
import subprocess
import tempfile
from . import core


def run(chk, rule="R-REGEN-IDENTICAL", files_of_interest=None):
    chk.rule(rule, "running tools/tablegen-x86.js and tools/tablegen-a64.js on db/ in a scratch copy reproduces every generated region of asmjit/** byte for byte")
    tmp = tempfile.mkdtemp(prefix="verif-regen-", dir=os.environ.get("TMPDIR", "/tmp"))
    try:
        for d in ("asmjit", "db", "tools"):
            shutil.copytree(os.path.join(core.REPO, d), os.path.join(tmp, d))
        for gen in ("tablegen-x86.js", "tablegen-a64.js"):
            chk.need(os.path.exists(os.path.join(tmp, "tools", gen)), "generator tools/%s missing" % gen)
            p = subprocess.run(["node", gen], cwd=os.path.join(tmp, "tools"), stdout=subprocess.PIPE, stderr=subprocess.STDOUT, text=True, timeout=300)
            chk.need(p.returncode == 0, "node tools/%s failed: %s" % (gen, p.stdout[-1500:]))
        n = 0
        for root, dirs, files in os.walk(os.path.join(tmp, "asmjit")):
            dirs.sort()
            for f in sorted(files):
                a = os.path.join(root, f)
                rel = os.path.relpath(a, tmp)
                b = os.path.join(core.REPO, rel)
                if files_of_interest and not any(rel.endswith(x) for x in files_of_interest):
                    continue
                has_region = False
                with open(b, errors="replace") as fh:
                    txt = fh.read()
                has_region = ":Begin}" in txt
                if not has_region:
                    continue
                n += 1
                same = filecmp.cmp(a, b, shallow=False)
                det = ""
                if not same:
                    with open(a, errors="replace") as fa:
                        la = fa.read().split("\n")
                    lb = txt.split("\n")
                    region = "?"
                    for i in range(min(len(la), len(lb))):
                        if "${" in lb[i] and ":Begin}" in lb[i]:
                            region = lb[i].strip()
                        if la[i] != lb[i]:
                            det = "first difference at line %d in region %s: committed `%s` vs regenerated `%s`" % (i + 1, region, lb[i].strip()[:90], la[i].strip()[:90])
                            break
                    else:
                        det = "files differ in length"
                chk.ob(rule, rel, same, loc=rel, detail=det)
        chk.floor(rule + ":generated-files", n, 3 if files_of_interest else 6)
    finally:
        shutil.rmtree(tmp, ignore_errors=True)
