"""C01.a — the x86 encoder's lookup tables, dumped as the compiler evaluates them, against
independent oracles.  Architectural facts (Intel SDM vol. 2) are written out here; bit positions
(Opcode::Bits, RegType, register ids) are read from the dumped enums, never hard-coded."""


def enum_map(facts, name):
    e = facts["enums"].get(name)
    return {n: v for n, v in e["enumerators"]} if e else None


def table(facts, name):
    t = facts["tables"].get(name)
    return t.get("value") if t else None


def run(chk, facts, unit):
    R = "R-TABLE-ORACLE"
    chk.rule(R, "every entry of a constant encoder table (as evaluated by the compiler) equals the value of an independent oracle: "
                "SDM mandatory-prefix / opcode-map / segment-override / 16-bit ModRM tables ('arch'), or the stated construction rule ('pinned')")
    bits = enum_map(facts, "asmjit::x86::Opcode::Bits")
    regt = enum_map(facts, "asmjit::RegType")
    sreg = enum_map(facts, "asmjit::x86::SReg::Id")
    gpid = enum_map(facts, "asmjit::x86::Gp::Id")
    mi = enum_map(facts, "asmjit::x86::X86MemInfo_Enum")
    xb = enum_map(facts, "asmjit::x86::X86Byte")
    for nm, e in (("Opcode::Bits", bits), ("RegType", regt), ("SReg::Id", sreg), ("Gp::Id", gpid), ("X86MemInfo_Enum", mi), ("X86Byte", xb)):
        chk.need(e is not None, "enum %s not found in %s" % (nm, unit))

    def cmp_table(name, oracle, kind):
        val = table(facts, "asmjit::x86::" + name)
        chk.need(isinstance(val, list), "table %s not dumped from %s" % (name, unit))
        chk.need(len(val) == len(oracle), "table %s has %d entries, oracle %d" % (name, len(val), len(oracle)))
        for i, (a, b) in enumerate(zip(val, oracle)):
            if b is None:
                continue
            chk.ob(R, "%s[%d]|%s" % (name, i, kind), a == b, loc=unit,
                   detail="%s[%d] is %r, oracle says %r" % (name, i, a, b))

    # --- mandatory prefixes: the byte named by the enumerator, at the index the PP field selects
    pp_shift = bits["kPP_Shift"]
    pp = [0] * 8
    for n, v in bits.items():
        if n.startswith("kPP_") and n not in ("kPP_Shift", "kPP_Mask", "kPP_VEXMask", "kPP_FPUMask", "kPP_FPU_Mask"):
            suffix = n[4:]
            try:
                byte = int(suffix, 16)
            except ValueError:
                continue
            if byte > 0xFF:
                continue
            pp[(v >> pp_shift) & 7] = byte
    cmp_table("opcode_pp_table", pp, "arch")
    # VEX.pp encoding fixed by the architecture: 66 -> 1, F3 -> 2, F2 -> 3
    for n, want in (("kPP_66", 1), ("kPP_F3", 2), ("kPP_F2", 3)):
        chk.ob(R, "Opcode::%s|arch" % n, n in bits and (bits[n] >> pp_shift) & 3 == want, loc="asmjit/x86/x86opcode_p.h",
               detail="VEX/EVEX pp field for prefix %s must be %d" % (n[4:], want))

    # --- opcode maps: escape bytes named by the enumerator
    mm_shift = bits["kMM_Shift"]
    mm_oracle = [None] * 16
    names = {"kMM_00": [], "kMM_0F": [0x0F], "kMM_0F38": [0x0F, 0x38], "kMM_0F3A": [0x0F, 0x3A], "kMM_0F01": [0x0F, 0x01]}
    for n, esc in names.items():
        chk.need(n in bits, "Opcode::%s missing" % n)
        idx = (bits[n] >> mm_shift) & 0xF
        mm_oracle[idx] = {"data": esc + [0] * (3 - len(esc)), "size": len(esc)}
    mmv = table(facts, "asmjit::x86::opcode_mm_table")
    chk.need(isinstance(mmv, list) and len(mmv) == 16, "opcode_mm_table not dumped")
    for i, o in enumerate(mm_oracle):
        if o is None:
            # maps without legacy escape bytes (MAP5/MAP6/XOP) must not emit any
            chk.ob(R, "opcode_mm_table[%d]|arch" % i, mmv[i]["size"] == 0, loc=unit, detail="map index %d has no legacy escape but emits %r" % (i, mmv[i]))
        else:
            chk.ob(R, "opcode_mm_table[%d]|arch" % i, mmv[i]["size"] == o["size"] and mmv[i]["data"][:o["size"]] == o["data"][:o["size"]], loc=unit,
                   detail="escape bytes for map index %d are %r, architecture says %r" % (i, mmv[i], o))
    for n, want in (("kMM_0F", 1), ("kMM_0F38", 2), ("kMM_0F3A", 3), ("kMM_MAP5", 5), ("kMM_MAP6", 6), ("kMM_XOP08", 8), ("kMM_XOP09", 9), ("kMM_XOP0A", 10)):
        if n in bits:
            chk.ob(R, "Opcode::%s|arch" % n, (bits[n] >> mm_shift) & 0x1F == want, loc="asmjit/x86/x86opcode_p.h",
                   detail="VEX/EVEX/XOP mmmmm for %s must be %d" % (n, want))

    # --- segment override prefixes and push/pop sreg opcodes (SDM 2.1.1, PUSH/POP)
    seg_prefix = {"kIdEs": 0x26, "kIdCs": 0x2E, "kIdSs": 0x36, "kIdDs": 0x3E, "kIdFs": 0x64, "kIdGs": 0x65}
    o = [0] * 8
    for n, b in seg_prefix.items():
        o[sreg[n]] = b
    cmp_table("segment_prefix_table", o, "arch")
    of = bits["kMM_0F"]
    push = {"kIdEs": 0x06, "kIdCs": 0x0E, "kIdSs": 0x16, "kIdDs": 0x1E, "kIdFs": of | 0xA0, "kIdGs": of | 0xA8}
    pop = {"kIdEs": 0x07, "kIdCs": 0x00, "kIdSs": 0x17, "kIdDs": 0x1F, "kIdFs": of | 0xA1, "kIdGs": of | 0xA9}
    for nm, src in (("opcode_push_sreg_table", push), ("opcode_pop_sreg_table", pop)):
        o = [0] * 8
        for n, b in src.items():
            o[sreg[n]] = b
        cmp_table(nm, o, "arch")

    # --- 16-bit addressing (SDM table 2-1)
    o = [0xFF] * 8
    o[gpid["kIdBx"]] = 7
    o[gpid["kIdBp"]] = 6
    o[gpid["kIdSi"]] = 4
    o[gpid["kIdDi"]] = 5
    cmp_table("mod16_base_table", o, "arch")
    o = [0xFF] * 64
    for (b, i, rm) in (("kIdBx", "kIdSi", 0), ("kIdBx", "kIdDi", 1), ("kIdBp", "kIdSi", 2), ("kIdBp", "kIdDi", 3)):
        o[(gpid[b] << 3) | gpid[i]] = rm
        o[(gpid[i] << 3) | gpid[b]] = rm
    cmp_table("mod16_base_index_table", o, "arch")

    # --- vector length fields
    ll = [bits["kLL_0"], bits["kLL_1"], bits["kLL_2"]]
    chk.ob(R, "Opcode::kLL|arch", [(v >> bits["kLL_Shift"]) & 3 for v in ll] == [0, 1, 2], loc="asmjit/x86/x86opcode_p.h",
           detail="VEX.L / EVEX.L'L for 128/256/512-bit must be 0/1/2")
    o = []
    for x in range(16):
        size = x * 16
        o.append(ll[2] if size >= 64 and (x & 4) else ll[1] if (x & 2) else ll[0])
    cmp_table("ll_by_size_div_16_table", o, "pinned")
    o = [ll[0]] * 16
    if regt["kVec256"] < 16:
        o[regt["kVec256"]] = ll[1]
    if regt["kVec512"] < 16:
        o[regt["kVec512"]] = ll[2]
    cmp_table("ll_by_reg_type_table", o, "arch")

    # --- 3-byte VEX / XOP lead byte per mmmmm (XOP maps are 8..15)
    o = []
    for x in range(16):
        lead = xb["kX86ByteXop3"] if x & 8 else xb["kX86ByteVex3"]
        o.append(lead | (0xF << 19) | (0x7 << 13))
    cmp_table("vex_prefix_table", o, "arch")
    chk.ob(R, "X86Byte|arch", xb["kX86ByteVex3"] == 0xC4 and xb["kX86ByteVex2"] == 0xC5 and xb["kX86ByteXop3"] == 0x8F and xb["kX86ByteEvex"] == 0x62 and xb["kX86ByteRex"] == 0x40,
           loc=unit, detail="prefix lead bytes must be C4/C5/8F/62/40")

    # --- memory operand info per (base type, index type)
    gp = (regt["kGp16"], regt["kGp32"], regt["kGp64"])
    vec = (regt["kVec128"], regt["kVec256"], regt["kVec512"])
    o = []
    for x in range(1024):
        b, i = x & 0x1F, (x >> 5) & 0x1F
        v = 0x04 | 0x08
        if b in gp:
            v |= mi["kX86MemInfo_BaseGp"]
        elif b == regt["kPC"]:
            v |= mi["kX86MemInfo_BaseRip"]
        elif b == regt["kLabelTag"]:
            v |= mi["kX86MemInfo_BaseLabel"]
        if i in gp or i in vec:
            v |= mi["kX86MemInfo_Index"]
        # address-size override: 16-bit registers need 67h in 32-bit mode, 32-bit registers in 64-bit mode
        a16 = (b == regt["kGp16"] and i in (regt["kNone"], regt["kGp16"]) + vec) or (b in (regt["kNone"], regt["kLabelTag"]) and i == regt["kGp16"])
        a32 = (b == regt["kGp32"] and i in (regt["kNone"], regt["kGp32"]) + vec) or (b in (regt["kNone"], regt["kLabelTag"]) and i == regt["kGp32"])
        if a16:
            v |= mi["kX86MemInfo_67H_X86"]
        elif a32:
            v |= mi["kX86MemInfo_67H_X64"]
        o.append(v)
    cmp_table("mem_info_table", o, "arch")

    # --- compressed displacement scale: index = CDTT[4:3] | W[2] | LL[1:0]
    tt_shift, shl_shift = bits["kCDTT_Shift"], bits["kCDSHL_Shift"]
    kinds = {bits["kCDTT_None"] >> tt_shift: "none", bits["kCDTT_ByLL"] >> tt_shift: "byll", bits["kCDTT_T1W"] >> tt_shift: "t1w", bits["kCDTT_DUP"] >> tt_shift: "dup"}
    o = []
    for x in range(32):
        tt, w, l = x >> 3, (x >> 2) & 1, x & 3
        k = kinds.get(tt, "none")
        lsel = 0 if l == 0 else 1 if l == 1 else 2
        if k == "none":
            s = 0
        elif k == "byll":
            s = (0, 1, 2)[lsel]
        elif k == "t1w":
            s = (0, 1, 2)[lsel] + w
        else:
            s = (0, 2, 3)[lsel]      # MOVDDUP-style: 8, 32, 64 bytes
        o.append(s << shl_shift)
    cmp_table("cdisp8_shl_table", o, "pinned")
