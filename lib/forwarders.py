"""R-FORWARDER-NAMESAKE (C18): a container query that forwards to its Span view calls the Span operation of the same name.

ArenaVector<T>::contains / index_of / last_index_of are one-line forwarders `return as_span().X(value)`.  "Holds exactly the elements
and order the textbook type would hold" includes what the queries answer: last_index_of() that forwards to Span::index_of() returns
the first match.  The members are templates, so a fixture in /verif instantiates them; the bodies analysed are /repo's current
arenavector.h."""
from . import core, cfg

FIXTURE = "/verif/fixtures/asmjit/vector_forwarders.cpp"


def run(chk, rule="R-FORWARDER-NAMESAKE"):
    chk.rule(rule, "every ArenaVector<T> member whose body is `return as_span().X(...)`: when Span<T> has a member with the vector member's own "
                   "name, X is that member (last_index_of -> Span::last_index_of)")
    f = core.astfacts(FIXTURE, funcs=r"asmjit::(ArenaVector|Span)<int>::[a-z_]+$")
    chk.units.add("asmjit/support/arenavector.h")
    fns = cfg.load_functions(f)
    span = {g.name.split("::")[-1] for g in fns if g.name.startswith("asmjit::Span<int>::")}
    n = 0
    for g in fns:
        if not g.name.startswith("asmjit::ArenaVector<int>::"):
            continue
        m = g.name.split("::")[-1]
        rets = list(g.return_sites())
        if len(rets) != 1 or g.e(rets[0][2]).get("val") is None:
            continue
        v = g.e(g.strip(g.e(rets[0][2])["val"]))
        if v is None or v["k"] != "mcall" or not (v.get("callee") or "").startswith("asmjit::Span<int>::"):
            continue
        o = g.e(g.strip(v["obj"])) if v.get("obj") is not None else None
        if o is None or o.get("cn") != "as_span":
            continue
        if m not in span:
            continue
        n += 1
        chk.ob(rule, "ArenaVector::%s" % m, v.get("cn") == m, loc="%s:%d" % (g.file.replace("/repo/", ""), g.line),
               detail="ArenaVector<T>::%s() forwards to Span<T>::%s() although Span<T>::%s() exists: the query answers a different question "
                      "(first match instead of last)" % (m, v.get("cn"), m), key="forwarder|%s" % m)
    chk.floor(rule + ":forwarders", n, 3)
    return n
