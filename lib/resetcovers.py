"""R-RESET-COVERS: every arena-backed container member and every pointer member of class K is
reset (reset()/clear()/fill()/for_each()/release(), or assigned) in the closure of each of K's
reset entry points, unless listed as exempt with a reason in rules/reset_covers.json."""
import re
from . import cfg

CONTAINER_RE = re.compile(r"\bArena(Vector|Hash|HashBase|Tree|List|Pool|String|BitSet|BitVector)\b|\bNodeList\b")
RESET_METHODS = {"reset", "clear", "fill", "for_each", "release", "release_all", "truncate", "reset_to"}
RESET_CALLEE_RE = re.compile(r"reset|release|clear|memset|delete", re.I)


def is_pointer_type(ty):
    t = ty.strip()
    return t.endswith("*") and "(" not in t


def needs_reset(field, extra_types):
    ty = field["ty"]
    if CONTAINER_RE.search(ty):
        return "container"
    if is_pointer_type(ty) or re.search(r"\*\[\d+\]$", ty) or re.search(r"Array<[^>]*\*", ty):
        return "pointer"
    for t in extra_types:
        if t in ty:
            return "composite"
    return None


def closure(fns_by_name, root):
    seen, order = set(), []
    stack = [root]
    while stack:
        n = stack.pop()
        if n in seen or n not in fns_by_name:
            continue
        seen.add(n)
        order.append(n)
        fn = fns_by_name[n]
        dead = _failure_only_blocks(fn)
        blk = fn.block_of()
        par = None
        for i, x in fn.calls():
            c = x.get("callee")
            if c and c in fns_by_name and c not in seen:
                # a call that only happens on the way to a failing return (`if (err) { reset(kHard); return err; }`) does not
                # contribute to what the entry point does when it succeeds
                j = i
                if j not in blk:
                    par = par or fn.parent_map()
                    while j not in blk and j in par:
                        j = par[j]
                if j in blk and blk[j][0] in dead:
                    continue
                stack.append(c)
    return order


def _failure_only_blocks(fn):
    """blocks from which every reachable return statement returns something other than the constant kOk (Error-returning functions only)"""
    if "Error" not in (fn.raw.get("ret") or ""):
        return set()
    ok_blocks, all_ret = set(), set()
    for b, idx, r in fn.return_sites():
        all_ret.add(b)
        v = fn.e(fn.strip(fn.e(r).get("val"))) if fn.e(r).get("val") is not None else None
        if v is not None and v.get("cvn") == "kOk":
            ok_blocks.add(b)
    if not ok_blocks:
        return set()
    # blocks that can reach a success return
    can = set(ok_blocks)
    changed = True
    while changed:
        changed = False
        for b in fn.blocks:
            if b not in can and any(s_ in can for s_ in fn.succs(b)):
                can.add(b)
                changed = True
    return {b for b in fn.blocks if b not in can}


def object_roots(fn, cls):
    """Names through which `fn` refers to the K object: 'this' when fn is a method of K, and
    parameters of type K* / K&."""
    roots = set()
    short = cls.split("::")[-1]
    if fn.raw.get("cls") == cls:
        roots.add("this")
    # locals of type K* (e.g. `BaseEmitter* emitter = ...` in a detach loop)
    for i, x in fn.ex.items():
        if x["k"] == "decl":
            for v in x["vars"]:
                t = v["ty"].replace("const ", "").strip()
                if re.match(r"(asmjit::)?%s\s*[*&]$" % re.escape(short), t):
                    roots.add(v["name"])
    for p in fn.params:
        t = p["ty"].replace("const ", "").strip()
        if re.match(r"(asmjit::)?%s\s*[*&]$" % re.escape(short), t):
            roots.add(p["name"])
    return roots


ELEMS = {}


def fields_reset_in(fn, cls):
    """Set of first-level field names of K reset/assigned in fn."""
    roots = object_roots(fn, cls)
    out = {}
    if not roots:
        return out

    def first_field(path):
        if not path:
            return None
        parts = path.split(".")
        if parts[0] in roots and len(parts) >= 2:
            return parts[1].replace("[]", "")
        return None

    def note_elem(lhs, f):
        """record which element of an array member is assigned (constant index) or '*' (computed index / whole object)"""
        y = fn.e(fn.strip(lhs))
        idx = "*"
        hops = 0
        while y and hops < 6:
            if y["k"] == "subscript":
                b = fn.e(fn.strip(y["base"]))
                if b and b["k"] == "member" and b.get("field") == f:
                    ix = fn.e(fn.strip(y["idx"]))
                    idx = ix["cv"] if ix is not None and isinstance(ix.get("cv"), int) else "*"
                    break
                y = b
            elif y["k"] == "member":
                if y.get("field") == f:
                    break
                y = fn.e(fn.strip(y["base"]))
            else:
                break
            hops += 1
        ELEMS.setdefault((id(out), f), set()).add(idx)
        out.setdefault("elems:" + f, set()).add(idx)

    for i, x in fn.ex.items():
        k = x["k"]
        if k == "binop" and (x["op"] == "=" or x["op"].endswith("=") and x["op"] not in ("==", "!=", "<=", ">=")):
            f = first_field(fn.access_path(x["lhs"]))
            if f:
                out.setdefault(f, ("assign", x["l"]))
                note_elem(x["lhs"], f)
        elif k == "opcall" and x.get("op") == "=" and x.get("obj"):
            f = first_field(fn.access_path(x["obj"]))
            if f:
                out.setdefault(f, ("assign", x["l"]))
        elif k == "mcall" and x.get("obj") and x.get("cn") in RESET_METHODS:
            f = first_field(fn.access_path(x["obj"]))
            if f:
                out.setdefault(f, (x["cn"] + "()", x["l"]))
        elif k in ("call", "mcall") and RESET_CALLEE_RE.search(x.get("cn", "")):
            for a in x.get("args", []):
                f = first_field(fn.access_path(a))
                if f:
                    out.setdefault(f, ("passed to " + x["cn"], x["l"]))
            if x.get("cn") == "memset" and x.get("args"):
                ax = fn.e(fn.strip(x["args"][0]))
                if ax and ax["k"] == "this":
                    out.setdefault("*", ("memset(this)", x["l"]))
    return out


def mutated_fields(fns, cls):
    """Fields of K that some non-constructor function of the unit assigns, updates, or calls a non-const method on."""
    out = {}
    for name, fn in fns.items():
        if fn.raw.get("cls") == cls and name.split("::")[-1] in (cls.split("::")[-1], "~" + cls.split("::")[-1]):
            continue
        roots = object_roots(fn, cls)
        if not roots:
            continue

        def first_field(path):
            if not path:
                return None
            parts = path.split(".")
            if parts[0] in roots and len(parts) >= 2:
                return parts[1].replace("[]", "")
            return None
        for i, x in fn.ex.items():
            k = x["k"]
            f = None
            if k == "binop" and x["op"].endswith("=") and x["op"] not in ("==", "!=", "<=", ">="):
                f = first_field(fn.access_path(x["lhs"]))
            elif k == "unop" and x["op"] in ("++", "--"):
                f = first_field(fn.access_path(x["sub"]))
            elif k in ("mcall", "opcall") and x.get("obj") and not x.get("mconst") and not x.get("mstatic"):
                f = first_field(fn.access_path(x["obj"]))
            if f:
                out.setdefault(f, (name, x["l"]))
    return out


def run(chk, config, rule="R-RESET-COVERS"):
    chk.rule(rule, "each arena-backed container / pointer member of a class is reset in the closure of each reset entry point "
                   "(reset()/clear()/fill()/for_each()/assignment), or is exempt with a reason")
    nclasses = 0
    for ent in config["classes"]:
        cls = ent["class"]
        unit = ent["unit"]
        f = chk.facts(unit, funcs=ent["funcs"], records="^" + re.escape(cls) + "$")
        rec = f["records"].get(cls)
        chk.need(rec is not None, "class %s not found in %s" % (cls, unit))
        fns = {}
        for fo in f["functions"]:
            fn = cfg.Fn(fo)
            fns.setdefault(fn.name, fn)
        nclasses += 1
        exempt = ent.get("exempt", {})
        mutated = mutated_fields(fns, cls) if ent.get("all_mutated_fields") else {}
        for root in ent["roots"]:
            rq = root if root.startswith("asmjit::") else "asmjit::" + root
            chk.need(rq in fns, "reset entry point %s not found in %s" % (root, unit))
            names = closure(fns, rq)
            if ent.get("closure_functions"):
                names = [("asmjit::" + n) for n in ent["closure_functions"]]
                for n in names:
                    chk.need(n in fns, "closure function %s not found in %s" % (n, unit))
            covered = {}
            elems = {}
            for n in names:
                for fld, how in fields_reset_in(fns[n], cls).items():
                    if fld.startswith("elems:"):
                        elems.setdefault(fld[6:], set()).update(how)
                        continue
                    covered.setdefault(fld, (how[0], n, how[1]))
                    if how[0] != "assign":
                        elems.setdefault(fld, set()).add("*")
            nreq = 0
            for fld in rec["fields"]:
                why = needs_reset(fld, ent.get("composite_types", []))
                if ent.get("all_mutated_fields") and not why and fld["name"] in mutated:
                    why = "mutated (by %s)" % mutated[fld["name"]][0].replace("asmjit::", "")
                if "only_fields" in ent:
                    why = "pointer" if fld["name"] in ent["only_fields"] else None
                if ent.get("all_fields") and not why:
                    why = "state"
                if not why:
                    continue
                nreq += 1
                inst = "%s|%s|%s" % (cls.replace("asmjit::", ""), root.split("::")[-1], fld["name"])
                am = re.search(r"\[(\d+)\]\s*$", fld["ty"])
                part = None
                if am and fld["name"] in covered and "*" not in covered:
                    got = elems.get(fld["name"], {"*"})
                    if "*" not in got and not set(range(int(am.group(1)))) <= got:
                        part = sorted(set(range(int(am.group(1)))) - got)
                if part is not None:
                    chk.ob(rule, inst, False, loc="%s:%d" % (fns[rq].file.replace("/repo/", ""), fns[rq].line),
                           detail="array member `%s` (%s): the closure of %s resets only some elements, element(s) %s keep their old value" % (
                               fld["name"], fld["ty"], root, part), key="resetcovers|" + inst + "|elements")
                elif fld["name"] in covered or "*" in covered:
                    chk.ob(rule, inst, True, loc="%s:%d" % (unit, fld["line"]))
                elif fld["name"] in exempt or (root.split("::")[-1] + "|" + fld["name"]) in exempt:
                    why_ex = exempt.get(fld["name"]) or exempt[root.split("::")[-1] + "|" + fld["name"]]
                    chk.ob(rule, inst, True, loc="%s:%d" % (unit, fld["line"]), detail="exempt: " + why_ex)
                else:
                    chk.ob(rule, inst, False, loc="%s:%d" % (fns[rq].file.replace("/repo/", ""), fns[rq].line),
                           detail="%s member `%s` (%s) is not reset in the closure of %s {%s}" % (
                               why, fld["name"], fld["ty"], root, ", ".join(n.replace("asmjit::", "") for n in names)),
                           key="resetcovers|" + inst)
            chk.need(nreq >= ent.get("min_fields", 1), "class %s: only %d members need reset, expected >= %d" % (cls, nreq, ent.get("min_fields", 1)))
    chk.floor(rule + ":classes", nclasses, len(config["classes"]))


def run_embedded(chk, config, rule="R-RESET-COVERS"):
    """embedded objects (CodeHolder::_text_section): every field of the embedded record is re-initialised in the closure of each entry point"""
    n = 0
    for ent in config["classes"]:
        for member, spec in (ent.get("embedded_complete") or {}).items():
            cls, unit, ecls = ent["class"], ent["unit"], spec["class"]
            f = chk.facts(unit, funcs=ent["funcs"] + "|" + re.escape(ecls) + r"::[a-z_0-9]+$",
                          records="^(" + re.escape(ecls) + "|" + "|".join(re.escape(b) for b in spec.get("bases", [])) + ")$" if spec.get("bases") else "^" + re.escape(ecls) + "$")
            fields = []
            for rn, rec in f["records"].items():
                fields += [x["name"] for x in rec["fields"]]
            chk.need(len(fields) >= 4, "record %s not found" % ecls)
            fns = {}
            byname = {}
            for fo in f["functions"]:
                g = cfg.Fn(fo)
                fns.setdefault(g.name, g)
                byname.setdefault(g.name, []).append(g)

            def written_through(g, root_did=None, this=False, depth=0):
                """fields of the embedded record that g writes through its parameter root_did (or through `this`)"""
                out = set()
                for i, x in g.ex.items():
                    tgt = None
                    if x["k"] == "binop" and x["op"].endswith("=") and x["op"] not in ("==", "!=", "<=", ">="):
                        tgt = x["lhs"]
                    elif x["k"] == "unop" and x["op"] in ("++", "--"):
                        tgt = x["sub"]
                    if tgt is not None:
                        r = g.root_ref(tgt)
                        rx = g.e(r) if r is not None else None
                        if rx is not None and ((this and rx["k"] == "this") or (root_did is not None and rx.get("did") == root_did)):
                            p = g.access_path(tgt) or ""
                            parts = p.split(".")
                            if len(parts) >= 2:
                                out.add(parts[1].replace("[]", ""))
                    if x["k"] in ("mcall",) and x.get("obj") and not x.get("mconst") and depth < 2:
                        r = g.root_ref(x["obj"])
                        rx = g.e(r) if r is not None else None
                        o = g.e(g.strip(x["obj"]))
                        if rx is not None and o is not None and o["k"] in ("ref", "this", "unop") and ((this and rx["k"] == "this") or (root_did is not None and rx.get("did") == root_did)):
                            for h in byname.get(x.get("callee") or "", []):
                                out |= written_through(h, None, True, depth + 1)
                return out
            for root in spec.get("roots", ent["roots"]):
                rq = root if root.startswith("asmjit::") else "asmjit::" + root
                chk.need(rq in byname, "entry point %s not found in %s" % (root, unit))
                # closure over all overloads of each name (init(env, base) forwards to init(env, features, base))
                seen_n, work, glist = set(), [rq], []
                while work:
                    nm_ = work.pop()
                    if nm_ in seen_n or nm_ not in byname:
                        continue
                    seen_n.add(nm_)
                    for g_ in byname[nm_]:
                        glist.append(g_)
                        dead = _failure_only_blocks(g_)
                        blk_ = g_.block_of()
                        for ci, cx in g_.calls():
                            if cx.get("callee") in byname and cx["callee"] not in seen_n:
                                j_ = ci
                                pm_ = g_.parent_map()
                                while j_ not in blk_ and j_ in pm_:
                                    j_ = pm_[j_]
                                if j_ in blk_ and blk_[j_][0] in dead:
                                    continue
                                work.append(cx["callee"])
                got = set()
                for g in glist:
                    # aliases of the embedded member in g: `&self->_text_section`, a local bound to it
                    alias_dids = set()
                    for i, x in g.ex.items():
                        if x["k"] == "decl":
                            for v in x["vars"]:
                                if v.get("init") and re.sub(r"\s+", "", g.text(v["init"])).endswith("->" + member) or (v.get("init") and re.sub(r"\s+", "", g.text(v["init"])) in ("&" + member, "&this->" + member)):
                                    alias_dids.add(v["did"])
                    for i, x in g.ex.items():
                        tgt = None
                        if x["k"] == "binop" and x["op"].endswith("=") and x["op"] not in ("==", "!=", "<=", ">="):
                            tgt = x["lhs"]
                        if tgt is not None:
                            p = g.access_path(tgt) or ""
                            parts = p.split(".")
                            if member in parts and parts.index(member) + 1 < len(parts):
                                got.add(parts[parts.index(member) + 1].replace("[]", ""))
                            r = g.root_ref(tgt)
                            rx = g.e(r) if r is not None else None
                            if rx is not None and rx.get("did") in alias_dids and len(parts) >= 2:
                                got.add(parts[1].replace("[]", ""))
                        if x["k"] in ("call", "mcall") and x.get("args"):
                            for ai, a in enumerate(x["args"]):
                                at = re.sub(r"\s+", "", g.text(a))
                                ar = g.e(g.strip(a))
                                is_alias = at.endswith("->" + member) or at in ("&" + member, "&this->" + member) or (ar is not None and ar["k"] == "ref" and ar.get("did") in alias_dids)
                                if not is_alias:
                                    continue
                                for h in byname.get(x.get("callee") or "", []):
                                    if ai < len(h.params):
                                        got |= written_through(h, h.params[ai]["did"])
                for fld in fields:
                    n += 1
                    inst = "%s|%s|%s.%s" % (cls.replace("asmjit::", ""), root.split("::")[-1], member, fld)
                    ex = spec.get("exempt", {}).get(fld)
                    chk.ob(rule, inst, fld in got or ex is not None, loc="%s:%d" % (unit, byname[rq][0].line),
                           detail=("exempt: " + ex) if ex else "field `%s` of the embedded %s `%s` is not re-initialised in the closure of %s: values of the previous "
                                  "program (flattened offset, virtual size, alignment, flags) survive" % (fld, ecls.replace("asmjit::", ""), member, root),
                           key="resetcovers|" + inst)
    return n
