"""R-LOG-ONLY-COMMITTED (C20, C14): the logger is a transcript of what was appended - a call that is refused logs nothing.

In the BaseAssembler interface functions (and the architecture assemblers' align()) a line written to the logger (`_logger->log` /
`logf`, EmitterUtils::log_label_bound) must not be followed, on any path, by a failing return (`report_error(...)`, a raw
`make_error(...)`, or a propagated failure): everything that can refuse the call runs before the text is produced.
(log_instruction_failed() - the line that *describes* a refusal - is not a transcript line.)"""
from . import cfg
from .cfg import forward

UNITS = [("asmjit/core/assembler.cpp", r"asmjit::BaseAssembler::[A-Za-z_0-9]+$"),
         ("asmjit/x86/x86assembler.cpp", r"asmjit::x86::Assembler::align$"),
         ("asmjit/arm/a64assembler.cpp", r"asmjit::a64::Assembler::align$")]
LOG_CALLS = ("log", "logf", "log_label_bound", "log_instruction_emitted")


def run(chk, rule="R-LOG-ONLY-COMMITTED", floor=6):
    chk.rule(rule, "BaseAssembler interface functions (bind, embed*, align, comment ...): no path writes a transcript line to the logger "
                   "(_logger->log / logf, log_label_bound) and afterwards leaves through report_error(...) / make_error(...) / a propagated "
                   "failure: a refused call appends nothing and therefore logs nothing")
    n = 0
    for unit, pat in UNITS:
        f = chk.facts(unit, funcs=pat)
        for fn in cfg.load_functions(f):
            if not fn.file.endswith(unit.split("/")[-1]) or "Error" not in (fn.raw.get("ret") or ""):
                continue
            logs = {i for i, x in fn.calls(lambda x: x.get("cn") in LOG_CALLS and (x["k"] == "call" or "Logger" in (x.get("callee") or "") or "logger" in fn.text(x.get("obj") or 0).lower()))}
            if not logs:
                continue
            short = fn.name.replace("asmjit::", "")

            def transfer(b, st, fn=fn, logs=logs):
                for el in fn.blocks[b]["elems"]:
                    if isinstance(el, int) and el in logs:
                        st = el
                return st
            IN, OUT = forward(fn, 0, transfer, lambda ss: max(ss))
            for lg in sorted(logs):
                n += 1
            bad = None
            for b, idx, r in fn.return_sites():
                st = IN.get(b, 0)
                for el in fn.blocks[b]["elems"][:idx]:
                    if isinstance(el, int) and el in logs:
                        st = el
                if not st:
                    continue
                val = fn.e(r).get("val")
                v = fn.e(fn.strip(val)) if val is not None else None
                if v is None or v.get("cvn") == "kOk":
                    continue
                # `return err;` of a local that is known kOk here is not decided by this rule: only explicit failures
                if v["k"] in ("call", "mcall") and v.get("cn") in ("report_error", "make_error"):
                    bad = (r, st)
                elif (fn.e(r).get("m") or "") == "ASMJIT_PROPAGATE" or "ASMJIT_PROPAGATE" in (v.get("m") or ""):
                    bad = (r, st)
            chk.ob(rule, short, bad is None, loc=fn.loc(bad[0]) if bad else "%s:%d" % (unit, fn.line),
                   detail="%s can fail with `%s` (line %s) after `%s` (line %s) already wrote the line to the logger: the log shows data / a label "
                          "that was never appended" % (short, " ".join(fn.text(bad[0]).split())[:50] if bad else "", fn.line_of(bad[0]) if bad else "",
                                                       " ".join(fn.text(bad[1]).split())[:40] if bad else "", fn.line_of(bad[1]) if bad else ""),
                   key="logorder|%s" % short)
    chk.floor(rule + ":log-sites", n, floor)
    return n
