"""R-SPAN-BLOCK-LOOKED-UP (C09): a block pointer that comes from a caller's Span is never dereferenced before the allocator found the
same block in its own address tree.

"Foreign pointers are rejected": release() and query() take a raw pointer and look the block up with impl->tree.get().  A Span also
carries `_block` - a copy of the block pointer made when the span was handed out.  The span may belong to another allocator or
outlive its block, so a function that reads `span._block` may only compare it; a dereference (member access, method call) of a value
that derives from `_block` is allowed only where the value was shown equal to a pointer returned by tree.get() in the same function."""
from . import cfg
from .must import Must


def run(chk, unit="asmjit/core/jitallocator.cpp", rule="R-SPAN-BLOCK-LOOKED-UP"):
    chk.rule(rule, "jitallocator.cpp: in every function that reads Span::_block, each dereference of a pointer derived from it is dominated by "
                   "the edge on which it compared equal to the result of impl->tree.get(): shrink() / write() reject a span of another "
                   "allocator or a stale span instead of editing a block they do not own")
    f = chk.facts(unit, funcs=r"asmjit::JitAllocator[A-Za-z_0-9:]*$")
    nread = nfn = 0
    for fn in cfg.load_functions(f):
        if not fn.file.endswith(unit.split("/")[-1]):
            continue
        lhs = {fn.strip(x["lhs"]) for x in fn.ex.values() if x["k"] == "binop" and x["op"] == "="}
        reads = [i for i, x in fn.ex.items() if x["k"] == "member" and x.get("field") == "_block" and i not in lhs]
        if not reads:
            continue
        nfn += 1
        nread += len(reads)
        rs = set(reads)

        def derives(e, depth=0):
            if e is None or depth > 12:
                return False
            if e in rs:
                return True
            x = fn.e(e)
            if x is None:
                return False
            if x["k"] in ("cast", "paren", "fcast"):
                return derives(x.get("sub"), depth + 1)
            if x["k"] == "ref" and x.get("did") in tainted:
                return True
            return False
        tainted, looked = set(), set()
        for _ in range(3):
            for x in fn.ex.values():
                if x["k"] == "decl":
                    for v in x["vars"]:
                        if v.get("init") is None:
                            continue
                        if derives(v["init"]):
                            tainted.add(v["did"])
                        y = fn.e(fn.strip(v["init"]))
                        if y is not None and y["k"] == "mcall" and y.get("cn") == "get" and "tree" in fn.text(y["obj"]):
                            looked.add(v["did"])
                if x["k"] == "binop" and x["op"] == "=" and derives(x["rhs"]):
                    l = fn.e(fn.strip(x["lhs"]))
                    if l is not None and l["k"] == "ref" and l.get("dk") == "local":
                        tainted.add(l["did"])

        def is_looked(e):
            x = fn.e(fn.strip(e))
            return x is not None and (x["k"] == "ref" and x.get("did") in looked or x["k"] == "mcall" and x.get("cn") == "get" and "tree" in fn.text(x["obj"]))

        def edge(b, si, atom, holds):
            x = fn.e(fn.strip(atom))
            if x is not None and x["k"] == "binop" and x["op"] in ("==", "!=") and holds == (x["op"] == "=="):
                for p, q in ((x["lhs"], x["rhs"]), (x["rhs"], x["lhs"])):
                    if derives(fn.strip(p)) and is_looked(q):
                        return [("same",)]
            return ()
        m = Must(fn, None, edge)
        par = fn.parent_map()
        derefs = []
        for i, x in fn.ex.items():
            base = x.get("base") if x["k"] == "member" else x.get("obj") if x["k"] == "mcall" else None
            if base is None or i in rs:
                continue
            if x["k"] == "member" and x.get("field") == "_block":
                continue
            if derives(fn.strip(base)) and (x.get("arrow") or x["k"] == "mcall" or True):
                # a member of the Span object itself (`span._block`) is not a dereference of the block; `base` derives only when it IS the
                # _block value (possibly cast) or a local copy of it
                derefs.append(i)
        bad = None
        for i in sorted(derefs, key=fn.line_of):
            st = m.before(i)
            j = i
            while st is None and j in par:
                j = par[j]
                st = m.before(j)
            if ("same",) not in (st or frozenset()):
                bad = i
                break
        short = fn.name.replace("asmjit::", "")
        chk.ob(rule, "%s|%d reads, %d derefs" % (short, len(reads), len(derefs)), bad is None, loc=fn.loc(bad) if bad is not None else "%s:%d" % (unit, fn.line),
               detail="%s dereferences a block pointer taken from the caller's Span (`%s`) without having found that block in impl->tree: a span "
                      "of another allocator or a stale span is not rejected but its block's bookkeeping is read and edited" %
                      (short, " ".join(fn.text(bad).split())[:60] if bad is not None else ""), key="spanblock|%s" % short)
    chk.floor(rule + ":functions", nfn, 3)
    chk.floor(rule + ":reads", nread, 3)
    return nfn
