"""Relocation rules added after the second round of seeded changes (C03 / C04).

R-RELOC-TARGET-PAIR   when a relocation's payload takes a label's offset (`re->_payload (+)= L->offset()`), the entry's
                      target section is that same label's section (`re->_target_section_id = L->section_id()`) on every
                      path from the payload assignment to the next emission / exit.
R-RELOC-PAYLOAD-LIVE  a value assigned to a relocation entry's payload is not overwritten by a plain `=` before it is read
                      (the user's displacement is stored first and then *added to*).
R-RELOC-SRC-ADDRESS   in relocate_to_base every additive expression that contains the patched region's size (the address
                      right after the patched field) also contains the source section's offset and the entry's source
                      offset: a pc-relative base is section offset + offset in section + region size.
"""
import re
from .cfg import forward
from .must import Must


def _label_obj(fn, eid, method):
    """if eid's subtree contains `X->method()` with X a LabelEntry, return X's access path"""
    for j in fn.walk(eid):
        x = fn.e(j)
        if x["k"] == "mcall" and x.get("cn") == method and x.get("obj") and "LabelEntry" in (x.get("cls") or ""):
            return fn.access_path(x["obj"])
    return None


def _is_entry_field(fn, lhs, field):
    p = fn.access_path(lhs) or ""
    return p.endswith("." + field) and not p.startswith("this")


def target_pair(chk, fns, floor=1):
    R = "R-RELOC-TARGET-PAIR"
    chk.rule(R, "when a relocation entry's payload takes a label's offset, its target section id is taken from the same label on every path "
                "to the next emission or exit (offset and section of a relocation target come from one label entry)")
    n = 0
    for fn in fns:
        pays = []
        for i, x in fn.ex.items():
            if x["k"] == "binop" and x["op"] in ("=", "+=") and _is_entry_field(fn, x["lhs"], "_payload"):
                L = _label_obj(fn, x["rhs"], "offset")
                if L:
                    pays.append((i, L))
        if not pays:
            continue

        def elem_fx(eid, x, fn=fn):
            if x["k"] == "binop" and x["op"] == "=" and _is_entry_field(fn, x["lhs"], "_target_section_id"):
                L = _label_obj(fn, x["rhs"], "section_id")
                kills = tuple(("tgt", q) for q in {p for _, p in pays} if q != L)
                return ((("tgt", L),) if L else (), kills)
            if x["k"] in ("call", "mcall") and x.get("cn") == "new_reloc_entry":
                return ((), tuple(("tgt", q) for q in {p for _, p in pays}))
            return None
        m = Must(fn, elem_fx, None)
        for i, L in pays:
            n += 1
            # either the target section was taken from L on every path to this point, or it is on every path from here to
            # the next emission / exit; an assignment from anything else in between is a mismatch
            have = ("tgt", L) in (m.before(i) or frozenset())
            pos = fn.block_of().get(i)
            bad = None
            if pos:
                seen = set()
                work = [(pos[0], pos[1] + 1)]
                while work and bad is None:
                    b, k = work.pop()
                    stop = False
                    for el in fn.blocks[b]["elems"][k:]:
                        if not isinstance(el, int):
                            continue
                        x = fn.e(el)
                        if x["k"] == "binop" and x["op"] == "=" and _is_entry_field(fn, x["lhs"], "_target_section_id"):
                            if _label_obj(fn, x["rhs"], "section_id") != L:
                                bad = el
                            stop = True
                            break
                        if (x["k"] == "mcall" and x.get("cn", "").startswith("emit")) or x["k"] == "return":
                            if not have:
                                bad = el
                            stop = True
                            break
                    if stop:
                        continue
                    for s_ in fn.blocks[b]["succs"]:
                        if s_ is not None and s_ not in seen:
                            seen.add(s_)
                            work.append((s_, 0))
            chk.ob(R, "%s|payload<-%s.offset()" % (fn.name.replace("asmjit::", ""), L), bad is None, loc=fn.loc(i),
                   detail="the payload takes `%s->offset()` here but on a path to line %d `_target_section_id` is not `%s->section_id()`: "
                          "the relocation resolves against another section's base" % (L, fn.line_of(bad) if bad else 0, L),
                   key="relocpair|%s|%s" % (fn.name.replace("asmjit::", ""), L))
    chk.floor(R + ":payload-sites", n, floor)


def payload_live(chk, fns, floor=3):
    R = "R-RELOC-PAYLOAD-LIVE"
    chk.rule(R, "a value stored in a relocation entry's payload is read (`+=`, or any use) before a plain assignment overwrites it: the "
                "displacement stored first is never lost on a path")
    n = 0
    for fn in fns:
        stores = [i for i, x in fn.ex.items() if x["k"] == "binop" and x["op"] == "=" and _is_entry_field(fn, x["lhs"], "_payload")]
        if not stores:
            continue
        lhs_of = {fn.strip(fn.e(i)["lhs"]) for i in stores}

        def kind(el, fn=fn):
            x = fn.e(el)
            if not x:
                return None
            if x["k"] == "binop" and x["op"] == "=" and _is_entry_field(fn, x["lhs"], "_payload"):
                return "store"
            if x["k"] == "binop" and x["op"].endswith("=") and x["op"] not in ("==", "!=", "<=", ">=") and _is_entry_field(fn, x["lhs"], "_payload"):
                return "read"
            if x["k"] == "member" and x.get("field") == "_payload" and el not in lhs_of:
                return "read"
            if x["k"] in ("call", "mcall") and x.get("cn") in ("new_reloc_entry", "new_fixup"):
                return "read"       # another entry / the fixup takes over
            return None
        for s in stores:
            n += 1

            def transfer(b, st, fn=fn, s=s, kind=kind):
                for el in fn.blocks[b]["elems"]:
                    if not isinstance(el, int):
                        continue
                    if el == s:
                        st = "pending"
                        continue
                    k = kind(el)
                    if st == "pending" and k == "store":
                        return "dead:%d" % el
                    if st == "pending" and k == "read":
                        st = None
                    if isinstance(st, str) and st.startswith("dead"):
                        return st
                return st

            def join(states):
                for t in states:
                    if isinstance(t, str) and t.startswith("dead"):
                        return t
                return "pending" if "pending" in states else None
            IN, OUT = forward(fn, None, transfer, join)
            dead = [v for v in OUT.values() if isinstance(v, str) and v.startswith("dead")]
            at = int(dead[0].split(":")[1]) if dead else None
            chk.ob(R, "%s|%s" % (fn.name.replace("asmjit::", ""), re.sub(r"\s+", " ", fn.text(s))[:50]), not dead, loc=fn.loc(s),
                   detail="the payload stored here is overwritten at line %d by a plain assignment on a path where it was never read: the "
                          "first value (the user's displacement) is lost" % (fn.line_of(at) if at else 0),
                   key="relocdead|%s|%s" % (fn.name.replace("asmjit::", ""), re.sub(r"\s+", "", fn.text(s))[:50]))
    chk.floor(R + ":payload-stores", n, floor)


def src_address(chk, rb, floor=2):
    R = "R-RELOC-SRC-ADDRESS"
    chk.rule(R, "in relocate_to_base every sum that contains the size of the patched region (the address right after the patched field) also "
                "contains the source section's offset and the entry's source offset")
    # local aliases: variables initialised from source_section->offset() / re->source_offset() / re->format().region_size()
    alias = {}
    for x in rb.ex.values():
        if x["k"] == "decl":
            for v in x["vars"]:
                if not v.get("init"):
                    continue
                t = re.sub(r"\s+", "", rb.text(v["init"]))
                if re.search(r"section->offset\(\)$|section\(\)->offset\(\)$", t) and "target" not in t and "address_table" not in t:
                    alias[v["did"]] = "section_offset"
                elif re.search(r"source_offset\(\)\)?$", t):
                    alias[v["did"]] = "source_offset"
                elif "region_size()" in t:
                    alias[v["did"]] = "region_size"

    def terms(eid, acc):
        x = rb.e(eid)
        while x and x["k"] in ("paren", "cast"):
            eid = x["sub"]
            x = rb.e(eid)
        if x and x["k"] == "binop" and x["op"] in ("+", "-"):
            terms(x["lhs"], acc)
            terms(x["rhs"], acc)
            return
        if not x:
            return
        if x["k"] == "ref" and x.get("did") in alias:
            acc.add(alias[x["did"]])
        else:
            t = re.sub(r"\s+", "", rb.text(eid))
            if re.search(r"source_offset\(\)$", t):
                acc.add("source_offset")
            elif "region_size()" in t:
                acc.add("region_size")
            elif re.search(r"source_section->offset\(\)$", t):
                acc.add("section_offset")
    par = rb.parent_map()
    n = 0
    for i, x in sorted(rb.ex.items()):
        if not (x["k"] == "binop" and x["op"] in ("+", "-")):
            continue
        p = par.get(i)
        px = rb.e(p) if p is not None else None
        while px and px["k"] in ("paren", "cast"):
            p = par.get(p)
            px = rb.e(p) if p is not None else None
        if px and px["k"] == "binop" and px["op"] in ("+", "-"):
            continue            # not a maximal sum
        acc = set()
        terms(i, acc)
        if "region_size" not in acc:
            continue
        n += 1
        miss = {"section_offset", "source_offset"} - acc
        chk.ob(R, "relocate_to_base|sum#%d" % n, not miss, loc=rb.loc(i),
               detail="`%s` is the address after the patched field but lacks %s: wrong whenever the source section does not start at offset 0" % (
                   re.sub(r"\s+", " ", rb.text(i))[:80], sorted(miss)),
               key="relocsrc|sum#%d" % n)
    chk.floor(R + ":sums", n, floor)


def bound_unbound(chk, fns, floor=1):
    """R-BOUND-UNBOUND-AGREE: the two ways of referencing a label agree on the addend."""
    R = "R-BOUND-UNBOUND-AGREE"
    chk.rule(R, "where a label reference branches on is_bound / is_bound_to: every variable that the not-yet-bound side hands to new_fixup() as "
                "the addend also takes part in the displacement the bound side computes (both sides describe the same target + addend)")
    from .must import branch_atoms
    n = 0
    for fn in fns:
        atoms = branch_atoms(fn)
        for b, (atom, pol) in sorted(atoms.items()):
            ax = fn.e(atom)
            if not (ax and ax["k"] == "mcall" and ax.get("cn") in ("is_bound", "is_bound_to")):
                continue
            succs = fn.blocks[b]["succs"]
            if len(succs) != 2 or None in succs:
                continue
            bound_b, unbound_b = (succs[0], succs[1]) if pol else (succs[1], succs[0])

            def region(b0):
                """elements of the straight-line region starting at b0 (single-successor chain, stops at joins with other predecessors)"""
                out, seen, cur = [], set(), b0
                while cur is not None and cur not in seen and len(out) < 400:
                    seen.add(cur)
                    out += [el for el in fn.blocks[cur]["elems"] if isinstance(el, int)]
                    ss = [s for s in fn.blocks[cur]["succs"] if s is not None]
                    if len(ss) != 1 or len(fn.preds.get(ss[0], [])) != 1:
                        break
                    cur = ss[0]
                return out
            un = region(unbound_b)
            bo = region(bound_b)
            adds = set()
            names = {}
            for el in un:
                x = fn.e(el)
                if x["k"] in ("call", "mcall") and x.get("cn") == "new_fixup" and len(x.get("args", [])) >= 4:
                    for j in fn.walk(x["args"][3]):
                        y = fn.e(j)
                        if y["k"] == "ref" and y.get("dk") in ("local", "parm") and "did" in y:
                            adds.add(y["did"])
                            names[y["did"]] = y["name"]
            if not adds:
                continue
            used = set()
            for el in bo:
                for j in fn.walk(el):
                    y = fn.e(j)
                    if y and y["k"] == "ref" and "did" in y:
                        used.add(y["did"])
            n += 1
            miss = sorted(names[d] for d in adds - used)
            chk.ob(R, "%s|%s" % (fn.name.replace("asmjit::", ""), " ".join(fn.text(atom).split())[:40]), not miss, loc=fn.loc(atom),
                   detail="the unbound side passes %s to new_fixup() as the addend but the bound side never uses it: the same operand resolves to "
                          "different addresses depending on whether the label was bound before or after the reference" % miss,
                   key="boundunbound|%s" % fn.name.replace("asmjit::", ""))
    chk.floor(R + ":sites", n, floor)


def target_section_used(chk, rb):
    """R-RELOC-TARGET-SECTION: a case of relocate_to_base that needs the target section adds that section's offset"""
    R = "R-RELOC-TARGET-SECTION"
    chk.rule(R, "relocate_to_base: in every case of the RelocType switch that tests `target_section` for null, the relocated value is computed "
                "from `target_section->offset()` (the case converts an offset inside the target's section into an address): the section the "
                "reference sits in is not the section it points to")
    sw = [x for x in rb.ex.values() if x["k"] == "s:SwitchStmt" and "reloc_type" in rb.text(x.get("cond", 0))]
    chk.need(len(sw) == 1, "relocate_to_base: RelocType switch not found")
    cases = sorted(sw[0]["cases"], key=lambda c: c.get("l", 0))
    n = 0
    for k, c in enumerate(cases):
        lo = c.get("l", 0)
        hi = cases[k + 1].get("l", 10 ** 9) if k + 1 < len(cases) else 10 ** 9
        tests = [i for i, x in rb.ex.items() if lo <= x.get("l", 0) < hi and x["k"] == "unop" and x["op"] == "!" and "target_section" in rb.text(x["sub"])]
        if not tests:
            continue
        n += 1
        uses = [i for i, x in rb.ex.items() if lo <= x.get("l", 0) < hi and x["k"] == "mcall" and x.get("cn") == "offset" and "target_section" in rb.text(x.get("obj", 0))]
        chk.ob(R, "relocate_to_base|case %s" % c.get("n"), bool(uses), loc=rb.loc(tests[0]),
               detail="case %s checks target_section but never adds target_section->offset(): the value is relocated against another section" % c.get("n"),
               key="reloctarget|%s" % c.get("n"))
    chk.floor(R + ":cases", n, 1)


def bind_label_sections(chk, bl):
    """R-BIND-TARGET-SECTION: the section recorded in a relocation resolved by bind_label is the label's section"""
    R = "R-BIND-TARGET-SECTION"
    chk.rule(R, "bind_label: the value stored in a relocation entry's `_target_section_id` while fix-ups are resolved is the same variable that "
                "is stored as the label's own section id in that function (a label reference targets the section the label was bound in)")
    lab, tgt = [], []
    for i, x in bl.ex.items():
        if x["k"] == "binop" and x["op"] == "=":
            p = bl.access_path(x["lhs"]) or ""
            r = bl.e(bl.strip(x["rhs"]))
            if r is None or r["k"] != "ref" or "did" not in r:
                continue
            if p.endswith("._target_section_id"):
                tgt.append((i, r["did"], r.get("name")))
            elif p.endswith("._section_id") and "re." not in p:
                lab.append((i, r["did"], r.get("name")))
    chk.need(len(lab) >= 1 and len(tgt) >= 1, "bind_label: section-id assignments not found (%d label, %d relocation)" % (len(lab), len(tgt)))
    labd = {d for _, d, _ in lab}
    for k, (i, d, nm) in enumerate(tgt):
        chk.ob(R, "bind_label|_target_section_id#%d" % k, d in labd, loc=bl.loc(i),
               detail="`_target_section_id = %s` but the label's section is %s" % (nm, sorted({n_ for _, _, n_ in lab})), key="bindtarget|%d" % k)


def _sets_size_always(g, pidx):
    """does the unit helper g assign `<param pidx>->_buffer._size` on every path from its entry to its exit?"""
    import re
    if pidx >= len(g.params) or g.entry is None:
        return False
    pn = g.params[pidx]["name"]
    blk = g.block_of()
    sets = {blk[i][0] for i, x in g.ex.items() if x["k"] == "binop" and x["op"] == "=" and i in blk and
            re.sub(r"\s+", "", g.text(x["lhs"])) == pn + "->_buffer._size"}
    if not sets:
        return False
    if g.entry in sets:
        return True
    reach = g.reachable_from(g.entry, avoid=sets)
    exits = {b["id"] for b in g.blocks.values() if not [s_ for s_ in b["succs"] if s_ is not None]}
    return not (reach & exits)


def written_buffer_sized(chk, rb, unit_fns=()):
    """R-WRITTEN-BUFFER-SIZED: bytes stored into capacity that was only reserved become part of the section through `_size` alone"""
    import re
    from .must import branch_atoms
    R = "R-WRITTEN-BUFFER-SIZED"
    chk.rule(R, "relocate_to_base: when a section's buffer is grown with reserve_buffer() (capacity only) and bytes are stored through a pointer "
                "taken from that buffer, every path from such a store to a successful return assigns the buffer's `_size`; buffer_size() is what "
                "copy_section_data / copy_flattened_data copy, so a store without it is lost (paths on which the section pointer is null are "
                "excluded: no store can have happened on them)")
    fn = rb
    nows = lambda e: re.sub(r"\s+", "", fn.text(e))
    # sections whose buffer is reserved: reserve_buffer(&P->_buffer, n)
    reserved = {}
    for i, x in fn.calls(lambda x: x.get("cn") == "reserve_buffer" and x.get("args")):
        m = re.match(r"&(.+)->_buffer$", nows(x["args"][0]))
        if m:
            reserved[m.group(1)] = i
    chk.need(len(reserved) >= 1, "relocate_to_base no longer reserves a section buffer")
    n_store = 0
    for P in sorted(reserved):
        # pointer locals taken from P's buffer
        ptrs = set()
        for i, x in fn.ex.items():
            if x["k"] == "binop" and x["op"] == "=" and nows(x["rhs"]) in (P + "->_buffer.data()", P + "->data()", P + "->_buffer._data"):
                l = fn.e(fn.strip(x["lhs"]))
                if l and l["k"] == "ref" and "did" in l:
                    ptrs.add(l["did"])
            elif x["k"] == "decl":
                for v in x["vars"]:
                    if v.get("init") and nows(v["init"]) in (P + "->_buffer.data()", P + "->data()", P + "->_buffer._data"):
                        ptrs.add(v["did"])
        blk = fn.block_of()

        def ptr_root(e, depth=0):
            """local the address expression is based on: p, p + i, &p[i], *p, (T*)p"""
            y = fn.e(fn.strip(e))
            if y is None or depth > 8:
                return None
            if y["k"] == "ref":
                return y.get("did")
            if y["k"] == "binop" and y["op"] in ("+", "-"):
                return ptr_root(y["lhs"], depth + 1) or ptr_root(y["rhs"], depth + 1)
            if y["k"] == "unop" and y["op"] in ("*", "&"):
                return ptr_root(y["sub"], depth + 1)
            if y["k"] == "subscript":
                return ptr_root(y.get("base", y.get("lhs")), depth + 1)
            return None
        stores = []
        for i, x in fn.calls(lambda x: x["k"] == "call" and re.match(r"storeu|storea|store_|memcpy|memset|write", x.get("cn") or "") and x.get("args")):
            if ptr_root(x["args"][0]) in ptrs and i in blk:
                stores.append(i)
        for i, x in fn.ex.items():
            if x["k"] == "binop" and x["op"] == "=" and fn.e(fn.strip(x["lhs"]))["k"] in ("subscript", "unop"):
                if ptr_root(x["lhs"]) in ptrs and i in blk:
                    stores.append(i)
        sizes = {}
        for i, x in fn.ex.items():
            if x["k"] == "binop" and x["op"] == "=" and nows(x["lhs"]) == P + "->_buffer._size" and i in blk:
                sizes.setdefault(blk[i][0], []).append(blk[i][1])
        # a unit helper that receives the section and sets its buffer size on all of its paths counts as the assignment
        by_name = {}
        for g in unit_fns:
            by_name.setdefault(g.name, []).append(g)
        for i, x in fn.calls(lambda x: x["k"] == "call" and x.get("args")):
            if i not in blk:
                continue
            for ai, a in enumerate(x["args"]):
                if nows(a) == P and any(len(g.params) == len(x["args"]) and _sets_size_always(g, ai) for g in by_name.get(x.get("callee") or "", [])):
                    sizes.setdefault(blk[i][0], []).append(blk[i][1])
        atoms = branch_atoms(fn)

        def null_edge(b, si):
            """True when edge si of block b is the one on which P is null."""
            if b not in atoms:
                return False
            atom, pol = atoms[b]
            x = fn.e(atom)
            holds = (si == 0) == pol
            t = nows(atom)
            if t == P:
                return not holds
            if x and x["k"] == "binop" and x["op"] in ("!=", "==") and {nows(x["lhs"]), nows(x["rhs"])} == {P, "nullptr"}:
                return (not holds) if x["op"] == "!=" else holds
            return False
        ok_rets = {}
        for b, idx, r in fn.return_sites():
            v = fn.e(fn.strip(fn.e(r).get("val"))) if fn.e(r).get("val") is not None else None
            if v is not None and v.get("cvn") == "kOk":
                ok_rets.setdefault(b, []).append((idx, r))
        for k, s in enumerate(stores):
            n_store += 1
            b0, idx0 = blk[s]
            bad = None
            if not any(j > idx0 for j in sizes.get(b0, [])):
                seen, dq = {b0}, [b0]
                while dq and bad is None:
                    b = dq.pop()
                    if b != b0 or True:
                        for (ri, r) in ok_rets.get(b, []):
                            if b != b0 or ri > idx0:
                                first_size = min(sizes.get(b, [10 ** 9])) if b != b0 else 10 ** 9
                                if first_size > ri:
                                    bad = r
                                    break
                    for si, sc in enumerate(fn.blocks[b]["succs"]):
                        if sc is None or sc in seen or null_edge(b, si):
                            continue
                        if sc in sizes and sc not in ok_rets:
                            continue
                        if sc in sizes and sc in ok_rets and min(sizes[sc]) < min(i_ for i_, _ in ok_rets[sc]):
                            continue
                        seen.add(sc)
                        dq.append(sc)
            chk.ob(R, "relocate_to_base|%s|store#%d" % (P, k), bad is None, loc=fn.loc(s),
                   detail="bytes stored with `%s` into the reserved buffer of `%s` reach `%s` (line %s) on a path that never assigns %s->_buffer._size: "
                          "buffer_size() does not cover them and the flattened copy drops them" %
                          (" ".join(fn.text(s).split())[:60], P, " ".join(fn.text(bad).split())[:30] if bad is not None else "", fn.line_of(bad) if bad is not None else "", P),
                   key="bufsized|%s|%d" % (P, k))
    chk.floor(R + ":stores", n_store, 1)


def source_start(chk, fns, floor=5):
    """R-RELOC-SOURCE-START: a relocation's source offset is the start of the instruction"""
    import re
    from .cfg import forward
    R = "R-RELOC-SOURCE-START"
    chk.rule(R, "every assignment to a relocation entry's `_source_offset` in the emitters takes the emitter's offset() (the committed position = "
                "start of the instruction / data item) or a local that was sampled from the writer before any byte of the instruction could "
                "have been written: the entry's format counts its leading size from the instruction start, so a position sampled after an "
                "optional prefix shifts the patched field")
    n = 0
    for fn in fns:
        sites = []
        for i, x in fn.ex.items():
            if x["k"] == "binop" and x["op"] == "=" and re.sub(r"\s+", "", fn.text(x["lhs"])).endswith("->_source_offset"):
                sites.append((i, x["rhs"]))
        if not sites:
            continue
        emits = {i for i, x in fn.calls(lambda x: x["k"] == "mcall" and re.match(r"emit", x.get("cn") or "") and "riter" in (x.get("cls") or "") + fn.text(x.get("obj", 0)))}

        def transfer(b, st):
            for el in fn.blocks[b]["elems"]:
                if isinstance(el, int) and el in emits:
                    st = True
            return st
        IN, OUT = forward(fn, False, transfer, lambda ss: any(ss))
        blk = fn.block_of()

        def emitted_before(eid):
            j = eid
            par = fn.parent_map()
            while j not in blk and j in par:
                j = par[j]
            if j not in blk:
                return True
            b, idx = blk[j]
            d = IN.get(b, False)
            for el in fn.blocks[b]["elems"][:idx]:
                if isinstance(el, int) and el in emits:
                    d = True
            return d
        defs = {}
        for i, x in fn.ex.items():
            if x["k"] == "decl":
                for v in x["vars"]:
                    if v.get("init"):
                        defs.setdefault(v["did"], []).append((i, v["init"]))
            elif x["k"] == "binop" and x["op"] == "=":
                l = fn.e(fn.strip(x["lhs"]))
                if l is not None and l["k"] == "ref" and l.get("dk") == "local":
                    defs.setdefault(l["did"], []).append((i, x["rhs"]))
        for i, rhs in sorted(sites):
            n += 1
            r = fn.e(fn.strip(rhs))
            ok = False
            why = "an expression that is not the emitter's offset()"
            if r is not None and r["k"] == "mcall" and r.get("cn") == "offset" and (fn.e(fn.strip(r.get("obj"))) or {}).get("k") == "this":
                ok = True
            elif r is not None and r["k"] == "ref" and r.get("did") in defs:
                ds = defs[r["did"]]
                ok = all(re.search(r"offset_from\(|offset\(\)", fn.text(d[1])) and not emitted_before(d[0]) for d in ds)
                why = "`%s`, which is sampled from the writer after bytes of the instruction may already have been emitted" % r.get("name")
            elif r is not None and r.get("cv") == 0:
                ok = True
            short = fn.name.replace("asmjit::", "")
            chk.ob(R, "%s|_source_offset@%d" % (short, n), ok, loc=fn.loc(i),
                   detail="the relocation's source offset is taken from %s: the field that relocate_to_base() patches is shifted" % why,
                   key="relocsrc|%s|%d" % (short, n))
    chk.floor(R + ":assignments", n, floor)


def absolute_location_guard(chk, fns, floor=3):
    """R-ABSOLUTE-LOCATION-GUARD: an address is computed from the base address and the section offset only when BOTH are known"""
    import re
    from .must import Must
    R = "R-ABSOLUTE-LOCATION-GUARD"
    chk.rule(R, "in the emitters every sum that adds the holder's base address and the current section's offset (locals initialised from "
                "base_address() and <section>->offset()) is evaluated only on the true edge of EmitterUtils::is_absolute_location(base, offset): "
                "a section that has not been laid out yet has the offset kNoSectionOffset (all ones), and a base address alone does not make the "
                "location known")
    n = 0
    for fn in fns:
        bases, offs = set(), set()
        for i, x in fn.ex.items():
            if x["k"] == "decl":
                for v in x["vars"]:
                    t = re.sub(r"\s+", "", fn.text(v["init"])) if v.get("init") else ""
                    if t.endswith("base_address()"):
                        bases.add(v["did"])
                    if re.search(r"_section->offset\(\)$", t):
                        offs.add(v["did"])
        if not bases or not offs:
            continue

        def edge(b, si, atom, holds, fn=fn):
            x = fn.e(atom)
            if x is not None and x["k"] in ("call", "mcall") and x.get("cn") == "is_absolute_location" and holds and len(x.get("args", [])) == 2:
                a0, a1 = fn.e(fn.strip(x["args"][0])), fn.e(fn.strip(x["args"][1]))
                if a0 is not None and a1 is not None and a0.get("did") in bases and a1.get("did") in offs:
                    return [("abs",)]
            return ()
        m = Must(fn, None, edge)
        par = fn.parent_map()
        seen = set()
        for i, x in sorted(fn.ex.items()):
            if x["k"] != "binop" or x["op"] not in ("+", "-"):
                continue
            # maximal additive expression
            if i in par and (fn.e(par[i]) or {}).get("k") == "binop" and (fn.e(par[i]) or {}).get("op") in ("+", "-"):
                continue
            dids = {(fn.e(j) or {}).get("did") for j in fn.walk(i) if (fn.e(j) or {}).get("k") == "ref"}
            if not (dids & bases and dids & offs):
                continue
            n += 1
            j = i
            st = m.before(j)
            while st is None and j in par:
                j = par[j]
                st = m.before(j)
            short = fn.name.replace("asmjit::", "")
            chk.ob(R, "%s|sum@%d" % (short, fn.line_of(i)), ("abs",) in (st or frozenset()), loc=fn.loc(i),
                   detail="`%s` adds the base address and the section offset on a path that never established is_absolute_location(): with a section "
                          "that has no offset yet the result is garbage and no relocation is recorded" % " ".join(fn.text(i).split())[:70],
                   key="abslocation|%s|%d" % (short, n))
    chk.floor(R + ":sums", n, floor)
