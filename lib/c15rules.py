"""C15 rules other than R-ERR-USED: R-NULL-TESTED, R-RESERVE-THEN-APPEND, roll-back pairing,
commit-then-fail residue, R-FREE-ESCAPE."""
import re
from concurrent.futures import ThreadPoolExecutor
from . import core, cfg
from .must import Must

ALLOC_RE = (r"asmjit::Arena::(alloc_oneshot|alloc_reusable|alloc_reusable_zeroed|new_oneshot|dup|sformat|_alloc_oneshot|"
            r"_alloc_oneshot_zeroed|_alloc_reusable|_alloc_reusable_zeroed)$|asmjit::ArenaPool<.*>::alloc$|^malloc$|^realloc$|^calloc$|"
            r"asmjit::Arena_malloc$|asmjit::CodeHolder::new_fixup$|asmjit::ConstPool::Tree::new_node_t$|asmjit::ConstPool_allocGap$")
ALLOC_PY = re.compile(ALLOC_RE)
UNCHECKED_RE = r"asmjit::ArenaVector<.*>::(append_unchecked|insert_unchecked|prepend_unchecked)$"
MEMFUNCS = {"memcpy", "memset", "memmove"}
# callees that accept a null pointer argument (everything else is assumed to dereference a pointer it is handed)
NULL_TOLERANT = {"free", "realloc", "Arena_free", "__builtin_expect", "maybe_unused", "Out", "is_aligned", "align_up", "bool_or", "bool_and"}


def short(n):
    return n.replace("asmjit::", "")


def null_atoms(fn, atom, holds):
    """Paths known non-null when `atom` evaluates to `holds`."""
    x = fn.e(atom)
    if not x:
        return []
    if x["k"] in ("ref", "member"):
        p = fn.access_path(atom)
        return [p] if (p and holds) else []
    if x["k"] == "binop" and x["op"] in ("==", "!="):
        l, r = fn.e(fn.strip(x["lhs"])), fn.e(fn.strip(x["rhs"]))
        other = None
        if r and (r["k"] == "null" or (r["k"] == "int" and r.get("cv") == 0)):
            other = x["lhs"]
        elif l and (l["k"] == "null" or (l["k"] == "int" and l.get("cv") == 0)):
            other = x["rhs"]
        if other is not None:
            p = fn.access_path(other)
            if p and ((x["op"] == "!=") == holds):
                return [p]
    if x["k"] in ("call", "mcall") and x.get("cn") == "bool_or" and not holds:
        # !bool_or(!a, !b)  =>  a and b non-null
        out = []
        for a in x.get("args", []):
            from .vbe import cond_atom
            a2, pol = cond_atom(fn, a)
            out += null_atoms(fn, a2, not pol)
        return out
    return []


def binding_of(fn, call_id):
    """Access path the call's result is stored in (decl init or assignment), else None."""
    for i, x in fn.ex.items():
        if x["k"] == "decl":
            for v in x["vars"]:
                if v.get("init") and fn.strip(v["init"]) == call_id:
                    return v["name"], i
        elif x["k"] == "binop" and x["op"] == "=" and fn.strip(x["rhs"]) == call_id:
            p = fn.access_path(x["lhs"])
            if p:
                return p, i
    return None, None


def deref_uses(fn, path):
    """Expression ids that dereference `path`."""
    out = []
    for i, x in fn.ex.items():
        k = x["k"]
        if k == "member" and x.get("arrow") and fn.access_path(x["base"]) == path:
            out.append((i, "->" + x["field"]))
        elif k == "unop" and x["op"] == "*" and fn.access_path(x["sub"]) == path:
            out.append((i, "*"))
        elif k == "subscript" and fn.access_path(x["base"]) == path:
            out.append((i, "[]"))
        elif k == "call" and x.get("cn") in MEMFUNCS and x.get("args") and fn.access_path(x["args"][0]) == path:
            out.append((i, x["cn"] + "(dst)"))
        elif k in ("call", "mcall") and x.get("cn") not in NULL_TOLERANT and any(fn.access_path(a) == path and fn.kind(fn.strip(a)) in ("ref", "member") for a in x.get("args", [])):
            out.append((i, " passed to %s()" % x.get("cn")))
        elif k == "new" and x.get("placement"):
            for pl in x["placement"]:
                for j in fn.walk(pl):
                    if fn.access_path(j) == path and fn.kind(j) in ("ref", "member"):
                        out.append((i, "placement-new"))
                        break
    return out


def rule_null_tested(chk, units):
    R = "R-NULL-TESTED"
    chk.rule(R, "the pointer returned by an allocation primitive (Arena::alloc_*/new_oneshot/dup/sformat, ArenaPool::alloc, malloc/realloc, "
                "CodeHolder::new_fixup, ConstPool::Tree::new_node_t) is dereferenced, written through or handed to a callee only after "
                "it tested non-null (may-analysis per allocation site: unchecked results flow forward, killed on the non-null branch edge)")

    # wrappers: functions with a pointer result that may return the (untested) result of an allocation primitive or of another
    # wrapper are allocation callees themselves (RAStackAllocator::new_slot, BaseRAPass::get_or_create_stack_slot, ...)
    regex = ALLOC_RE
    wrappers = set()
    fns = {}
    for rnd in range(4):
        def one(u, regex=regex):
            return u, core.astfacts(u, funcs_calling=regex)
        fns = {}
        with ThreadPoolExecutor(16) as ex:
            for u, f in ex.map(one, units):
                chk.units.add(u)
                for fo in f["functions"]:
                    key = (fo["name"], fo["file"], fo["line"])
                    if key not in fns and not fo.get("cfg_failed"):
                        fns[key] = fo
        pat = re.compile(regex)
        new = set()
        for key, fo in fns.items():
            if "*" not in (fo.get("ret") or "") or "/ujit/" in fo["file"]:
                continue
            g = cfg.Fn(fo)
            paths = set()
            for i, x in g.calls(lambda x: x.get("callee") and pat.search(x["callee"])):
                pth, _b = binding_of(g, i)
                if pth:
                    paths.add(pth)
            for b, idx, rr in g.return_sites():
                v = g.e(rr).get("val")
                stack = [g.strip(v)] if v is not None else []
                while stack:
                    t = stack.pop()
                    tx = g.e(t)
                    if tx is None:
                        continue
                    if tx["k"] == "cond":
                        stack += [g.strip(tx["a"]), g.strip(tx["b"])]
                    elif tx["k"] in ("call", "mcall") and tx.get("callee") and pat.search(tx["callee"]):
                        new.add(g.name)
                    elif g.access_path(t) in paths:
                        new.add(g.name)
        new = {w for w in new if not pat.search(w)}
        if not new:
            break
        wrappers |= new
        regex = regex + "|" + "|".join(re.escape(w) + "$" for w in sorted(new))
    ALLOC_ALL = re.compile(regex)
    nsites = 0
    for key in sorted(fns):
        fn = cfg.Fn(fns[key])
        if "/ujit/" in fn.file:
            continue
        calls = [(i, x) for i, x in fn.calls(lambda x: x.get("callee") and ALLOC_ALL.search(x["callee"]))]
        if not calls:
            continue
        ords = {}
        sites = {}       # binding element id -> (path, inst, call id)
        for i, x in sorted(calls, key=lambda t: (t[1]["l"], t[0])):
            path, bind_id = binding_of(fn, i)
            sname = "%s|%s" % (short(fn.name), short(x["callee"]).split("<")[0])
            o = ords.get(sname, 0)
            ords[sname] = o + 1
            inst = "%s#%d" % (sname, o)
            nsites += 1
            if path is None:
                par = fn.parent_map().get(i)
                px = fn.e(par) if par else None
                hops = 0
                while px and px["k"] in ("cast",) and hops < 4:
                    par = fn.parent_map().get(par)
                    px = fn.e(par) if par else None
                    hops += 1
                bad = px is not None and ((px["k"] == "member" and px.get("arrow")) or (px["k"] == "unop" and px["op"] == "*") or px["k"] == "new")
                # `(void)creator(...)`: the caller relies on the creator's side effect and never learns that it failed
                par0 = fn.e(fn.parent_map().get(i)) if fn.parent_map().get(i) else None
                discarded = par0 is not None and par0["k"] == "cast" and (par0.get("ty") or "") == "void" and x["callee"] in wrappers
                chk.ob(R, inst + "|unbound", not bad and not discarded, loc=fn.loc(i),
                       detail=("result of %s is dereferenced directly without a null test" % short(x["callee"])) if bad else
                              ("the result of %s is explicitly discarded: when the allocation behind it fails nothing was created, and the caller "
                               "goes on as if it had been" % short(x["callee"])), key="nulltested|" + inst)
            else:
                sites[bind_id] = (path, inst, i)
        if not sites:
            continue
        reports = may_unchecked(fn, sites)
        for bind_id, (path, inst, call_id) in sorted(sites.items()):
            bad = reports.get(bind_id)
            chk.ob(R, inst + "|" + path, bad is None, loc=fn.loc(bad[0] if bad else call_id),
                   detail=("`%s` (result of %s) reaches `%s%s` on a path where it was not tested against null" % (
                       path, short(fn.e(call_id)["callee"]), path, bad[1])) if bad else "",
                   key="nulltested|%s|%s" % (inst, path))
    chk.floor(R + ":sites", nsites, 60)


def may_unchecked(fn, sites):
    """sites: binding element -> (path, ...).  Forward may-analysis of (site) facts = 'the value bound at
    `site` is still in its variable and has not been tested non-null'.  Returns {site: (use id, how)}."""
    from .cfg import forward
    from .must import branch_atoms
    paths = {p for (p, _, _) in sites.values()}
    uses = {}
    for p in paths:
        for j, how in deref_uses(fn, p):
            uses.setdefault(j, []).append((p, how))
    assigns = {}   # element id -> path assigned (kills sites of that path), for any assignment/decl
    for i, x in fn.ex.items():
        if x["k"] == "binop" and x["op"] == "=":
            p = fn.access_path(x["lhs"])
            if p in paths:
                # p = f(p) keeps the pointer (derived from itself)
                selfref = any(fn.kind(j) in ("ref", "member") and fn.access_path(j) == p for j in fn.walk(x["rhs"]))
                if i in sites or not selfref:
                    assigns[i] = p
        elif x["k"] == "decl":
            for v in x["vars"]:
                if v["name"] in paths:
                    assigns[i] = v["name"]
    atoms = branch_atoms(fn)
    site_path = {s: v[0] for s, v in sites.items()}
    reports = {}

    def step(el, st, report):
        if el in uses and report:
            for (p, how) in uses[el]:
                for s in st:
                    if site_path[s] == p and s not in reports and el != s:
                        reports[s] = (el, how)
        if el in assigns:
            p = assigns[el]
            st = frozenset(s for s in st if site_path[s] != p)
        if el in sites:
            st = st | {el}
        return st

    def transfer(b, st):
        for el in fn.blocks[b]["elems"]:
            if isinstance(el, int):
                st = step(el, st, False)
        return st

    def edge(b, si, succ, st):
        if b not in atoms or not st:
            return st
        atom, pol = atoms[b]
        holds = (si == 0) == pol
        nn = set(null_atoms(fn, atom, holds))
        if nn:
            return frozenset(s for s in st if site_path[s] not in nn)
        return st

    def join(states):
        s = set()
        for t in states:
            s |= t
        return frozenset(s)
    IN, OUT = forward(fn, frozenset(), transfer, join, edge=edge)
    for b in fn.blocks:
        if b in IN:
            st = IN[b]
            for el in fn.blocks[b]["elems"]:
                if isinstance(el, int):
                    st = step(el, st, True)
    return reports


def reachable_after(fn, eid):
    """Set of (block, index) positions reachable from just after element eid."""
    pos = fn.block_of().get(eid)
    if not pos:
        # decl / assignment nodes are CFG elements; if not, consider everything reachable
        return {p for p in fn.block_of().values()}
    b0, idx0 = pos
    out = set()
    blk = fn.blocks[b0]
    for idx in range(idx0 + 1, len(blk["elems"])):
        out.add((b0, idx))
    seen = set()
    stack = list(fn.succs(b0))
    while stack:
        b = stack.pop()
        if b in seen:
            continue
        seen.add(b)
        for idx in range(len(fn.blocks[b]["elems"])):
            out.add((b, idx))
        stack.extend(fn.succs(b))
    return out


def rule_reserve_then_append(chk, units):
    R = "R-RESERVE-THEN-APPEND"
    chk.rule(R, "every ArenaVector::*_unchecked append is dominated, on the same container, by a reserve whose Error result was "
                "tested and found kOk (credited on the branch edge), or is listed with a container-level guarantee")
    rules = core.load_json("rules/c15.json")
    listed = rules["unchecked_ok"]

    def one(u):
        return u, core.astfacts(u, funcs_calling=UNCHECKED_RE)
    fns = {}
    with ThreadPoolExecutor(16) as ex:
        for u, f in ex.map(one, units):
            for fo in f["functions"]:
                key = (fo["name"], fo["file"], fo["line"])
                if key not in fns and not fo.get("cfg_failed"):
                    fns[key] = fo
    upy = re.compile(UNCHECKED_RE)
    n = 0
    for key in sorted(fns):
        fn = cfg.Fn(fns[key])
        if "/ujit/" in fn.file or "/support/arenavector" in fn.file:
            continue
        sites = [(i, x) for i, x in fn.calls(lambda x: x.get("callee") and upy.search(x["callee"]))]
        if not sites:
            continue

        def reserve_path(call_id):
            x = fn.e(call_id)
            if x and x["k"] == "mcall" and re.match(r"(reserve_additional|reserve_grow|reserve_fit|_reserve[a-z_]*|resize_grow|resize_fit)$", x.get("cn", "")) and x.get("obj"):
                return fn.access_path(x["obj"])
            return None

        # flow-sensitive: which container's reserve result does an Error local currently hold?
        from .relational import Relational

        def bind_fx(eid, x, facts):
            tgt = rhs = None
            if x["k"] == "decl":
                adds, kills = [], []
                for v in x["vars"]:
                    kills += [f for f in facts if f[0] == "errof" and f[1] == v["did"]]
                    if v.get("init"):
                        pth = reserve_path(fn.strip(v["init"]))
                        if pth:
                            adds.append(("errof", v["did"], pth))
                return (tuple(adds), tuple(kills)) if (adds or kills) else None
            if x["k"] == "binop" and x["op"] == "=":
                l = fn.e(fn.strip(x["lhs"]))
                if l and l["k"] == "ref" and "did" in l:
                    kills = [f for f in facts if f[0] == "errof" and f[1] == l["did"]]
                    pth = reserve_path(fn.strip(x["rhs"]))
                    adds = [("errof", l["did"], pth)] if pth else []
                    return (tuple(adds), tuple(kills)) if (adds or kills) else None
            return None

        def ok_edge(b, si, atom, holds, facts):
            x = fn.e(atom)
            if not x or x["k"] != "binop" or x["op"] not in ("==", "!="):
                return ()
            for a, b2 in ((x["lhs"], x["rhs"]), (x["rhs"], x["lhs"])):
                bx = fn.e(fn.strip(b2))
                if bx is not None and bx.get("cvn") == "kOk":
                    if (x["op"] == "==") != holds:
                        return ()
                    pth = reserve_path(fn.strip(a))
                    if pth:
                        return [("reserved", pth)]
                    ax = fn.e(fn.strip(a))
                    if ax and ax["k"] == "ref" and "did" in ax:
                        return [("reserved", f[2]) for f in facts if f[0] == "errof" and f[1] == ax["did"]]
            return ()
        m = Relational(fn, bind_fx, ok_edge)
        ords = {}
        for i, x in sites:
            cont = fn.access_path(x["obj"]) if x.get("obj") else None
            sname = "%s|%s.%s" % (short(fn.name), cont, x["cn"])
            o = ords.get(sname, 0)
            ords[sname] = o + 1
            inst = "%s#%d" % (sname, o)
            n += 1
            ok = m.must(i, ("reserved", cont)) is True
            lk = "%s|%s" % (short(fn.name), cont)
            if not ok and lk in listed:
                chk.ob(R, inst, True, loc=fn.loc(i), detail="listed: " + listed[lk])
            else:
                chk.ob(R, inst, ok, loc=fn.loc(i),
                       detail="%s.%s() is reachable without a reserve on `%s` whose result was checked" % (cont, x["cn"], cont),
                       key="reserve|" + inst)
    chk.floor(R + ":sites", n, 15)


def rule_call_order(chk):
    R = "R-CALL-ORDER"
    chk.rule(R, "a callee that relies on a precondition established by another function is called only after that function on every path")
    rules = core.load_json("rules/c15.json")
    for ent in rules["call_order"]:
        f = chk.facts(ent["unit"], funcs_calling=re.escape(ent["callee"]) + "$")
        n = 0
        for fn in cfg.load_functions(f):
            def elem_fx(eid, x, req=ent["requires"]):
                if x["k"] in ("call", "mcall") and x.get("callee") == req:
                    return ((("done",),), ())
                return None
            m = Must(fn, elem_fx, None)
            for i, x in fn.calls(lambda x: x.get("callee") == ent["callee"]):
                n += 1
                st = m.before(i) or frozenset()
                chk.ob(R, "%s|%s" % (short(fn.name), short(ent["callee"])), ("done",) in st, loc=fn.loc(i),
                       detail="%s() is reachable without a preceding %s()" % (short(ent["callee"]), short(ent["requires"])))
        chk.floor(R + ":" + short(ent["callee"]), n, ent["min_sites"])


def rule_rollback(chk):
    from . import rollback
    R = "R-ROLLBACK-PAIR"
    chk.rule(R, "once the acquire call succeeded, every failing (or not provably successful) return of the function is preceded by the "
                "matching release on that path (path-sensitive enumeration; Error locals tracked through their kOk comparisons)")
    rules = core.load_json("rules/c15.json")
    for ent in rules["rollback"]:
        f = chk.facts(ent["unit"], funcs="asmjit::" + re.escape(ent["function"]) + "$")
        fn = cfg.find_fn(f, ent["function"])
        nacq = sum(1 for i, x in fn.calls(lambda x: x.get("callee") == ent["acquire"]))
        chk.need(nacq >= 1, "%s no longer calls %s" % (ent["function"], ent["acquire"]))
        viol, stats = rollback.check(fn, lambda x: x.get("callee") == ent["acquire"], lambda x: x.get("callee") == ent["release"])
        inst = "%s|%s/%s" % (ent["function"], short(ent["acquire"]), short(ent["release"]))
        if not viol:
            chk.ob(R, inst, True, loc="%s:%d" % (ent["unit"], fn.line), detail="%d paths" % stats["paths"])
        for el, why in viol:
            chk.ob(R, inst, False, loc=fn.loc(el), detail="%s: %s (return `%s`)" % (ent["function"], why, fn.text(fn.e(el).get("val", 0))[:60]),
                   key="rollback|" + inst)


def rule_attach_atomic(chk):
    R = "R-ATTACH-ATOMIC"
    chk.rule(R, "CodeHolder::attach(): BaseEmitter::on_attach() stores the CodeHolder in the emitter before anything can fail, so every failing "
                "return of attach() that follows the on_attach() call is preceded by `emitter->_code = nullptr` on that path (or no such return "
                "exists): a failed attach never leaves an emitter that claims to be attached")
    f = chk.facts("asmjit/core/codeholder.cpp", funcs=r"asmjit::CodeHolder::attach$")
    fn = cfg.find_fn(f, "CodeHolder::attach")
    fe = chk.facts("asmjit/core/emitter.cpp", funcs=r"asmjit::BaseEmitter::on_attach$")
    oa = cfg.find_fn(fe, "BaseEmitter::on_attach")
    sets_code = any(x["k"] == "binop" and x["op"] == "=" and (oa.access_path(x["lhs"]) or "").endswith("._code") for x in oa.ex.values())
    chk.ob(R, "BaseEmitter::on_attach|sets-_code", sets_code, loc="asmjit/core/emitter.cpp:%d" % oa.line,
           detail="BaseEmitter::on_attach no longer assigns _code: the premise of this rule changed, review it")
    calls = [i for i, x in fn.calls(lambda x: x.get("cn") == "on_attach")]
    chk.need(len(calls) >= 1, "CodeHolder::attach no longer calls on_attach")
    from .cfg import forward

    def transfer(b, st):
        for el in fn.blocks[b]["elems"]:
            if not isinstance(el, int):
                continue
            x = fn.e(el)
            if el in calls:
                st = True
            elif st and x and x["k"] == "binop" and x["op"] == "=" and (fn.access_path(x["lhs"]) or "").endswith("._code"):
                r = fn.e(fn.strip(x["rhs"]))
                if r is not None and (r["k"] == "null" or r.get("cv") == 0):
                    st = False
        return st
    IN, OUT = forward(fn, False, transfer, lambda ss: any(ss))
    n = 0
    for b, idx, r in fn.return_sites():
        st = IN.get(b, False)
        for el in fn.blocks[b]["elems"][:idx]:
            if isinstance(el, int):
                x = fn.e(el)
                if el in calls:
                    st = True
                elif st and x and x["k"] == "binop" and x["op"] == "=" and (fn.access_path(x["lhs"]) or "").endswith("._code"):
                    rr = fn.e(fn.strip(x["rhs"]))
                    if rr is not None and (rr["k"] == "null" or rr.get("cv") == 0):
                        st = False
        v = fn.e(fn.strip(fn.e(r)["val"])) if fn.e(r).get("val") else None
        if v is not None and v.get("cvn") == "kOk":
            continue
        if not any(fn.block_of().get(c) and b in (fn.reachable_from(fn.block_of()[c][0]) | {fn.block_of()[c][0]}) for c in calls):
            continue
        n += 1
        chk.ob(R, "CodeHolder::attach|failing-return#%d" % n, not st, loc=fn.loc(r),
               detail="this return can follow a failed on_attach() without `emitter->_code = nullptr`: the emitter keeps pointing at the CodeHolder "
                      "although it is not in the attached list, and the next attach() returns kOk without attaching it",
               key="attachatomic|failing-return")
    chk.floor(R + ":failing-returns", n, 1)


def rule_free_escape(chk):
    from . import freeescape
    R = "R-FREE-ESCAPE"
    chk.rule(R, "in every function that frees a block (free / Arena_free) no heap lvalue still holds the freed pointer at any return: "
                "pointer equalities are must-facts, dangling lvalues may-facts, an assignment to the lvalue clears it")
    sites = [("asmjit/support/arena.cpp", r"asmjit::Arena::|asmjit::Arena_"), ("asmjit/core/codeholder.cpp", r"asmjit::Section_|asmjit::CodeHolder"),
             ("asmjit/core/jitallocator.cpp", r"asmjit::JitAllocator"), ("asmjit/core/string.cpp", r"asmjit::String::"), ("asmjit/core/virtmem.cpp", r"asmjit::VirtMem::")]
    n = 0
    for unit, rex in sites:
        f = chk.facts(unit, funcs=rex)
        for fn in cfg.load_functions(f):
            if not any(True for i, x in fn.calls(lambda x: x.get("cn") in freeescape.FREE)):
                continue
            n += 1
            rep = freeescape.analyse(fn)
            sn = short(fn.name)
            if not rep:
                chk.ob(R, sn, True, loc="%s:%d" % (unit, fn.line))
            for (lv, fr, rt) in rep:
                chk.ob(R, "%s|%s" % (sn, lv), False, loc=fn.loc(fr),
                       detail="`%s` still holds the block freed at line %d when %s returns (line %d): a later walk of the list uses or frees it again" % (
                           lv, fn.line_of(fr), sn, fn.line_of(rt)), key="freeescape|%s|%s" % (sn, lv))
    chk.floor(R + ":functions", n, 8)


def rule_commit_then_fail(chk):
    from . import commitfail
    R = "R-COMMIT-THEN-FAIL"
    chk.rule(R, "after a successful CodeHolder::new_reloc_entry() every failing exit of the creating function first turns the entry into "
                "RelocType::kNone (skipped by relocation): no half-built relocation survives a reported failure")
    sites = [("asmjit/x86/x86assembler.cpp", r"x86::Assembler::_emit$"), ("asmjit/arm/a64assembler.cpp", r"a64::Assembler::_emit$"),
             ("asmjit/core/assembler.cpp", r"BaseAssembler::(embed_label|embed_label_delta)$")]
    n = 0
    for unit, rex in sites:
        f = chk.facts(unit, funcs=rex)
        for fn in cfg.load_functions(f):
            rep = commitfail.analyse(fn)
            ords = 0
            for i, x in sorted(fn.calls(lambda x: x.get("cn") == "new_reloc_entry"), key=lambda t: t[1]["l"]):
                n += 1
                inst = "%s|creation#%d" % (short(fn.name), ords)
                ords += 1
                w = rep.get(i)
                chk.ob(R, inst, w is None, loc=fn.loc(i),
                       detail="the relocation entry created here is still live at the failing exit %s" % (
                           ("line %d" % fn.line_of(w)) if isinstance(w, int) else ("label %s" % w[1] if w else "")),
                       key="commitfail|" + inst)
    chk.floor(R + ":creations", n, 5)


def run(chk):
    units = [u for u in core.library_units() if "/ujit/" not in u]
    rule_rollback(chk)
    rule_commit_then_fail(chk)
    rule_free_escape(chk)
    rule_attach_atomic(chk)
    rule_null_tested(chk, units)
    rule_reserve_then_append(chk, units)
    rule_call_order(chk)
