"""Finite evaluation of pure validator predicates (no execution of /repo code: the expression trees dumped by
astfacts are folded over a small finite domain by this module).

A validator is a side-effect free function of operand references (and integer parameters) with a single return
expression.  For a chosen parameter k the register id of operand k ranges over 0..63 while the other operands hold
id 0 and every integer parameter / unresolved sub-expression ("symbol") takes each value of SYMVALS; the result is
the accepted-id signature of (function, k): a tuple of booleans.  Signatures are used to compare sibling overloads
(R-VALIDATOR-SIBLINGS) and to bound the accepted ids by the width of the register field."""
import re


class Unknown(Exception):
    pass


SYMVALS = (0, 31, 63)


class Pred:
    def __init__(self, fn, helpers):
        self.fn = fn
        self.helpers = helpers          # "qualified name/arity" -> Fn
        rets = list(fn.return_sites())
        self.ret = fn.e(rets[0][2]).get("val") if len(rets) == 1 else None
        self.ops = [p for p in fn.params if "Operand" in p["ty"] or "Reg" in p["ty"] or "Gp" in p["ty"] or "Vec" in p["ty"]]
        self.ints = [p for p in fn.params if p not in self.ops and re.search(r"int|uint|size_t", p["ty"]) and "*" not in p["ty"] and "&" not in p["ty"]]
        # locals with a unique initialiser
        self.init = {}
        for x in fn.ex.values():
            if x["k"] == "decl":
                for v in x["vars"]:
                    if v.get("init"):
                        self.init[v["did"]] = v["init"]

    def usable(self):
        return self.ret is not None and bool(self.ops)

    def ev(self, eid, env, depth=0):
        fn = self.fn
        x = fn.e(eid)
        if x is None or depth > 40:
            raise Unknown()
        k = x["k"]
        if "cv" in x and isinstance(x["cv"], int) and k not in ("ref",):
            return x["cv"]
        if k in ("paren", "cast"):
            v = self.ev(x["sub"], env, depth + 1)
            ty = (x.get("ty") or "")
            if ty == "bool":
                return int(bool(v))
            return v
        if k == "construct" and len(x.get("args", [])) == 1:
            return self.ev(x["args"][0], env, depth + 1)
        if k == "ref":
            if x.get("did") in env["ints"]:
                return env["ints"][x["did"]]
            if x.get("did") in self.init:
                return self.ev(self.init[x["did"]], env, depth + 1)
            if "cv" in x and isinstance(x["cv"], int):
                return x["cv"]
            raise Unknown()
        if k == "mcall" and x.get("cn") == "id" and x.get("obj"):
            r = fn.root_ref(x["obj"])
            rx = fn.e(r) if r else None
            if rx and rx.get("did") in env["ids"]:
                return env["ids"][rx["did"]]
            raise Unknown()
        if k == "binop":
            op = x["op"]
            if op == "||":
                return int(bool(self.ev(x["lhs"], env, depth + 1)) or bool(self.ev(x["rhs"], env, depth + 1)))
            if op == "&&":
                return int(bool(self.ev(x["lhs"], env, depth + 1)) and bool(self.ev(x["rhs"], env, depth + 1)))
            a, b = self.ev(x["lhs"], env, depth + 1), self.ev(x["rhs"], env, depth + 1)
            M = 0xFFFFFFFF
            if op == "+":
                return (a + b) & M
            if op == "-":
                return (a - b) & M
            if op == "&":
                return a & b
            if op == "|":
                return a | b
            if op == "^":
                return a ^ b
            if op == "<<":
                return (a << b) & M
            if op == ">>":
                return a >> b
            if op in ("<", "<=", ">", ">=", "==", "!="):
                return int({"<": a < b, "<=": a <= b, ">": a > b, ">=": a >= b, "==": a == b, "!=": a != b}[op])
            raise Unknown()
        if k == "unop":
            v = self.ev(x["sub"], env, depth + 1)
            if x["op"] == "!":
                return int(not v)
            if x["op"] == "~":
                return ~v & 0xFFFFFFFF
            if x["op"] == "-":
                return (-v) & 0xFFFFFFFF
            raise Unknown()
        if k in ("call",):
            # a call to another validator of the same unit with operand / integer arguments
            callee = None
            for key, g in self.helpers.items():
                if key.split("/")[0] == (x.get("callee") or "") and int(key.split("/")[1]) >= len(x.get("args", [])):
                    if callee is None or int(key.split("/")[1]) < int([kk for kk, gg in self.helpers.items() if gg is callee][0].split("/")[1]):
                        callee = g
            if callee is not None:
                sub = Pred(callee, self.helpers)
                if sub.ret is not None:
                    env2 = {"ids": {}, "ints": {}, "syms": env["syms"]}
                    for p, a in zip(callee.params, x.get("args", [])):
                        if p in sub.ops:
                            r = fn.root_ref(a)
                            rx = fn.e(r) if r else None
                            if not rx or rx.get("did") not in env["ids"]:
                                raise Unknown()
                            env2["ids"][p["did"]] = env["ids"][rx["did"]]
                        elif p in sub.ints:
                            env2["ints"][p["did"]] = self.ev(a, env, depth + 1)
                    for p in callee.params[len(x.get("args", [])):]:
                        if p in sub.ints:
                            env2["ints"][p["did"]] = env["syms"].get("default", 63)
                    return sub.ev(sub.ret, env2, depth + 1)
        # anything else that depends on the operand but not on its id (register type look-ups ...) is a symbol
        t = re.sub(r"\s+", "", fn.text(eid))
        t = re.sub(r"\bo\d\b|\bop\b", "O", t)
        if ".id()" in t:
            raise Unknown()
        return env["syms"].setdefault("sym:" + t, env["syms"].get("default", 63))

    def signature(self, k):
        """accepted-id signature of operand parameter index k (into self.ops)"""
        out = []
        for sv in SYMVALS:
            for idv in range(64):
                env = {"ids": {p["did"]: 0 for p in self.ops}, "ints": {p["did"]: sv for p in self.ints}, "syms": {"default": sv}}
                env["ids"][self.ops[k]["did"]] = idv
                out.append(bool(self.ev(self.ret, env)))
        return tuple(out)


def describe(sig):
    parts = []
    for j, sv in enumerate(SYMVALS):
        ids = [i for i in range(64) if sig[j * 64 + i]]
        # compress
        runs = []
        for i in ids:
            if runs and runs[-1][1] == i - 1:
                runs[-1][1] = i
            else:
                runs.append([i, i])
        parts.append("hi=%d:{%s}" % (sv, ",".join("%d" % a if a == b else "%d..%d" % (a, b) for a, b in runs)))
    return " ".join(parts)
