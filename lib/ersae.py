"""R-ER-IMPLIES-SAE-LOOKED-AT (C12, C13): {er} and {sae} are one encoding feature (EVEX.b with register operands only).

Embedded rounding {er} and suppress-all-exceptions {sae} both reuse EVEX.b and both exist only in the register-to-register form of an
instruction; the validator refuses a memory operand for either (`Support::test(options, kX86_SAE | kX86_ER)`).  A decision that looks
at kX86_ER alone - "a memory operand is impossible" - is wrong for {sae}: query_rw_info() then reports an operand of `vmaxps zmm0,
zmm1, zmm2 {sae}` as replaceable by memory although that form is refused.

Rule: in x86instapi.cpp every test of an option mask that contains kX86_ER but not kX86_SAE is dominated by the taken edge of a test
whose mask contains both (the only legitimate use: telling {er} from {sae} after the common decision was made)."""
from . import cfg
from .must import Must


def run(chk, unit="asmjit/x86/x86instapi.cpp", rule="R-ER-IMPLIES-SAE-LOOKED-AT", floor=3):
    chk.rule(rule, "x86 instruction API (validate / query_rw_info / query_features): a test of an option mask containing InstOptions::kX86_ER "
                   "but not kX86_SAE is reached only on the taken edge of a test whose mask contains both: what holds for {er} because the "
                   "form is register-only holds for {sae} too")
    f = chk.facts(unit, funcs=r"asmjit::x86::InstInternal::[a-z_A-Z0-9]+$", enums=r"asmjit::InstOptions$")
    en = f["enums"].get("asmjit::InstOptions")
    chk.need(en is not None, "enum InstOptions not found")
    ev = {n: v for n, v in en["enumerators"]}
    chk.need("kX86_ER" in ev and "kX86_SAE" in ev, "kX86_ER / kX86_SAE not found")
    ER, SAE = ev["kX86_ER"], ev["kX86_SAE"]
    n = nboth = 0
    for fn in cfg.load_functions(f):
        if not fn.file.endswith(unit.split("/")[-1]):
            continue

        def mask_of(x):
            """option-mask test -> constant mask"""
            if x is None or x["k"] not in ("call", "mcall") or x.get("cn") not in ("test", "has_option", "has_inst_option"):
                return None
            for a in x.get("args", []):
                ax = fn.e(fn.strip(a))
                if ax is not None and isinstance(ax.get("cv"), int) and "InstOptions" in (ax.get("ty") or "") + fn.text(a):
                    return ax["cv"]
            return None

        def edge(b, si, atom, holds):
            mk = mask_of(fn.e(atom))
            if mk is not None and holds and (mk & ER) and (mk & SAE):
                return [("both",)]
            return ()
        m = None
        for i, x in sorted(fn.ex.items()):
            mk = mask_of(x)
            if mk is None:
                continue
            if (mk & ER) and (mk & SAE):
                nboth += 1
            if not (mk & ER) or (mk & SAE):
                continue
            if m is None:
                m = Must(fn, None, edge)
            par = fn.parent_map()
            st = m.before(i)
            j = i
            while st is None and j in par:
                j = par[j]
                st = m.before(j)
            if st is None:
                # the test is itself a branch condition: use the state at the end of its block
                for b in fn.blocks.values():
                    t = b.get("term")
                    if t and t.get("cond") is not None and i in set(fn.walk(t["cond"])):
                        st = m.at_block_end(b["id"])
            n += 1
            chk.ob(rule, "%s|%s@%d" % (fn.name.replace("asmjit::", ""), " ".join(fn.text(i).split())[:40], fn.line_of(i) - fn.line),
                   ("both",) in (st or frozenset()), loc=fn.loc(i),
                   detail="`%s` decides from {er} alone: with {sae} - which is just as register-only - the other branch is taken (query_rw_info: "
                          "an operand is reported replaceable by memory although the validator refuses {sae} with a memory operand)" %
                          " ".join(fn.text(i).split())[:60], key="ersae|%s" % fn.name.replace("asmjit::", ""))
    chk.floor(rule + ":tests-of-er", n + nboth, floor)      # tests whose mask contains kX86_ER, alone or together with kX86_SAE
    chk.floor(rule + ":common-tests", nboth, 1)
    return n
