"""R-NARROW-GUARDED: an explicit narrowing conversion of a 64-bit displacement variable is verified.

For each explicit cast whose operand is (a mask of) a 64-bit integer variable W and whose target type is narrower:
  (a) the cast is dominated, on the passing edge, by a range predicate over W (is_int_n<N>(W) / is_uint_n<N>(W)) with no
      sign-changing assignment to W in between (must-analysis), or
  (b) the narrowed result is stored in V and no path from the cast reaches a success exit (`return true` / `return kOk`)
      without evaluating a comparison between V and W (round-trip test; may-analysis seeded at the cast).
Casts whose operand is a comparison, a shift-right by >= 32 or a value already masked to fit and *declared* as a bit-field
extraction (`(W >> k) & m` with constant m that fits) are not narrowing of the value and are skipped."""
import re
from .cfg import forward
from .must import Must

BITS = {"int64_t": 64, "uint64_t": 64, "long": 64, "unsigned long": 64, "size_t": 64, "long long": 64, "unsigned long long": 64, "intptr_t": 64, "uintptr_t": 64,
        "int32_t": 32, "uint32_t": 32, "int": 32, "unsigned int": 32, "int16_t": 16, "uint16_t": 16, "short": 16, "unsigned short": 16,
        "int8_t": 8, "uint8_t": 8, "char": 8, "unsigned char": 8, "signed char": 8}


def bits_of(ty):
    return BITS.get((ty or "").replace("const ", "").replace("&", "").strip())


def wide_root(fn, eid):
    """-> did of the 64-bit variable the expression is a plain reference to (through parens / value-preserving casts), else None"""
    for _ in range(8):
        x = fn.e(eid)
        if not x:
            return None
        if x["k"] == "ref" and "did" in x and bits_of(x.get("ty")) == 64:
            return x["did"]
        if x["k"] == "unop" and x["op"] == "*":
            p = fn.e(fn.strip(x["sub"])) if fn.e(x["sub"]) and fn.e(x["sub"])["k"] != "ref" else fn.e(x["sub"])
            if p and p["k"] == "ref" and "did" in p and bits_of((p.get("ty") or "").replace("*", "")) == 64:
                return "p%d" % p["did"]          # the object a 64-bit pointer parameter points to
            return None
        if x["k"] == "cast" and bits_of(x.get("ty")) == 64:
            eid = x["sub"]
            continue
        if x["k"] == "paren":
            eid = x["sub"]
            continue
        return None
    return None


def is_unsigned(fn, eid):
    for _ in range(8):
        x = fn.e(eid)
        if not x:
            return False
        if x["k"] == "ref":
            t = (x.get("ty") or "").replace("const ", "").strip()
            return t.startswith("u") or t.startswith("unsigned") or t.startswith("size_t")
        if x["k"] == "unop" and x["op"] == "*":
            eid = x["sub"]
            continue
        if x["k"] in ("cast", "paren"):
            eid = x["sub"]
            continue
        return False
    return False


def lossy_sites(fn):
    """other operations that silently drop bits of a 64-bit immediate local: `W &= c`, `W & c`, W passed to the templated
    Opcode::add_imm / xor_imm (which converts to uint32_t)"""
    out = []
    par = fn.parent_map()
    for i, x in fn.ex.items():
        if x["k"] == "binop" and x["op"] in ("&=", "&"):
            for a, b in ((x["lhs"], x["rhs"]), (x["rhs"], x["lhs"])):
                w = wide_root(fn, a)
                m = fn.e(fn.strip(b))
                if w is not None and is_unsigned(fn, a) and m is not None and isinstance(m.get("cv"), int) and 0 <= m["cv"] < 0xFFFFFFFF:
                    # (a mask of exactly 32 one-bits re-interprets the immediate at register width - negative values are legal there)
                    out.append((i, w, "mask"))
                    break
                if x["op"] == "&=":
                    break
        elif x["k"] == "mcall" and x.get("cn") in ("add_imm", "xor_imm") and x.get("args"):
            w = wide_root(fn, x["args"][0])
            if w is not None:
                out.append((i, w, "arg"))
    return out


FULL_MASK_NARROWS = True


def sites(fn):
    out = []
    for i, x in fn.ex.items():
        if x["k"] != "cast" or x.get("ck") not in ("functional", "static", "cstyle", "c"):
            continue
        db = bits_of(x.get("ty"))
        if not db or db >= 64:
            continue
        sub = x["sub"]
        s = fn.e(sub)
        while s and s["k"] == "paren":
            sub = s["sub"]
            s = fn.e(sub)
        if not s:
            continue
        w = wide_root(fn, sub)
        masked = False
        if w is None and s["k"] == "binop" and s["op"] == "&":
            # W & mask : narrowing unless the mask is a constant that fits the target
            for a, b in ((s["lhs"], s["rhs"]), (s["rhs"], s["lhs"])):
                w = wide_root(fn, a)
                if w is not None:
                    m = fn.e(fn.strip(b))
                    if m and m.get("cv") is not None and 0 <= m["cv"] < (1 << db):
                        # constant field extraction - unless the mask is the whole target width of a *signed* value: `uint32_t(W & 0xFFFFFFFF)`
                        # keeps the low half of a displacement and drops the rest exactly like the plain cast does
                        if not (FULL_MASK_NARROWS and m["cv"] == (1 << db) - 1 and not is_unsigned(fn, a)):
                            w = None
                    masked = True
                    break
        if w is None:
            continue
        out.append((i, w, masked))
    return out


def guard_facts(fn, atom, holds):
    """facts established on the edge where `atom` evaluates to `holds`: ("ranged", did) - the 64-bit variable fits 32 bits;
    ("ub", did, c) - its unsigned value is at most c."""
    x = fn.e(atom)
    if x and x["k"] in ("call", "mcall") and re.match(r"is_u?int_n$|is_encodable_offset_(32|64)$", x.get("cn", "")) and holds and x.get("args"):
        w = wide_root(fn, x["args"][0])
        if w is not None:
            return [("ranged", w)]
    if x and x["k"] == "binop" and x["op"] in ("==", "!="):
        # `(W & K) == 0` on the edge where it holds: W has no bit of K, i.e. W <= ~K
        z = fn.e(fn.strip(x["rhs"]))
        l = fn.e(x["lhs"])
        while l and l["k"] in ("paren",):
            l = fn.e(l["sub"])
        if z is not None and z.get("cv") == 0 and l and l["k"] == "binop" and l["op"] == "&" and (x["op"] == "==") == holds:
            for a, b in ((l["lhs"], l["rhs"]), (l["rhs"], l["lhs"])):
                w = wide_root(fn, a)
                kx = fn.e(fn.strip(b))
                kv = kx.get("cv") if kx is not None else None
                if isinstance(kv, str) and kv.lstrip("-").isdigit():
                    kv = int(kv)
                if w is not None and isinstance(kv, int):
                    rest = ~kv & 0xFFFFFFFFFFFFFFFF
                    if rest < (1 << 32):
                        return [("ranged", w), ("ub", w, rest)]
        return []
    if not (x and x["k"] == "binop" and x["op"] in ("<", "<=", ">", ">=")):
        return []
    # normalise to  small REL big  with REL in {"<", "<="}
    if x["op"] in ("<", "<="):
        small, big, rel = (x["lhs"], x["rhs"], x["op"]) if holds else (x["rhs"], x["lhs"], "<=" if x["op"] == "<" else "<")
    else:
        small, big, rel = (x["rhs"], x["lhs"], "<" if x["op"] == ">" else "<=") if holds else (x["lhs"], x["rhs"], "<=" if x["op"] == ">" else "<")
    bx = fn.e(fn.strip(big))
    const = bx.get("cv") if bx is not None and bx.get("cv") is not None and 0 <= bx["cv"] < (1 << 32) else None
    bounded = const is not None or (bx is not None and (bits_of(bx.get("ty")) or 64) <= 32)
    if not bounded:
        inner = fn.e(big)       # an implicit widening of a narrow variable
        while inner and inner["k"] in ("cast", "paren"):
            inner = fn.e(inner["sub"])
        bounded = inner is not None and (bits_of(inner.get("ty")) or 64) <= 32
    if not bounded:
        return []
    out = []
    stack = [(small, 0)]
    while stack:
        t, off = stack.pop()
        tx = fn.e(t)
        while tx and tx["k"] == "paren":
            t = tx["sub"]
            tx = fn.e(t)
        if tx and tx["k"] == "binop" and tx["op"] == "|":
            stack += [(tx["lhs"], off), (tx["rhs"], off)]
            continue
        if tx and tx["k"] == "binop" and tx["op"] == "-":
            # unsigned `W - c <= K`: W lies in [c, c + K]
            cx = fn.e(fn.strip(tx["rhs"]))
            if cx is not None and cx.get("cv") is not None and 0 <= cx["cv"] < (1 << 31):
                stack.append((tx["lhs"], off + cx["cv"]))
                continue
        w = wide_root(fn, t)
        if w is not None and is_unsigned(fn, t):
            out.append(("ranged", w))
            if const is not None:
                out.append(("ub", w, (const if rel == "<=" else const - 1) + off))
    return out


HELPERS = {}          # name/arity -> Fn of the unit-local helpers (set by the caller of run())
_SUMMARY = {}


def helper_summary(g, assume_false=()):
    """facts about the 64-bit objects behind g's pointer / reference parameters that hold at every `return true` of g:
    {param index: set of fact kinds}"""
    key = (id(g), tuple(sorted(assume_false)))
    if key in _SUMMARY:
        return _SUMMARY[key]
    _SUMMARY[key] = {}
    if (g.raw.get("ret") or "") != "bool":
        return {}
    keys = {}
    for pi, p in enumerate(g.params):
        t = p["ty"].replace("const ", "")
        if "*" in t and bits_of(t.replace("*", "")) == 64:
            keys["p%d" % p["did"]] = pi
        elif "&" in t and bits_of(t) == 64:
            keys[p["did"]] = pi
        elif bits_of(t) == 64:
            keys[p["did"]] = pi          # by value: what holds for the parameter at `return true` holds for the caller's argument
    if not keys:
        return {}
    m = analysis(g)
    out = None
    for b, idx, r in g.return_sites():
        rx = g.e(r)
        val = rx.get("val")
        vx = g.e(g.strip(val)) if val is not None else None
        cvr = rx.get("cv") if rx.get("cv") is not None else (vx.get("cv") if vx is not None and vx["k"] in ("bool", "int") else None)
        if cvr == 0:
            continue                      # `return false`
        st = m.before(r)
        if st is None:
            continue
        st = set(st)
        if cvr is None and val is not None:
            # `return <condition>`: the helper answers true only when the condition holds
            stack = [val]
            while stack:
                t_ = g.strip(stack.pop())
                tx = g.e(t_)
                if tx is not None and tx["k"] == "binop" and tx["op"] == "&&":
                    stack += [tx["lhs"], tx["rhs"]]
                    continue
                if tx is not None and tx["k"] == "binop" and tx["op"] == "||" and assume_false:
                    # `flag || cond` with the bool parameter `flag` assumed false: the helper answers true only when cond holds
                    sides = [tx["lhs"], tx["rhs"]]
                    rest = [e_ for e_ in sides if not ((g.e(g.strip(e_)) or {}).get("k") == "ref" and (g.e(g.strip(e_)) or {}).get("did") in assume_false)]
                    if len(rest) == 1:
                        stack.append(rest[0])
                        continue
                st |= set(guard_facts(g, t_, True))
        here = {}
        for f in st:
            if f[1] in keys and f[0] == "ranged":
                here.setdefault(keys[f[1]], set()).add("ranged")
        out = here if out is None else {k: out[k] & here.get(k, set()) for k in out}
    _SUMMARY[key] = {k: v for k, v in (out or {}).items() if v}
    return _SUMMARY[key]


def _callee_fn(fn, x):
    c = x.get("callee")
    if not c:
        return None
    for k, g in HELPERS.items():
        if k.split("/")[0] == c and int(k.split("/")[1]) == len(x.get("args", [])):
            return g
    return None


def _addr_of_wide(fn, a):
    """`&W` (or W bound to a reference) -> key of W"""
    ax = fn.e(a)
    while ax and ax["k"] in ("cast", "paren"):
        ax = fn.e(ax["sub"])
    if ax and ax["k"] == "unop" and ax["op"] == "&":
        return wide_root(fn, ax["sub"])
    return None


def analysis(fn, extra_edge=None):
    allf = {}
    for b in fn.blocks.values():
        for el in b["elems"]:
            if isinstance(el, int):
                for h in (True, False):
                    for f in guard_facts(fn, el, h):
                        allf.setdefault(f[1], set()).add(f)

    def edge_fx(b, si, atom, holds):
        out = list(guard_facts(fn, atom, holds))
        if extra_edge is not None:
            out += list(extra_edge(atom, holds))
        x = fn.e(atom)
        if x and x["k"] == "call" and holds:
            g = _callee_fn(fn, x)
            if g is not None and g is not fn:
                for pi, kinds in helper_summary(g).items():
                    if pi < len(x.get("args", [])):
                        w = _addr_of_wide(fn, x["args"][pi]) or wide_root(fn, x["args"][pi])
                        if w is not None and "ranged" in kinds:
                            out.append(("ranged", w))
        return out

    def key_of(e):
        y = fn.e(fn.strip(e)) if fn.e(e) and fn.e(e)["k"] not in ("unop",) else fn.e(e)
        if y and y["k"] == "ref" and "did" in y:
            return y["did"]
        if y and y["k"] == "unop" and y["op"] == "*":
            return wide_root(fn, e)
        return None

    def elem_fx(eid, x):
        if x["k"] == "call":
            kills = ()
            for a in x.get("args", []):
                w = _addr_of_wide(fn, a)
                if w is not None:
                    kills += tuple(allf.get(w, ())) + (("ranged", w),)      # the callee may change W
            if kills:
                return ((), kills)
        tgt = None
        if x["k"] == "binop" and x["op"] in ("=", "+=", "-=", "*=", "<<=", "|=", "^="):
            tgt = key_of(x["lhs"])
        elif x["k"] == "unop" and x["op"] in ("++", "--"):
            tgt = key_of(x["sub"])
        if x["k"] == "binop" and x["op"] == "&=":
            t2 = key_of(x["lhs"])
            mk = fn.e(fn.strip(x["rhs"]))
            if t2 is not None and mk is not None and isinstance(mk.get("cv"), int) and 0 <= mk["cv"] < (1 << 32):
                return ((("ranged", t2),), tuple(f for f in allf.get(t2, ()) if f[0] == "ub"))
        if tgt is not None:
            return ((), tuple(allf.get(tgt, ())) + (("ranged", tgt),))
        return None
    return Must(fn, elem_fx, edge_fx)


def bounded_sink(chk, rule, fn, sink, limit, what):
    """every call of `sink` whose argument is rooted in a 64-bit immediate variable W has a must-upper-bound on W <= limit"""
    m = analysis(fn)
    n = 0
    for i, x in fn.calls(lambda x: x.get("cn") == sink):
        if not x.get("args"):
            continue
        a = x["args"][0]
        ax = fn.e(a)
        while ax and ax["k"] in ("cast", "paren"):
            a = ax["sub"]
            ax = fn.e(a)
        w = wide_root(fn, a)
        if w is None:
            continue
        n += 1
        st = m.before(i) or frozenset()
        ubs = [f[2] for f in st if f[0] == "ub" and f[1] == w]
        best = min(ubs) if ubs else None
        chk.ob(rule, "%s|%s@%d" % (fn.name.split("::")[-1], sink, n), best is not None and best <= limit, loc=fn.loc(i),
               detail="the value passed to %s is only known to be <= %s on some path, but %s is %d: an out-of-range immediate is accepted and encoded" % (
                   sink, best if best is not None else "(unbounded)", what, limit),
               key="bound|%s|%s|line-independent#%d" % (fn.name.split("::")[-1], sink, n))
    return n


def run(chk, fns, rule="R-NARROW-GUARDED", floor=2, lossy=False, helpers=None):
    HELPERS.clear()
    HELPERS.update(helpers or {})
    _SUMMARY.clear()
    chk.rule(rule, "every explicit narrowing conversion of a 64-bit displacement variable is dominated by a range predicate over that variable "
                   "(is_int_n / is_uint_n, must-analysis on the passing edge) or its result is compared with the variable on every path to a "
                   "success exit (round-trip test): a displacement is never truncated silently")
    n = 0
    for fn in fns:
        ss = sites(fn)
        if not ss:
            continue

        m = analysis(fn)
        if lossy:
            for i, w, kind in lossy_sites(fn):
                n += 1
                name = fn.name.split("::")[-1]
                st = m.before(i)
                ok = st is not None and ("ranged", w) in st
                chk.ob(rule, "%s|%s:%s#%d" % (name, kind, " ".join(fn.text(i).split())[:36], n), ok, loc=fn.loc(i),
                       detail="`%s` drops the upper bits of a 64-bit immediate that no comparison on this path has bounded: an out-of-range "
                              "immediate is silently reduced instead of refused" % " ".join(fn.text(i).split())[:60],
                       key="narrow|%s|%s|%s" % (name, kind, re.sub(r"\s+", "", fn.text(i))[:40]))
        for i, w, masked in ss:
            n += 1
            name = fn.name.split("::")[-1]
            st = m.before(i)
            if st is not None and ("ranged", w) in st:
                chk.ob(rule, "%s|%s" % (name, fn.text(i)[:40]), True, loc=fn.loc(i))
                continue
            # (b) round trip: find the variable the result is stored in
            par = fn.parent_map()
            p = par.get(i)
            hops = 0
            while p is not None and fn.e(p)["k"] in ("cast", "paren") and hops < 4:
                p = par.get(p)
                hops += 1
            v = None
            px = fn.e(p) if p is not None else None
            if px and px["k"] == "binop" and px["op"] == "=":
                l = fn.e(fn.strip(px["lhs"]))
                if l and l["k"] == "ref" and "did" in l:
                    v = l["did"]
            elif px and px["k"] == "decl":
                for var in px["vars"]:
                    if var.get("init") and i in set(fn.walk(var["init"])):
                        v = var["did"]
            ok = False
            why = "its result is not stored in a variable that could be compared back"
            if v is not None:
                pos = fn.block_of().get(i)

                def is_roundtrip(el, fn=fn, v=v, w=w):
                    x = fn.e(el)
                    if not x or x["k"] != "binop" or x["op"] not in ("==", "!="):
                        return False
                    sides = []
                    for s in (x["lhs"], x["rhs"]):
                        r = fn.e(fn.strip(s))
                        sides.append(r.get("did") if r and r["k"] == "ref" else None)
                    return set(sides) == {v, w}

                def transfer(b, st, fn=fn, i=i, is_roundtrip=is_roundtrip):
                    for el in fn.blocks[b]["elems"]:
                        if not isinstance(el, int):
                            continue
                        if el == i:
                            st = True
                        elif st and is_roundtrip(el):
                            st = False
                    return st
                IN, OUT = forward(fn, False, transfer, lambda ss_: any(ss_))
                bad = None
                for b, idx, r in fn.return_sites():
                    rx = fn.e(r)
                    succ = rx.get("cv") == 1 or rx.get("cvn") == "kOk"
                    if not succ:
                        continue
                    st2 = IN.get(b, False)
                    for el in fn.blocks[b]["elems"][:idx]:
                        if isinstance(el, int):
                            if el == i:
                                st2 = True
                            elif st2 and is_roundtrip(el):
                                st2 = False
                    if st2:
                        bad = r
                        break
                ok = bad is None and pos is not None
                if bad is not None:
                    why = "a path from the conversion reaches the success exit at line %d without comparing the narrowed value with the original" % fn.line_of(bad)
            chk.ob(rule, "%s|%s" % (name, fn.text(i)[:40]), ok, loc=fn.loc(i),
                   detail="`%s` truncates a 64-bit displacement: no range predicate over the variable dominates it and %s" % (fn.text(i)[:60], why),
                   key="narrow|%s|%s" % (name, re.sub(r"\s+", "", fn.text(i))[:40]))
    chk.floor(rule + ":conversions", n, floor)
    return n


def run_discard(chk, fns, helpers=None, rule="R-DISCARD-LSB-CHECKED", floor=3):
    """a displacement is shifted right by imm_discard_lsb() only after the discarded bits were tested to be zero"""
    chk.rule(rule, "every right shift of a displacement by the format's discarded-bit count (imm_discard_lsb(), directly or through a local) is "
                   "dominated by a test that `value & lsb_mask(<same count>)` is zero - in the function itself or in a bool helper it calls: a "
                   "displacement that is not a multiple of the instruction's scale is refused, never truncated")
    helpers = helpers or {}
    n = 0
    for fn in fns:
        # locals initialised from imm_discard_lsb()
        dl = set()
        for x in fn.ex.values():
            if x["k"] == "decl":
                for v in x["vars"]:
                    if v.get("init") and "imm_discard_lsb()" in fn.text(v["init"]):
                        dl.add(v["did"])

        def is_discard(e):
            y = fn.e(fn.strip(e))
            if y is None:
                return False
            if y["k"] == "ref" and y.get("did") in dl:
                return True
            return "imm_discard_lsb()" in fn.text(e)

        def mask_test(e):
            """is `e` of the form (X & lsb_mask(D)) with D the discard count?"""
            y = fn.e(e)
            while y and y["k"] in ("paren", "cast"):
                y = fn.e(y["sub"])
            if not (y and y["k"] == "binop" and y["op"] == "&"):
                return False
            for a in (y["lhs"], y["rhs"]):
                for j in fn.walk(a):
                    z = fn.e(j)
                    if z and z["k"] in ("call", "mcall") and z.get("cn") in ("lsb_mask", "bit_mask") and z.get("args") and is_discard(z["args"][0]):
                        return True
            return False

        def helper_tests(x):
            """call of a bool helper whose single return is `(p & lsb_mask(q)) == 0` with q bound to the discard count"""
            for k, g in helpers.items():
                if k.split("/")[0] != (x.get("callee") or ""):
                    continue
                rets = list(g.return_sites())
                if len(rets) != 1 or (g.raw.get("ret") or "") != "bool":
                    continue
                v = g.e(g.strip(g.e(rets[0][2]).get("val", 0)))
                if not (v and v["k"] == "binop" and v["op"] == "==" and g.e(g.strip(v["rhs"])) is not None and g.e(g.strip(v["rhs"])).get("cv") == 0):
                    continue
                t = g.text(v["lhs"])
                m = re.search(r"lsb_mask<[^>]*>\((\w+)\)", t)
                if not m:
                    continue
                for pi, p in enumerate(g.params):
                    if p["name"] == m.group(1) and pi < len(x.get("args", [])) and is_discard(x["args"][pi]):
                        return True
            return False

        def edge_fx(b, si, atom, holds):
            x = fn.e(atom)
            if x and x["k"] == "binop" and x["op"] in ("!=", "=="):
                z = fn.e(fn.strip(x["rhs"]))
                if z is not None and z.get("cv") == 0 and mask_test(x["lhs"]) and (x["op"] == "==") == holds:
                    return [("lsb-zero",)]
            if x and x["k"] == "call" and holds and helper_tests(x):
                return [("lsb-zero",)]
            return ()
        m = None
        for i, x in sorted(fn.ex.items()):
            if not (x["k"] == "binop" and x["op"] in (">>", ">>=") and is_discard(x["rhs"])):
                continue
            if m is None:
                m = Must(fn, None, edge_fx)
            n += 1
            st = m.before(i) or frozenset()
            chk.ob(rule, "%s|%s#%d" % (fn.name.split("::")[-1], " ".join(fn.text(i).split())[:44], n), ("lsb-zero",) in st, loc=fn.loc(i),
                   detail="`%s` discards low bits that no test on this path has shown to be zero: a misaligned displacement is silently rounded" % " ".join(fn.text(i).split())[:70],
                   key="discardlsb|%s|%d" % (fn.name.split("::")[-1], n))
    chk.floor(rule + ":shifts", n, floor)


# ---------------------------------------------------------------------------------------------------------------------------
def _has_label_offset(fn, e, tainted):
    for j in fn.walk(e):
        y = fn.e(j)
        if y is None:
            continue
        if y["k"] == "mcall" and y.get("cn") == "offset" and "LabelEntry" in (y.get("cls") or ""):
            return True
        if y["k"] == "ref" and y.get("did") in tainted:
            return True
    return False


def label_tainted(fn):
    """dids of the locals (any width) that receive a value computed from a bound label's offset()"""
    t = set()
    for _ in range(6):
        n0 = len(t)
        for i, x in fn.ex.items():
            if x["k"] == "decl":
                for v in x["vars"]:
                    if v.get("init") and _has_label_offset(fn, v["init"], t):
                        t.add(v["did"])
            elif x["k"] == "binop" and x["op"] in ("=", "+=", "-="):
                l = fn.e(fn.strip(x["lhs"]))
                if l and l["k"] == "ref" and l.get("dk") == "local" and _has_label_offset(fn, x["rhs"], t):
                    t.add(l["did"])
        if len(t) == n0:
            break
    return t


def run_label_delta(chk, fns, rule="R-LABEL-DELTA-NARROW", floor=3, helpers=None):
    chk.rule(rule, "a distance computed from a bound label's offset() (64 bits) reaches a narrower field only when it is known to fit: an explicit "
                   "cast to <= 32 bits of a label-derived 64-bit variable, and emit_value_le/be of one with a size that is not the constant 8, are "
                   "dominated by a range predicate over that variable (is_int_n / is_encodable_offset_* / constant comparison) on the passing "
                   "edge, or by Environment::is_32bit() (the instruction pointer wraps at 2^32, the low 32 bits are the exact displacement); a "
                   "cast applied directly to the label arithmetic has no variable to test and is refused, masked or not: CodeHolder::bind_label() "
                   "accepts any 64-bit offset, so a bound label can be farther than 2^31 away")
    n = 0
    if helpers is not None:
        HELPERS.clear()
        HELPERS.update(helpers)
        _SUMMARY.clear()
    for fn in fns:
        taint = label_tainted(fn)
        wide_t = set()
        m = None
        short = fn.name.replace("asmjit::", "")

        def mode32(atom, holds, fn=fn, taint=taint):
            # in 32-bit mode the instruction pointer wraps at 2^32: the low 32 bits of any distance are the exact displacement
            x = fn.e(atom)
            if x and x["k"] in ("call", "mcall") and x.get("cn") == "is_32bit" and holds:
                return [("ranged", d) for d in taint]
            if x and x["k"] == "call" and holds:
                # a unit-local bool helper that is handed is_32bit() as a flag: either the flag is true (see above) or the helper
                # answered true with the flag false
                g = _callee_fn(fn, x)
                if g is not None and g is not fn:
                    flags = set()
                    for pi, a in enumerate(x.get("args", [])):
                        ax = fn.e(fn.strip(a))
                        if ax is not None and ax["k"] in ("call", "mcall") and ax.get("cn") == "is_32bit" and pi < len(g.params):
                            flags.add(g.params[pi]["did"])
                    if flags:
                        out = []
                        for pi, kinds in helper_summary(g, assume_false=tuple(flags)).items():
                            if pi < len(x["args"]) and "ranged" in kinds:
                                w = _addr_of_wide(fn, x["args"][pi]) or wide_root(fn, x["args"][pi])
                                if w is not None:
                                    out.append(("ranged", w))
                        return out
            return ()

        def state(i):
            nonlocal m
            if m is None:
                m = analysis(fn, extra_edge=mode32)
            return m.before(i) or frozenset()
        k = 0
        for i, x in sorted(fn.ex.items()):
            if x["k"] == "cast" and x.get("ck") in ("functional", "static", "cstyle", "c"):
                db = bits_of(x.get("ty"))
                if not db or db >= 64:
                    continue
                sub = x["sub"]
                s = fn.e(sub)
                while s and s["k"] == "paren":
                    sub = s["sub"]
                    s = fn.e(sub)
                if not s or (bits_of(s.get("ty")) or 0) < 64:
                    continue
                w = wide_root(fn, sub)
                masked_var = None
                if w is None and s["k"] == "binop" and s["op"] == "&":
                    for a, b in ((s["lhs"], s["rhs"]), (s["rhs"], s["lhs"])):
                        if wide_root(fn, a) is not None:
                            masked_var = wide_root(fn, a)
                            mk = fn.e(fn.strip(b))
                            break
                if w is not None or masked_var is not None:
                    wv = w if w is not None else masked_var
                    if wv not in taint:
                        continue
                    n += 1
                    ok = ("ranged", wv) in state(i)
                    chk.ob(rule, "%s|cast#%d" % (short, k), ok, loc=fn.loc(i),
                           detail="`%s` narrows a label distance to %d bits without a dominating range test of the variable: a distance that "
                                  "does not fit is silently truncated" % (" ".join(fn.text(i).split())[:60], db), key="labelnarrow|%s|%d" % (short, k))
                    k += 1
                    continue
                direct = any((fn.e(j) or {}).get("k") == "mcall" and fn.e(j).get("cn") == "offset" and "LabelEntry" in (fn.e(j).get("cls") or "") for j in fn.walk(sub))
                if not direct:
                    continue
                n += 1
                modular = False
                if s["k"] == "binop" and s["op"] == "&":
                    for b in (s["rhs"], s["lhs"]):
                        mk = fn.e(fn.strip(b))
                        cv = mk.get("cv") if mk else None
                        if isinstance(cv, str) and cv.isdigit():
                            cv = int(cv)
                        if cv == (1 << db) - 1 and db == 32:
                            modular = True
                chk.ob(rule, "%s|cast#%d" % (short, k), False, loc=fn.loc(i),
                       detail="`%s` narrows label arithmetic to %d bits in place%s: there is no range test (and no variable one could apply to), "
                              "so a distance that does not fit wraps silently - a label can be bound at any 64-bit offset (CodeHolder::bind_label)" %
                              (" ".join(fn.text(i).split())[:70], db, " (modulo 2^32)" if modular else ""),
                       key="labelnarrow|%s|%d" % (short, k))
                k += 1
            elif x["k"] == "mcall" and x.get("cn") in ("emit_value_le", "emit_value_be") and len(x.get("args", [])) == 2:
                v, sz = x["args"]
                if not _has_label_offset(fn, v, taint):
                    continue
                szx = fn.e(fn.strip(sz))
                if szx is not None and szx.get("cv") == 8:
                    continue
                n += 1
                w = wide_root(fn, v)
                ok = w is not None and ("ranged", w) in state(i)
                chk.ob(rule, "%s|emit_value#%d" % (short, k), ok, loc=fn.loc(i),
                       detail="`%s` writes a label distance with a run-time size and no dominating range test: with a 1/2/4-byte size a larger "
                              "distance is silently truncated" % " ".join(fn.text(i).split())[:60], key="labelnarrow|%s|%d" % (short, k))
                k += 1
    chk.floor(rule + ":sinks", n, floor)
