"""R-NEW-SECTION-AT-END (C08): a section that is entered for the first time starts behind everything recorded so far.

BaseBuilder::section() links the node of a not yet active section after `last_node()` - not at the cursor: the cursor may have been
moved into the middle of another section (set_cursor), and a section node linked there would silently take over every node that
follows it up to the next section node, so the serialised sections differ from what the Assembler produces for the same calls.

Rule: every call in BaseBuilder::section() that links a node into the list is `add_after(node, R)` with R = last_node() /
_node_list.last()."""
from . import cfg

LINKERS = ("add_node", "add_after", "add_before")


def run(chk, unit="asmjit/core/builder.cpp", rule="R-NEW-SECTION-AT-END"):
    chk.rule(rule, "BaseBuilder::section(): the only call that links a node is add_after(<section node>, last_node()): a section entered for the "
                   "first time is appended to the end of the node list, independent of the cursor")
    f = chk.facts(unit, funcs=r"asmjit::BaseBuilder::section$")
    fns = [g for g in cfg.load_functions(f) if g.file.endswith(unit.split("/")[-1])]
    chk.need(fns, "BaseBuilder::section not found")
    fn = fns[0]
    n = 0
    for i, x in sorted(fn.calls(lambda x: x.get("cn") in LINKERS)):
        n += 1
        ok = False
        if x["cn"] == "add_after" and len(x.get("args", [])) == 2:
            r = fn.e(fn.strip(x["args"][1]))
            ok = r is not None and r["k"] in ("mcall", "call") and r.get("cn") in ("last_node", "last")
        chk.ob(rule, "BaseBuilder::section|%s@%d" % (x["cn"], fn.line_of(i) - fn.line), ok, loc=fn.loc(i),
               detail="`%s` links the node of a section that was not yet part of the list relative to the cursor: after set_cursor() into the "
                      "middle of another section every node behind the cursor changes section" % " ".join(fn.text(i).split())[:60],
               key="sectionend|%s" % x["cn"])
    chk.floor(rule + ":links", n, 1)
    return n
