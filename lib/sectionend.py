"""R-NEW-SECTION-AT-END (C08): a section that is entered for the first time starts behind everything recorded so far.

BaseBuilder::section() links the node of a not yet active section after `last_node()` - not at the cursor: the cursor may have been
moved into the middle of another section (set_cursor), and a section node linked there would silently take over every node that
follows it up to the next section node, so the serialised sections differ from what the Assembler produces for the same calls.

Rule: every call in BaseBuilder::section() that links a node into the list is `add_after(node, R)` with R = last_node() /
_node_list.last()."""
from . import cfg

LINKERS = ("add_node", "add_after", "add_before")


def run(chk, unit="asmjit/core/builder.cpp", rule="R-NEW-SECTION-AT-END"):
    chk.rule(rule, "BaseBuilder::section(): the only call that links a node is add_after(<section node>, last_node()): a section entered for the "
                   "first time is appended to the end of the node list, independent of the cursor")
    f = chk.facts(unit, funcs=r"asmjit::BaseBuilder::section$")
    fns = [g for g in cfg.load_functions(f) if g.file.endswith(unit.split("/")[-1])]
    chk.need(fns, "BaseBuilder::section not found")
    fn = fns[0]
    n = 0
    for i, x in sorted(fn.calls(lambda x: x.get("cn") in LINKERS)):
        n += 1
        ok = False
        if x["cn"] == "add_after" and len(x.get("args", [])) == 2:
            r = fn.e(fn.strip(x["args"][1]))
            ok = r is not None and r["k"] in ("mcall", "call") and r.get("cn") in ("last_node", "last")
        chk.ob(rule, "BaseBuilder::section|%s@%d" % (x["cn"], fn.line_of(i) - fn.line), ok, loc=fn.loc(i),
               detail="`%s` links the node of a section that was not yet part of the list relative to the cursor: after set_cursor() into the "
                      "middle of another section every node behind the cursor changes section" % " ".join(fn.text(i).split())[:60],
               key="sectionend|%s" % x["cn"])
    chk.floor(rule + ":links", n, 1)
    return n


def run_identity(chk, rule="R-SECTION-IDENTITY-CHECKED"):
    """both emitters refuse a Section object that is not the holder's section of that id"""
    chk.rule(rule, "BaseAssembler::section(Section*) and BaseBuilder::section(Section*): the function compares the attached CodeHolder's section of "
                   "the parameter's id with the parameter itself (a `==` / `!=` with the parameter on one side) and the mismatch leaves through a "
                   "failing return: a Section of another CodeHolder whose id happens to be valid here is refused by both, not only by the "
                   "Assembler")
    n = 0
    for unit, pat in (("asmjit/core/assembler.cpp", r"asmjit::BaseAssembler::section$"), ("asmjit/core/builder.cpp", r"asmjit::BaseBuilder::section$")):
        f = chk.facts(unit, funcs=pat)
        fns = [g for g in cfg.load_functions(f) if g.file.endswith(unit.split("/")[-1])]
        chk.need(fns, "%s not found" % pat)
        fn = fns[0]
        parm = fn.params[0]["did"]
        found = None
        for i, x in fn.ex.items():
            if x["k"] == "binop" and x["op"] in ("==", "!="):
                for u, w in ((x["lhs"], x["rhs"]), (x["rhs"], x["lhs"])):
                    ux = fn.e(fn.strip(u))
                    if ux is not None and ux["k"] == "ref" and ux.get("did") == parm and "section" in fn.text(w).lower():
                        found = i
        n += 1
        chk.ob(rule, fn.name.replace("asmjit::", ""), found is not None, loc=fn.loc(found) if found is not None else "%s:%d" % (unit, fn.line),
               detail="%s uses the parameter's section id without ever comparing the holder's section of that id with the parameter: a Section "
                      "object of another CodeHolder is accepted and the code goes into this holder's section with the same id" %
                      fn.name.replace("asmjit::", ""), key="sectionidentity|%s" % fn.name.split("::")[-2])
    chk.floor(rule + ":functions", n, 2)
    return n
