"""R-FREE-ESCAPE: in a function that frees a block, no heap lvalue (member reached through a pointer)
may still hold the freed pointer when the function returns.  Pointer equalities are tracked as a
must-analysis (`L = v` makes L and v equal until one of them is reassigned); a free(p) marks every heap
lvalue known to equal p as dangling (may-analysis); an assignment to the lvalue clears it."""
from .cfg import forward

FREE = {"free", "Arena_free"}


def analyse(fn):
    """Returns list of (heap lvalue path, free call id, return id)."""
    def is_heap(p):
        return p is not None and ("." in p) and not p.startswith("this.") or (p is not None and p.startswith("this."))

    reports = {}

    def lv(eid):
        return fn.access_path(eid)

    def step(el, st, report):
        eq, dang = st
        x = fn.e(el)
        if not x:
            return st
        if x["k"] == "decl":
            eq = set(eq)
            for v in x["vars"]:
                eq = {c for c in eq if v["name"] not in c}
                if v.get("init"):
                    p = lv(v["init"])
                    if p:
                        eq.add(frozenset((v["name"], p)))
            return (frozenset(eq), dang)
        if x["k"] == "binop" and x["op"] == "=":
            l, r = lv(x["lhs"]), lv(x["rhs"])
            if l:
                # lvalues whose path goes through `l` change meaning as well (next = next->next invalidates next.next)
                eq2 = set()
                for c in eq:
                    c2 = frozenset(m for m in c if m != l and not m.startswith(l + "."))
                    if len(c2) >= 2:
                        eq2.add(c2)
                # equalities that mention the *old* value of l survive among the remaining members; add the new one
                if r and r != l and not r.startswith(l + "."):
                    merged = {l, r}
                    for c in list(eq2):
                        if r in c:
                            merged |= c
                            eq2.discard(c)
                    eq2.add(frozenset(merged))
                elif r and r.startswith(l + "."):
                    pass
                dang = frozenset(d for d in dang if d[0] != l)
                return (frozenset(eq2), dang)
        if x["k"] in ("call", "mcall") and x.get("cn") in FREE and x.get("args"):
            p = lv(x["args"][0])
            if p:
                newd = set(dang)
                for c in eq:
                    if p in c:
                        for m in c:
                            if m != p and "." in m:
                                newd.add((m, el))
                return (eq, frozenset(newd))
        if x["k"] == "return" and report:
            for d in dang:
                reports.setdefault(d, el)
        return st

    def transfer(b, st):
        for el in fn.blocks[b]["elems"]:
            if isinstance(el, int):
                st = step(el, st, False)
        return st

    def join(states):
        eq = set(states[0][0])
        dang = set(states[0][1])
        for s in states[1:]:
            # must-equalities: keep pairs known on all paths
            eq = {c & d for c in eq for d in s[0] if len(c & d) >= 2}
            dang |= s[1]
        return (frozenset(eq), frozenset(dang))
    IN, OUT = forward(fn, (frozenset(), frozenset()), transfer, join)
    for b in fn.blocks:
        if b in IN:
            st = IN[b]
            for el in fn.blocks[b]["elems"]:
                if isinstance(el, int):
                    st = step(el, st, True)
    return [(d[0], d[1], r) for d, r in reports.items()]
