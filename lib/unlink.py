"""R-UNLINK-COVERS-LINKED (C15, C16): the register allocator's clean-up unlinks every VirtReg it linked.

BaseRAPass::_as_work_reg() links a VirtReg to a RAWorkReg that lives in the pass arena (set_work_reg) and records the work register
in a container on the same path.  The clean-up that runs after every function - successful or not - walks a container and clears the
link.  Rule: the container member the clean-up loop iterates is the member the linking site appends to (accessor calls are resolved
through their single return expression); a container that is filled by a later step misses every register linked before a failure."""
import re
from . import cfg

UNIT = "asmjit/core/rapass.cpp"


def member_of(fn, eid, fns, depth=0):
    """name of the `this`/object member an expression denotes (through subscripts, local references and accessor calls)"""
    x = fn.e(fn.strip(eid))
    for _ in range(8):
        if x is None:
            return None
        if x["k"] == "subscript":
            x = fn.e(fn.strip(x["base"]))
            continue
        if x["k"] == "opcall" and x.get("op") in ("[]", "subscript"):
            x = fn.e(fn.strip(x["obj"] if x.get("obj") is not None else x["args"][0]))
            continue
        if x["k"] == "member":
            return x.get("field")
        if x["k"] == "ref" and x.get("dk") == "local":
            for i, y in fn.ex.items():
                if y["k"] == "decl":
                    for v in y["vars"]:
                        if v["did"] == x["did"] and v.get("init"):
                            return member_of(fn, v["init"], fns, depth + 1)
            return None
        if x["k"] == "mcall" and depth < 4:
            for g in fns.get(x.get("callee"), []):
                if len(g.params) != len(x.get("args", [])):
                    continue
                rets = list(g.return_sites())
                if len(rets) == 1 and g.e(rets[0][2]).get("val"):
                    m = member_of(g, g.e(rets[0][2])["val"], fns, depth + 1)
                    if m:
                        return m
            return None
        return None
    return None


def run(chk):
    R = "R-UNLINK-COVERS-LINKED"
    chk.rule(R, "register allocator: the clean-up loop that clears VirtReg::_work_reg iterates the container member to which _as_work_reg() "
                "appends the work register right where it links it (set_work_reg): a container filled by a later step would leave the links of "
                "a failed run dangling into the arena that is reset afterwards")
    f = chk.facts(UNIT, funcs=r"asmjit::[A-Za-z_0-9:]+$")
    fns = {}
    for fo in f["functions"]:
        fn = cfg.Fn(fo)
        fns.setdefault(fn.name, []).append(fn)
    link_members = set()
    n_link = 0
    for lst in fns.values():
        for fn in lst:
            if not fn.file.endswith("rapass.cpp"):
                continue
            for i, x in fn.calls(lambda x: x["k"] == "mcall" and x.get("cn") == "set_work_reg" and x.get("args")):
                a = fn.e(fn.strip(x["args"][0]))
                if a is None or a["k"] != "ref":
                    continue
                n_link += 1
                for j, y in fn.calls(lambda y: y["k"] == "mcall" and re.match(r"append(_unchecked)?$", y.get("cn") or "") and y.get("args")):
                    b = fn.e(fn.strip(y["args"][0]))
                    if b is not None and b["k"] == "ref" and b.get("did") == a.get("did"):
                        m = member_of(fn, y["obj"], fns)
                        if m:
                            link_members.add(m)
    chk.need(n_link >= 1 and link_members, "no set_work_reg() site with a container append found in rapass.cpp")
    n = 0
    for lst in fns.values():
        for fn in lst:
            if not fn.file.endswith("rapass.cpp"):
                continue
            clears = [i for i, x in fn.ex.items() if (x["k"] == "binop" and x["op"] == "=" and re.search(r"(->|\.)_work_reg$", re.sub(r"\s+", "", fn.text(x["lhs"]))) and
                                                     (fn.e(fn.strip(x["rhs"])) or {}).get("k") == "null") or
                      (x["k"] == "mcall" and x.get("cn") == "reset_work_reg")]
            if not clears:
                continue
            loops = [x for x in fn.ex.values() if x["k"] == "s:CXXForRangeStmt"]
            iterated = set()
            for lp in loops:
                for c in lp.get("ch", []):
                    cx = fn.e(c)
                    if cx is not None and cx["k"] == "decl":
                        for v in cx["vars"]:
                            if v["name"].startswith("__range") and v.get("init"):
                                m = member_of(fn, v["init"], fns)
                                if m:
                                    iterated.add(m)
            n += 1
            chk.ob(R, "%s|unlink" % fn.name.replace("asmjit::", ""), bool(iterated & link_members), loc=fn.loc(clears[0]),
                   detail="the clean-up walks %s but work registers are linked where they are appended to %s: registers linked before a failing "
                          "step keep VirtReg::_work_reg pointing into the reset arena" % (sorted(iterated) or "(no member container)", sorted(link_members)),
                   key="unlink|" + fn.name.replace("asmjit::", ""))
    chk.floor(R + ":cleanups", n, 1)


def run_pass_data(chk):
    R = "R-PASS-DATA-CLEARED"
    chk.rule(R, "register allocator: nodes are given pointers into the pass arena with set_pass_data(); BaseRAPass::run_on_function() - whose "
                "clean-up runs whatever the outcome - unconditionally calls a function that walks the nodes and calls reset_pass_data() "
                "unconditionally for each: no node keeps a pointer into the arena that is reset when the pass returns")
    f = chk.facts(UNIT, funcs=r"asmjit::[A-Za-z_0-9:]+$")
    fns = [cfg.Fn(fo) for fo in f["functions"]]
    links = sum(1 for g in fns for i, x in g.calls(lambda x: x.get("cn") == "set_pass_data"))
    chk.need(links >= 2, "no set_pass_data() sites found in the register allocator")
    roots = [g for g in fns if g.name.endswith("BaseRAPass::run_on_function")]
    chk.need(len(roots) == 1, "BaseRAPass::run_on_function not found")
    root = roots[0]

    def unconditional(g, eid):
        par = g.parent_map()
        j = eid
        while j in par:
            j = par[j]
            k = (g.e(j) or {}).get("k", "")
            if k in ("s:IfStmt", "s:SwitchStmt", "cond"):
                return False
        return True
    ok = False
    where = "%s:%d" % (UNIT, root.line)
    for i, x in root.calls():
        for g in fns:
            if g.name == x.get("callee") and g is not root and g.file.endswith("rapass.cpp"):
                resets = [j for j, y in g.calls(lambda y: y.get("cn") == "reset_pass_data")]
                loops = [y for y in g.ex.values() if y["k"] in ("s:ForStmt", "s:WhileStmt", "s:DoStmt", "s:CXXForRangeStmt")]
                if resets and loops and all(unconditional(g, j) for j in resets) and unconditional(root, i):
                    ok = True
                    where = root.loc(i)
    chk.ob(R, "BaseRAPass::run_on_function|reset_pass_data", ok, loc=where,
           detail="run_on_function() has no unconditional clean-up that resets the pass data of every node of the function (%d set_pass_data() sites "
                  "store pointers into the pass arena)" % links, key="passdata|run_on_function")
