"""R-ARENA-RESET-EVERY-PATH (C18): Arena::reset() leaves through no path that skipped the release of the dynamic blocks.

reset() "invalidates all blocks"; the destructor relies on reset(kHard).  Besides the managed blocks the arena owns dynamic blocks
(`_dynamic_blocks`, allocations above the reusable-slot limit) and the reusable slots that point into its blocks.  At every return of
Arena::reset() the member `_dynamic_blocks` has been assigned and `_reusable_slots` has been cleared (must-analysis over the CFG; an
early return for "nothing to do" in one part of the function skips the other parts: 10 x 1 MB stayed allocated after ~Arena())."""
from . import cfg
from .must import Must


def run(chk, unit="asmjit/support/arena.cpp", rule="R-ARENA-RESET-EVERY-PATH"):
    chk.rule(rule, "Arena::reset: at every exit of the function `_dynamic_blocks` was assigned and `_reusable_slots` was cleared "
                   "(memset / assignment) on every path")
    f = chk.facts(unit, funcs=r"asmjit::Arena::reset$")
    fn = cfg.find_fn(f, "Arena::reset")

    def is_member(e, name):
        for c in fn.walk(e):
            y = fn.e(c)
            if y is not None and y["k"] == "member" and y.get("this") and y.get("field") == name:
                return True
        return False

    def elem_fx(eid, x):
        adds = []
        if x["k"] == "binop" and x["op"] == "=":
            for fld in ("_dynamic_blocks", "_reusable_slots"):
                l = fn.e(fn.strip(x["lhs"]))
                if l is not None and l["k"] == "member" and l.get("this") and l.get("field") == fld:
                    adds.append((fld,))
        if x["k"] in ("call", "mcall") and x.get("cn") in ("memset", "__builtin_memset", "fill") and x.get("args"):
            for fld in ("_dynamic_blocks", "_reusable_slots"):
                if is_member(x["args"][0], fld) or (x.get("obj") is not None and is_member(x["obj"], fld)):
                    adds.append((fld,))
        return (tuple(adds), ()) if adds else None
    m = Must(fn, elem_fx, None)
    n = 0
    for p in fn.preds[fn.exit]:
        st = m.at_block_end(p) or frozenset()
        n += 1
        line = fn.line
        for el in reversed(fn.blocks[p]["elems"]):
            if isinstance(el, int):
                line = fn.line_of(el)
                break
        for fld in ("_dynamic_blocks", "_reusable_slots"):
            chk.ob(rule, "Arena::reset|exit#%d|%s" % (n, fld), (fld,) in st, loc="%s:%d" % (unit, line),
                   detail="Arena::reset() can return (line %d) without having reset `%s`: the dynamic blocks of the earlier use stay referenced "
                          "(and are leaked by the destructor) when the arena holds no managed block" % (line, fld), key="arenareset|%s" % fld)
    chk.floor(rule + ":exits", n, 1)
    return n
