"""R-TEMP-SETTING-RESTORED (C16): a library function that temporarily replaces an emitter's error handler / logger puts back exactly
what was there - including *whose* it was.

BaseEmitter::set_error_handler(p) / set_logger(p) with non-null p marks the setting as the emitter's own (kOwnErrorHandler /
kOwnLogger): from then on the emitter stops following the CodeHolder's setting and keeps the pointer across detach().  The getters
error_handler() / logger() return the *effective* setting - own or inherited.  So `prev = error_handler(); ...;
set_error_handler(prev)` converts an inherited handler into an own one, and the emitter keeps referencing the first holder's
handler after it is attached elsewhere.

For every call of BaseEmitter::set_error_handler / set_logger inside the library:
  (a) an argument that is the address of a local object (a temporary replacement) is followed, on every path to every exit of the
      function, by another call of the same setter (the replacement never outlives the function);
  (b) an argument that is a local initialised from the effective getter must have been taken with the ownership in view: its
      initialiser, or the condition guarding the restoring call, reads has_own_error_handler() / has_own_logger() / the kOwn* flag."""
from . import cfg
from .must import Must

SETTERS = {"set_error_handler": ("error_handler", "_error_handler", ("has_own_error_handler", "kOwnErrorHandler")),
           "set_logger": ("logger", "_logger", ("has_own_logger", "kOwnLogger"))}
UNITS = ["asmjit/core/builder.cpp", "asmjit/core/compiler.cpp", "asmjit/core/assembler.cpp", "asmjit/core/emitter.cpp", "asmjit/core/rapass.cpp",
         "asmjit/core/emitterutils.cpp", "asmjit/core/codeholder.cpp", "asmjit/x86/x86compiler.cpp", "asmjit/arm/a64compiler.cpp",
         "asmjit/x86/x86builder.cpp", "asmjit/arm/a64builder.cpp"]


def run(chk, floor=2):
    R = "R-TEMP-SETTING-RESTORED"
    chk.rule(R, "every library-internal call of BaseEmitter::set_error_handler / set_logger: a temporary replacement (address of a local) is "
                "followed by another call of the setter on every path to every exit; a value that is put back was saved knowing whether it was "
                "the emitter's own or inherited from the CodeHolder (has_own_error_handler() / has_own_logger() is read where it is saved or "
                "restored) - restoring the effective getter's value unconditionally turns an inherited handler into an own one that survives "
                "detach()")
    n = 0
    for u in UNITS:
        f = chk.facts(u, funcs=r"asmjit::.*")
        for fn in cfg.load_functions(f):
            if not fn.file.endswith(u.split("/")[-1]):
                continue
            calls = [(i, x) for i, x in fn.calls(lambda x: x.get("cn") in SETTERS and (x.get("callee") or "").startswith("asmjit::BaseEmitter::") and x.get("args"))]
            if not calls or fn.name.split("::")[-1] in SETTERS:
                continue
            short = fn.name.replace("asmjit::", "")
            inits = {}
            for i, x in fn.ex.items():
                if x["k"] == "decl":
                    for v in x["vars"]:
                        if v.get("init") is not None:
                            inits[v["did"]] = v["init"]
            for i, x in calls:
                getter, field, own = SETTERS[x["cn"]]
                a = fn.e(fn.strip(x["args"][0]))
                if a is None:
                    continue
                n += 1
                inst = "%s|%s@%d" % (short, x["cn"], fn.line_of(i) - fn.line)
                if a["k"] == "unop" and a["op"] == "&":
                    # (a) temporary replacement: another setter call on every path to every exit
                    def elem(eid, y, i=i, cn=x["cn"]):
                        if eid == i:
                            return ((), (("restored",),))
                        if y["k"] in ("mcall", "call") and y.get("cn") == cn and eid != i:
                            return ((("restored",),), ())
                        return None
                    m = Must(fn, elem, None)
                    pos = fn.block_of()
                    reach = fn.reachable_from(pos[i][0]) if i in pos else set()
                    bad = None
                    for b, idx, r in fn.return_sites():
                        if b in reach or (i in pos and b == pos[i][0]):
                            if ("restored",) not in (m.before(r) or frozenset()):
                                bad = r
                    chk.ob(R, inst, bad is None, loc=fn.loc(i),
                           detail="`%s` installs the address of a local object; the return at line %s is reached without another %s(): the emitter "
                                  "keeps a pointer to a dead object" % (" ".join(fn.text(i).split())[:50], fn.line_of(bad) if bad else "", x["cn"]),
                           key="tempsetting|%s|%s|temp" % (short, x["cn"]))
                    continue
                if a["k"] == "ref" and a.get("dk") == "local" and a.get("did") in inits:
                    src = inits[a["did"]]
                    reads_effective = any(((fn.e(j) or {}).get("k") == "mcall" and fn.e(j).get("cn") == getter) or
                                          ((fn.e(j) or {}).get("k") == "member" and fn.e(j).get("field") == field) for j in fn.walk(src))
                    if not reads_effective:
                        chk.ob(R, inst, True, loc=fn.loc(i))
                        continue
                    aware = any(t in fn.text(src) for t in own)
                    if not aware:
                        # ... or the restoring call is control dependent on a test of the ownership
                        for b in fn.blocks.values():
                            t = b.get("term")
                            if t and t.get("cond") is not None and any(w in fn.text(t["cond"]) for w in own):
                                aware = True
                    chk.ob(R, inst, aware, loc=fn.loc(i),
                           detail="`%s` puts back what %s() returned - the effective setting, own or inherited - without looking at %s(): a "
                                  "handler inherited from the CodeHolder becomes the emitter's own (k%s set), is no longer updated with the holder "
                                  "and survives detach()" % (" ".join(fn.text(i).split())[:50], getter, own[0], own[1][1:]),
                           key="tempsetting|%s|%s|restore" % (short, x["cn"]))
                    continue
                chk.ob(R, inst, True, loc=fn.loc(i))
    chk.floor(R + ":setter-calls", n, floor)
    return n
