"""R-VEC-BY-SIZE-EXACT (C06): the register type chosen for "a vector of N bytes" is the vector type of N bytes.

RegUtils::signature_of_vec_by_size(size) is what the argument shuffler uses to re-type the source and destination registers of a
vector move / conversion.  The mapping is a pure expression of `size` (bit tricks + ctz); it is folded here from the dumped expression
tree (lib/exprfold.py, nothing is executed) for every power of two from 4 to 64 and compared with the RegType whose operand size - read
from the RegTraits table of the same header - is that number of bytes.  A full-width argument that is re-typed to a narrower
register is moved with a narrower instruction and loses its upper lanes."""
from . import cfg
from .exprfold import Folder, Unknown


def run(chk, unit="asmjit/x86/x86emithelper.cpp", rule="R-VEC-BY-SIZE-EXACT"):
    chk.rule(rule, "RegUtils::signature_of_vec_by_size(size), folded symbolically for size = 4, 8, 16, 32, 64, yields RegType::kVec32 .. kVec512 "
                   "respectively (the vector register type of exactly that many bytes, per the RegType enumeration); no size makes the argument "
                   "of ctz() zero")
    f = chk.facts(unit, funcs=r"RegUtils::signature_of_vec_by_size$", enums=r"asmjit::RegType$")
    fns = cfg.load_functions(f)
    chk.need(fns, "RegUtils::signature_of_vec_by_size not found")
    fn = fns[0]
    en = None
    for k, v in (f.get("enums") or {}).items():
        if k.endswith("RegType"):
            en = v
    chk.need(en is not None, "enum RegType not found")
    vals = {nm: v for nm, v in en["enumerators"]}
    chk.need("kVec128" in vals, "RegType enumerators not found")
    init = None
    for i, x in fn.ex.items():
        if x["k"] == "decl":
            for v in x["vars"]:
                if v.get("init") is not None and "RegType" in (v.get("ty") or ""):
                    init = v["init"]
    if init is None:
        # single return expression form
        rets = list(fn.return_sites())
        chk.need(len(rets) == 1, "signature_of_vec_by_size: shape not recognised")
        rv = fn.e(fn.strip(fn.e(rets[0][2])["val"]))
        chk.need(rv is not None and rv.get("args"), "signature_of_vec_by_size: shape not recognised")
        init = rv["args"][0]
    parm = fn.params[0]["did"]
    n = 0
    for size, want in ((4, "kVec32"), (8, "kVec64"), (16, "kVec128"), (32, "kVec256"), (64, "kVec512")):
        zero_ctz = []

        def leaf(text, node, size=size):
            if node["k"] == "ref" and node.get("did") == parm:
                return size
            if node["k"] in ("call", "mcall") and node.get("cn") == "ctz" and node.get("args"):
                a = folder.fold(fn, node["args"][0])
                if a == 0:
                    zero_ctz.append(True)
                    return 32
                return (a & -a).bit_length() - 1
            if isinstance(node.get("cv"), int):
                return node["cv"]
            raise Unknown()
        folder = Folder({}, leaf, width=32)
        try:
            got = folder.fold(fn, init)
        except Unknown:
            got = None
        n += 1
        chk.ob(rule, "signature_of_vec_by_size|%d" % size, got == vals[want] and not zero_ctz, loc="%s:%d" % (fn.file.replace("/repo/", ""), fn.line),
               detail="for size = %d the expression `%s` folds to RegType %s%s, the %d-byte vector type is RegType::%s = %d: a %d-byte argument "
                      "is re-typed to another register width and moved / converted with the wrong instruction" %
                      (size, " ".join(fn.text(init).split())[:80], got, " (ctz of 0 - undefined)" if zero_ctz else "", size, want, vals[want], size),
               key="vecbysize|%d" % size)
    chk.floor(rule + ":sizes", n, 5)
