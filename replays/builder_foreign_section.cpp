// C08/C14 replay: BaseBuilder::section(Section*) validates only the section's id. A Section that belongs to ANOTHER CodeHolder but has
// an id that is valid here is accepted (kOk) and the following nodes are serialised into this holder's section of that id; the
// Assembler refuses the same call with kInvalidSection.
// g++ -std=c++17 -I/repo builder_foreign_section.cpp -o t -L/repo/_build -lasmjit -Wl,-rpath,/repo/_build && ./t
#include <asmjit/x86.h>
#include <cstdio>
using namespace asmjit;
int main() {
  CodeHolder other; other.init(Environment(Arch::kX64));
  Section* foreign = nullptr; other.new_section(Out(foreign), ".foreign", SIZE_MAX, SectionFlags::kNone, 1);
  CodeHolder code; code.init(Environment(Arch::kX64));
  Section* own = nullptr; code.new_section(Out(own), ".data", SIZE_MAX, SectionFlags::kNone, 1);
  x86::Assembler a(&code);
  Error ea = a.section(foreign);
  CodeHolder code2; code2.init(Environment(Arch::kX64));
  Section* own2 = nullptr; code2.new_section(Out(own2), ".data", SIZE_MAX, SectionFlags::kNone, 1);
  x86::Builder b(&code2);
  Error eb = b.section(foreign);
  printf("section(<section of another holder, id %u>): assembler=%u builder=%u\n", foreign->section_id(), unsigned(ea), unsigned(eb));
  bool ok = ea != Error::kOk && eb != Error::kOk && b.section(own2) == Error::kOk;
  printf("%s\n", ok ? "PASS" : "FAIL: the Builder accepted a section that is not one of its holder's");
  return ok ? 0 : 1;
}
