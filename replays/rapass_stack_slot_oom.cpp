// BASELINE 2: BaseRAPass::work_reg_as_mem() ignores a failed stack-slot allocation.
//   - one failing allocation: finalize() returns kOk although an allocation failed, and the code differs from the
//     code of a failure-free run (the slot is created by a later access, in a different order);
//   - the allocation keeps failing (only this size): the spilled register never gets a slot and rewrite()
//     dereferences a null RAStackSlot (x86rapass.cpp: `int32_t offset = slot->offset();`).
#include "inject.h"
#include <asmjit/x86.h>
#include <stdio.h>
#include <vector>

using namespace asmjit;

static void build(x86::Compiler& cc, int nregs) {
  FuncNode* f = cc.add_func(FuncSignature::build<int, int, int*>());
  x86::Gp a = cc.new_gp32("a");
  x86::Gp p = cc.new_gp_ptr("p");
  std::vector<x86::Gp> v(nregs);
  f->set_arg(0, a);
  f->set_arg(1, p);
  for (int i = 0; i < nregs; i++) { v[i] = cc.new_gp32("v%d", i); cc.mov(v[i], x86::dword_ptr(p, i * 4)); }
  Label L1 = cc.new_label();
  cc.bind(L1);
  for (int i = 0; i < nregs; i++) cc.add(a, v[i]);
  cc.cmp(a, 100);
  cc.jl(L1);
  for (int i = 0; i < nregs; i++) cc.xor_(a, v[i]);
  cc.ret(a);
  cc.end_func();
}

static std::vector<uint8_t> bytes_of(CodeHolder& code) {
  std::vector<uint8_t> out;
  code.flatten();
  code.resolve_cross_section_fixups();
  out.resize(code.code_size());
  code.copy_flattened_data(out.data(), out.size(), CopySectionFlags::kPadSectionBuffer);
  return out;
}

int main() {
  setvbuf(stdout, nullptr, _IONBF, 0);
  install_segv_handler();
  Environment env(Arch::kX64);
  const int nregs = 1000;   // ~1000 spilled registers -> the vector of stack slots grows by direct malloc()

  std::vector<uint8_t> ref;
  long calls = 0;
  {
    CodeHolder code; code.init(env);
    x86::Compiler cc(&code);
    build(cc, nregs);
    long c0 = g_calls;
    if (cc.finalize() != Error::kOk) { printf("reference run failed\n"); return 2; }
    calls = g_calls - c0;
    ref = bytes_of(code);
  }

  int bad = 0;
  static char where[128];
  for (int sticky = 0; sticky <= 1; sticky++) {
    for (long n = 0; n < calls; n++) {
      CodeHolder code; code.init(env);
      x86::Compiler cc(&code);
      build(cc, nregs);

      snprintf(where, sizeof(where), "finalize(), allocation #%ld of finalize() fails %s", n, sticky ? "and so does every later one of that size" : "once");
      g_where = where;
      g_countdown = n; g_sticky = sticky;
      Error err = cc.finalize();
      g_countdown = -1; g_sticky = 0; g_fail_size = 0;

      if (err == Error::kOk && bytes_of(code) != ref) {
        printf("%s: finalize() returned Ok but the code differs from the failure-free run\n", where);
        bad++;
      }
    }
  }
  printf(bad ? "FAILED\n" : "OK\n");
  return bad ? 1 : 0;
}
