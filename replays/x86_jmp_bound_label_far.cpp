// C03 replay: x86-64 jmp/jcc/call to a label that is already bound in the current section mask the 64-bit distance to 32 bits without
// a range test (and then even pick the rel8 form from the wrapped value). A label bound 4 GiB + 16 bytes away gives `EB 0E`.
// The not-yet-bound form of the same reference is refused (kInvalidDisplacement at bind time).
// g++ -std=c++17 -I/repo x86_jmp_bound_label_far.cpp -o t -L/repo/_build -lasmjit -Wl,-rpath,/repo/_build && ./t
#include <asmjit/x86.h>
#include <cstdio>
using namespace asmjit;
static bool run(Arch arch, uint64_t off, int which, bool accept) {
  CodeHolder code; code.init(Environment(arch)); x86::Assembler a(&code);
  Label L = a.new_label(); code.bind_label(L, 0, off);
  Error e = which == 0 ? a.jmp(L) : which == 1 ? a.call(L) : a.jz(L);
  auto& b = code.text_section()->buffer();
  printf("%s label@0x%llx %s -> err=%u bytes=", arch == Arch::kX64 ? "x64" : "x86", (unsigned long long)off, which == 0 ? "jmp" : which == 1 ? "call" : "jz", unsigned(e));
  for (size_t i = 0; i < b.size(); i++) printf("%02X ", b.data()[i]);
  bool ok = accept ? (e == Error::kOk && b.size() > 0) : (e != Error::kOk && b.size() == 0);
  printf("%s\n", ok ? "ok" : "WRONG");
  return ok;
}
int main() {
  bool ok = true;
  ok &= run(Arch::kX64, 0x100000010ull, 0, false);
  ok &= run(Arch::kX64, 0x90000000ull, 0, false);
  ok &= run(Arch::kX64, 0x90000000ull, 1, false);
  ok &= run(Arch::kX64, 0x90000000ull, 2, false);
  ok &= run(Arch::kX64, 0x7FFFFF00ull, 0, true);       // in range
  ok &= run(Arch::kX64, 0x10ull, 2, true);
  ok &= run(Arch::kX86, 0x90000000ull, 0, true);       // 32-bit mode: EIP wraps, every 32-bit distance is exact
  printf("%s\n", ok ? "PASS" : "FAIL");
  return ok ? 0 : 1;
}
