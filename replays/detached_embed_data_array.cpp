// C14 replay: embed_data_array() on an assembler that is not attached to a CodeHolder (its siblings return kNotInitialized).
// g++ -std=c++17 -I/repo detached_embed_data_array.cpp -o t -L/repo/_build -lasmjit -Wl,-rpath,/repo/_build && ./t
#include <asmjit/x86.h>
#include <cstdio>
#include <sys/wait.h>
#include <unistd.h>
using namespace asmjit;
int main() {
  pid_t p = fork();
  if (p == 0) {
    x86::Assembler a;                       // never attached
    uint32_t v[4] = {1, 2, 3, 4};
    Error e1 = a.embed(v, sizeof(v));
    printf("embed            -> err=%u\n", unsigned(e1)); fflush(stdout);
    Error e2 = a.embed_data_array(TypeId::kUInt32, v, 4, 1);
    printf("embed_data_array -> err=%u\n", unsigned(e2)); fflush(stdout);
    _exit(e2 == Error::kOk ? 1 : 0);
  }
  int st = 0; waitpid(p, &st, 0);
  if (WIFSIGNALED(st)) { printf("FAIL: child killed by signal %d\n", WTERMSIG(st)); return 1; }
  if (WEXITSTATUS(st)) { puts("FAIL: accepted"); return 1; }
  puts("PASS"); return 0;
}
