// C06 replay: 32-bit __vectorcall. init_call_conv() sets the vector register order XMM0..XMM5 in the convention's case, and the block
// shared by the "standard" 32-bit conventions then replaces it with XMM0..XMM2; kPassFloatsByVec is not set either. Microsoft's ABI:
// "the first six vector-type or floating-point arguments are passed by value in SSE registers 0 to 5".
// g++ -std=c++17 -I/repo vectorcall32_order.cpp -o t -L/repo/_build -lasmjit -Wl,-rpath,/repo/_build && ./t
#include <asmjit/x86.h>
#include <cstdio>
using namespace asmjit;
int main() {
  FuncSignature sig; sig.set_call_conv_id(CallConvId::kVectorCall); sig.set_ret(TypeId::kVoid);
  for (int i = 0; i < 6; i++) sig.add_arg(TypeId::kFloat32x4);
  sig.add_arg(TypeId::kFloat32);
  FuncDetail fd; Error e = fd.init(sig, Environment(Arch::kX86));
  bool ok = e == Error::kOk;
  for (uint32_t i = 0; i < 6 && ok; i++) {
    const FuncValue& v = fd.arg(i);
    printf("arg %u (__m128): %s %d\n", i, v.is_reg() ? "xmm" : "stack", v.is_reg() ? int(v.reg_id()) : v.stack_offset());
    ok &= v.is_reg() && v.reg_id() == i;
  }
  printf("%s\n", ok ? "PASS" : "FAIL: __vectorcall passes the first six vector arguments in XMM0..XMM5");
  return ok ? 0 : 1;
}
