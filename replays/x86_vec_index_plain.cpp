// C13/C14 replay: x86 strict validation: a memory operand with a VECTOR index register ([ecx + xmm0]) is translated to the vm32x/vm64x
// flags AND to the plain memory-size flags, so it also matches every ordinary memory operand: `mov eax, [rcx + xmm0]` passes validation
// and is encoded as `mov eax, [rcx + rax]`.
// g++ -std=c++17 -I/repo x86_vec_index_plain.cpp -o t -L/repo/_build -lasmjit -Wl,-rpath,/repo/_build && ./t
#include <asmjit/x86.h>
#include <cstdio>
using namespace asmjit;
int main() {
  CodeHolder code; code.init(Environment(Arch::kX64));
  x86::Assembler a(&code);
  a.add_diagnostic_options(DiagnosticOptions::kValidateAssembler);
  using namespace x86;
  Error g0 = a.mov(eax, ptr(rcx, rax));
  Error g1 = a.k(k1).vgatherdps(zmm0, ptr(rcx, zmm1, 2));
  Error g2 = a.vpgatherdd(xmm0, ptr(rcx, xmm1), xmm2);
  Error r0 = a.mov(eax, ptr(rcx, xmm0));
  Error r1 = a.lea(eax, ptr(rcx, xmm0));
  Error r2 = a.add(eax, dword_ptr(rcx, ymm1, 2));
  printf("valid: %u %u %u | mov eax,[rcx+xmm0]=%u lea eax,[rcx+xmm0]=%u add eax,[rcx+ymm1*4]=%u (must be rejected)\n",
         unsigned(g0), unsigned(g1), unsigned(g2), unsigned(r0), unsigned(r1), unsigned(r2));
  bool ok = g0 == Error::kOk && g1 == Error::kOk && g2 == Error::kOk && r0 != Error::kOk && r1 != Error::kOk && r2 != Error::kOk;
  puts(ok ? "PASS" : "FAIL"); return ok ? 0 : 1;
}
