// C16/C18 replay: Arena::reset(ResetPolicy::kHard) - and therefore ~Arena() - returned early when the arena had no managed block
// (`if (first == &_arena_zero_block) return;`), skipping the release of the dynamic blocks (allocations > 2 KB made with
// alloc_reusable()), the clearing of the reusable slots and of the unused-byte counter: the blocks of the earlier use stay referenced
// by `_dynamic_blocks` after the reset and are never returned (10 x 1 MB still allocated after the destructor).
// g++ -std=c++17 -I<repo> arena_hard_reset_dynamic_blocks.cpp -o t -L<build> -lasmjit -Wl,-rpath,<build> && ./t
#include <asmjit/core.h>
#include <malloc.h>
#include <cstdio>
using namespace asmjit;
static size_t outstanding() { struct mallinfo2 mi = mallinfo2(); return mi.uordblks + mi.hblkhd; }
int main() {
  size_t before = outstanding();
  {
    Arena arena(4096);
    for (int i = 0; i < 10; i++) {
      size_t got = 0;
      void* p = arena.alloc_reusable(1000000, Out(got));
      if (!p) return 2;
    }
    arena.reset(ResetPolicy::kHard);
    size_t after_reset = outstanding();
    printf("outstanding after reset(kHard): %zu bytes above the start\n", after_reset - before);
  }
  size_t after = outstanding();
  printf("outstanding after ~Arena(): %zu bytes above the start\n", after > before ? after - before : 0);
  bool bad = after > before + 100000;
  printf("%s\n", bad ? "FAIL" : "PASS");
  return bad;
}
