// C03 replay: distances to an already BOUND label that do not fit the field are silently truncated.
//  (1) x64 `lea rax, [L - 0x7FFFFFF8]` with L bound 16 bytes earlier: the 32-bit displacement arithmetic wraps (kOk, positive disp);
//      the same reference to a label bound LATER is rejected when the label is bound (range test in the fixup resolver).
//  (2) embed_label_delta(L2, L1, 1) with L2 - L1 = 300: one byte 0x2C is written, kOk; with L2 unbound the relocation is rejected.
// g++ -std=c++17 -I/repo label_delta_truncated.cpp -o t -L/repo/_build -lasmjit -Wl,-rpath,/repo/_build && ./t
#include <asmjit/x86.h>
#include <cstdio>
#include <cstring>
using namespace asmjit;
int main() {
  bool ok = true;
  {
    CodeHolder code; code.init(Environment(Arch::kX64));
    x86::Assembler a(&code);
    Label L = a.new_label(); a.bind(L);
    for (int i = 0; i < 16; i++) a.nop();
    Error e = a.lea(x86::rax, x86::ptr(L, int32_t(-0x7FFFFFF8)));
    int32_t disp = 0; if (e == Error::kOk) memcpy(&disp, code.text_section()->data() + 16 + 3, 4);
    long long want = -0x7FFFFFF8ll - (16 + 7);
    printf("(1) bound label: lea err=%u disp32=%d  (true distance %lld does not fit 32 bits: expected an error)\n", unsigned(e), disp, want);
    ok &= e != Error::kOk;
  }
  {
    CodeHolder code; code.init(Environment(Arch::kX64));
    x86::Assembler a(&code);
    Label L1 = a.new_label(), L2 = a.new_label();
    a.bind(L1); for (int i = 0; i < 300; i++) a.nop(); a.bind(L2);
    size_t at = a.offset();
    Error e = a.embed_label_delta(L2, L1, 1);
    unsigned byte = e == Error::kOk ? code.text_section()->data()[at] : 0;
    printf("(2) embed_label_delta(L2, L1, 1) with L2-L1=300: err=%u byte=%#x (expected an error)\n", unsigned(e), byte);
    ok &= e != Error::kOk;
    Error e2 = a.embed_label_delta(L2, L1, 2);
    uint16_t w = 0; if (e2 == Error::kOk) memcpy(&w, code.text_section()->data() + a.offset() - 2, 2);
    printf("    embed_label_delta(L2, L1, 2): err=%u value=%u (expected kOk, 300)\n", unsigned(e2), w);
    ok &= e2 == Error::kOk && w == 300;
  }
  puts(ok ? "PASS" : "FAIL"); return ok ? 0 : 1;
}
