// C14 replay ("a failed call creates no labels"): BaseCompiler::new_func_node() registers the function's exit label in the CodeHolder
// before the signature is validated: add_func() with an unknown calling convention fails and leaves one label behind per call.
// g++ -std=c++17 -I/repo compiler_add_func_bad_signature.cpp -o t -L/repo/_build -lasmjit -Wl,-rpath,/repo/_build && ./t
#include <asmjit/x86.h>
#include <cstdio>
using namespace asmjit;
struct H : ErrorHandler { int n = 0; void handle_error(Error, const char*, BaseEmitter*) override { n++; } };
int main() {
  CodeHolder code; code.init(Environment(Arch::kX64)); H h; code.set_error_handler(&h);
  x86::Compiler cc(&code);
  size_t before = code.label_count();
  FuncSignature sig; sig.set_call_conv_id(CallConvId(0x55));
  FuncNode* f1 = cc.add_func(sig);
  FuncNode* f2 = cc.add_func(sig);
  size_t after = code.label_count();
  printf("add_func(bad cc) -> %p %p, handler calls=%d, labels %zu -> %zu\n", (void*)f1, (void*)f2, h.n, before, after);
  bool ok = !f1 && !f2 && h.n == 2 && after == before;
  // a valid function still works and gets the ids a fresh compiler would hand out
  FuncNode* f3 = cc.add_func(FuncSignature::build<void>());
  printf("valid func: entry label %u exit label %u\n", f3 ? f3->label_id() : ~0u, f3 ? f3->exit_label().id() : ~0u);
  ok &= f3 && f3->label_id() <= 1 && f3->exit_label().id() <= 1;
  printf("%s\n", ok ? "PASS" : "FAIL: refused add_func() left labels behind");
  return ok ? 0 : 1;
}
