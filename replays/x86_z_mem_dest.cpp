// C14/C13 replay: x86 {z} (zeroing-masking) with a MEMORY destination is #UD (EVEX.z must be 0 when the destination is memory).
// With strict validation on, the validator checks that the instruction supports {z} but not that operand 0 is a register:
// `vmovups [rax] {k1}{z}, zmm1` passes validation and is emitted with EVEX.z = 1.
// g++ -std=c++17 -I/repo x86_z_mem_dest.cpp -o t -L/repo/_build -lasmjit -Wl,-rpath,/repo/_build && ./t
#include <asmjit/x86.h>
#include <cstdio>
#include <cstring>
using namespace asmjit;
int main() {
  CodeHolder code; code.init(Environment(Arch::kX64));
  x86::Assembler a(&code);
  a.add_diagnostic_options(DiagnosticOptions::kValidateAssembler);
  using namespace x86;
  Error g0 = a.k(k1).z().vmovups(zmm1, ptr(rax));           // register destination: valid
  Error g1 = a.k(k1).vmovups(ptr(rax), zmm1);                // memory destination, merge-masking: valid
  Error b0 = a.k(k1).z().vmovups(ptr(rax), zmm1);            // memory destination with {z}: #UD
  Error b1 = a.k(k1).z().vpmovqb(ptr(rax), zmm1);
  size_t n = code.text_section()->buffer_size();
  printf("valid: %u %u | vmovups [rax]{k1}{z},zmm1=%u vpmovqb [rax]{k1}{z},zmm1=%u (must be rejected); bytes emitted=%zu (12 expected)\n",
         unsigned(g0), unsigned(g1), unsigned(b0), unsigned(b1), n);
  bool ok = g0 == Error::kOk && g1 == Error::kOk && b0 != Error::kOk && b1 != Error::kOk && n == 12;
  puts(ok ? "PASS" : "FAIL"); return ok ? 0 : 1;
}
