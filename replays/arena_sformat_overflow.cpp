// C18 replay (memory safety): Arena::sformat() formats into `char buf[512]` with vsnprintf(buf, 511, ...) and then uses vsnprintf's
// RETURN VALUE - the length the output would have had - as the index of the terminator and as the size to duplicate:
// `buf[size++] = 0; return dup(buf, size);`. For an output of 511 characters or more this writes and reads past the end of the
// stack buffer.
// Build with the library sources so that AddressSanitizer sees the frame:
//   g++ -std=c++17 -g -fsanitize=address -DASMJIT_STATIC -I/repo arena_sformat_overflow.cpp /repo/asmjit/support/arena.cpp \
//       /repo/asmjit/support/support.cpp /repo/asmjit/core/globals.cpp -o t && ./t
#include <asmjit/core.h>
#include <cstdio>
#include <cstring>
#include <string>
using namespace asmjit;
int main() {
  Arena arena(4096);
  std::string s(600, 'x');
  char* r = arena.sformat("%s", s.c_str());       // ASan: stack-buffer-overflow in Arena::sformat on the unfixed tree
  size_t n = r ? strlen(r) : 0;
  printf("sformat of 600 chars -> %p strlen=%zu\n", (void*)r, n);
  // whatever the policy (truncate or fail), nothing outside the 512-byte buffer may be touched and the result must be terminated
  bool ok = r == nullptr || n <= 511;
  printf("%s\n", ok ? "PASS" : "FAIL");
  return ok ? 0 : 1;
}
