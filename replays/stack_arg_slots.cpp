// C06 replay: stack argument slots of the x86-64 conventions.
//  (1) SysV x86-64: a `float` passed on the stack takes 4 bytes (offsets 0, 4, 8) - the psABI rounds every stack argument to an eightbyte.
//  (2) Win64: a vector argument passed by reference in a GP register still advances the stack offset: in f(__m128, i64 x 4) the fifth
//      argument is reported at [40] instead of [32] (right behind the 32-byte home area).
// g++ -std=c++17 -I/repo stack_arg_slots.cpp -o t -L/repo/_build -lasmjit -Wl,-rpath,/repo/_build && ./t
#include <asmjit/x86.h>
#include <cstdio>
using namespace asmjit;
int main() {
  bool ok = true;
  {
    FuncSignature sig; sig.set_call_conv_id(CallConvId::kX64SystemV); sig.set_ret(TypeId::kVoid);
    for (int i = 0; i < 11; i++) sig.add_arg(TypeId::kFloat32);
    FuncDetail fd; ok &= fd.init(sig, Environment(Arch::kX64)) == Error::kOk;
    printf("sysv f(float x 11): arg8 [%d] arg9 [%d] arg10 [%d] size %u\n", fd.arg(8).stack_offset(), fd.arg(9).stack_offset(), fd.arg(10).stack_offset(), fd.arg_stack_size());
    ok &= fd.arg(8).stack_offset() == 0 && fd.arg(9).stack_offset() == 8 && fd.arg(10).stack_offset() == 16 && fd.arg_stack_size() == 24;
  }
  {
    FuncSignature sig; sig.set_call_conv_id(CallConvId::kX64Windows); sig.set_ret(TypeId::kVoid);
    sig.add_arg(TypeId::kInt32x4); for (int i = 0; i < 4; i++) sig.add_arg(TypeId::kInt64);
    FuncDetail fd; ok &= fd.init(sig, Environment(Arch::kX64)) == Error::kOk;
    printf("win64 f(m128, i64 x 4): arg0 %s, arg4 [%d] size %u\n", fd.arg(0).is_reg() ? "reg (indirect)" : "stack", fd.arg(4).stack_offset(), fd.arg_stack_size());
    ok &= fd.arg(0).is_reg() && fd.arg(4).is_stack() && fd.arg(4).stack_offset() == 32;
  }
  printf("%s\n", ok ? "PASS" : "FAIL");
  return ok ? 0 : 1;
}
