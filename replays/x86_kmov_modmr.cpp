#include <asmjit/x86.h>
#include <cstdio>
using namespace asmjit;
int main() {
  CodeHolder code; code.init(Environment(Arch::kX64)); x86::Assembler a(&code);
  a.add_diagnostic_options(DiagnosticOptions::kValidateAssembler);
  Error e1 = a.kmovw(x86::k1, x86::k2);
  Error e2 = a.mod_mr().kmovw(x86::k1, x86::k2);
  auto* t = code.text_section();
  printf("err=%u,%u bytes:", unsigned(e1), unsigned(e2));
  for (size_t i = 0; i < t->buffer_size(); i++) printf(" %02X", t->data()[i]);
  printf("\n");
  // the second encoding must not use opcode 91 with mod=11 (KMOVW m16,k has no register form: #UD)
  bool bad = t->buffer_size() >= 8 && t->data()[6] == 0x91 && (t->data()[7] >> 6) == 3;
  puts(bad ? "FAIL" : "PASS"); return bad;
}
