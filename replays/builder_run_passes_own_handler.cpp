// C16 replay: BaseBuilder::run_passes() saves error_handler() (the effective handler, own or inherited from the CodeHolder) and puts it
// back with set_error_handler(prev), which marks it as the emitter's OWN: after finalize() the compiler keeps the first holder's
// handler across detach() and delivers errors to it although it is attached to another holder.
// g++ -std=c++17 -I/repo builder_run_passes_own_handler.cpp -o t -L/repo/_build -lasmjit -Wl,-rpath,/repo/_build && ./t
#include <asmjit/x86.h>
#include <cstdio>
using namespace asmjit;
struct H : ErrorHandler { int n = 0; void handle_error(Error, const char*, BaseEmitter*) override { n++; } };
int main() {
  H eh1, eh2;
  CodeHolder code1; code1.init(Environment(Arch::kX64)); code1.set_error_handler(&eh1);
  CodeHolder code2; code2.init(Environment(Arch::kX64)); code2.set_error_handler(&eh2);
  x86::Compiler cc(&code1);
  bool own_before = cc.has_own_error_handler();
  cc.add_func(FuncSignature::build<void>()); cc.end_func();
  Error e = cc.finalize();
  bool own_after = cc.has_own_error_handler();
  code1.detach(&cc);
  ErrorHandler* detached = cc.error_handler();
  code2.attach(&cc);
  cc.bind(Label(1234));                 // provoke an error: must go to eh2
  printf("finalize=%u own %d -> %d, handler after detach=%p, eh1.n=%d eh2.n=%d\n", unsigned(e), own_before, own_after, (void*)detached, eh1.n, eh2.n);
  bool ok = e == Error::kOk && !own_before && !own_after && detached == nullptr && eh1.n == 0 && eh2.n == 1;
  printf("%s\n", ok ? "PASS" : "FAIL: the holder's handler became the emitter's own and outlived the attachment");
  return ok ? 0 : 1;
}
