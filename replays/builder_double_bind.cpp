// C14/C08 replay: x86::Builder::bind(L) twice. The Assembler answers kLabelAlreadyBound; the Builder links the label's node a
// second time although it is already part of the list (add_node's !is_active() precondition is a debug assertion): the nodes
// between the two positions drop out of the list / the list becomes inconsistent.
// g++ -std=c++17 -I/repo builder_double_bind.cpp -o t -L/repo/_build -lasmjit -Wl,-rpath,/repo/_build && ./t
#include <asmjit/x86.h>
#include <cstdio>
using namespace asmjit;
int main() {
  CodeHolder code; code.init(Environment(Arch::kX64));
  x86::Builder b(&code);
  Label L = b.new_label();
  b.nop();                // N1
  Error e1 = b.bind(L);   // L
  b.mov(x86::eax, 1);     // N2
  b.mov(x86::ecx, 2);     // N3
  Error e2 = b.bind(L);   // second bind of the same label: invalid
  b.ret();                // N4
  // walk forward and backward
  unsigned fwd = 0, bwd = 0, labels = 0;
  for (BaseNode* n = b.first_node(); n && fwd < 100; n = n->next()) { fwd++; if (n->is_label()) labels++; }
  for (BaseNode* n = b.last_node(); n && bwd < 100; n = n->prev()) bwd++;
  printf("bind#1=%u bind#2=%u  nodes forward=%u backward=%u label nodes=%u (expected: bind#2 fails, 6 nodes both ways (section, nop, L, mov, mov, ret), 1 label node)\n",
         unsigned(e1), unsigned(e2), fwd, bwd, labels);
  bool ok = e1 == Error::kOk && e2 != Error::kOk && fwd == 6 && bwd == 6 && labels == 1;
  puts(ok ? "PASS" : "FAIL"); return ok ? 0 : 1;
}
