// C14 replay: 32-bit [LABEL] memory operand with an invalid label id.
// g++ -std=c++17 -I/repo x86_label32.cpp -o t -L/repo/_build -lasmjit -Wl,-rpath,/repo/_build && ./t
#include <asmjit/x86.h>
#include <cstdio>
using namespace asmjit;
int main() {
  CodeHolder code; code.init(Environment(Arch::kX86));
  x86::Assembler a(&code);
  x86::Mem m = x86::ptr(a.new_label());
  m.set_base_id(12345678u);  // label id far outside the label table
  Error e = a.mov(x86::eax, m);
  printf("err=%u size=%zu relocs=%zu\n", unsigned(e), code.text_section()->buffer_size(), code.reloc_entries().size());
  return e == Error::kInvalidLabel && code.text_section()->buffer_size() == 0 ? 0 : 1;
}
