// C18 replay: "the string class holds exactly the bytes the textbook type would hold".  Assigning an empty content through
// _op_string / _op_chars / _op_hex (and assign_format on the short-capacity path) returned kOk without touching the string:
//   String s = "abc"; s.assign_chars('x', 0)  -> "abc" (expected "")
// g++ -std=c++17 -I/repo string_assign_empty.cpp -o t -L/repo/_build -lasmjit -Wl,-rpath,/repo/_build && ./t
#include <asmjit/core.h>
#include <cstdio>
using namespace asmjit;
int main() {
  int bad = 0;
  auto chk = [&](const char* what, String& s, Error e, const char* expect) {
    bool ok = e == Error::kOk && s.size() == strlen(expect) && strcmp(s.data(), expect) == 0;
    printf("%-34s -> \"%s\" size=%zu err=%u %s\n", what, s.data(), s.size(), unsigned(e), ok ? "ok" : "WRONG");
    bad += !ok;
  };
  const char* p = "zzz";
  { String s; (void)s.assign("abc"); chk("assign_chars('x', 0)", s, s.assign_chars('x', 0), ""); }
  { String s; (void)s.assign("abc"); chk("assign(Span(p, 0))", s, s.assign(Span<const char>(p, 0)), ""); }
  { String s; (void)s.assign("abc"); chk("assign_hex(p, 0)", s, s.assign_hex(p, 0), ""); }
  { String s; (void)s.assign("abc"); chk("assign_format(\"%s\", \"\")", s, s.assign_format("%s", ""), ""); }
  { String s; (void)s.assign("abc"); chk("append_chars('x', 0)", s, s.append_chars('x', 0), "abc"); }
  { String s; (void)s.assign("abc"); chk("append(Span(p, 0))", s, s.append(Span<const char>(p, 0)), "abc"); }
  { String s; (void)s.assign("abc"); chk("assign_chars('x', 2)", s, s.assign_chars('x', 2), "xx"); }
  printf("%s\n", bad ? "FAIL" : "PASS");
  return bad != 0;
}
