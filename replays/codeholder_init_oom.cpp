// BASELINE 3: CodeHolder::init() that fails with kOutOfMemory after its first reservation succeeded leaves
// `_sections` pointing into the arena it has just reset; the repeated init() hands the same memory to
// `_sections_by_order`, the two vectors overlap and the section tables are corrupted.
#include "inject.h"
#include <asmjit/x86.h>
#include <stdio.h>

using namespace asmjit;

int main() {
  setvbuf(stdout, nullptr, _IONBF, 0);
  install_segv_handler();
  Environment env(Arch::kX64);

  // 16 bytes of block header + 16 usable bytes: exactly one 2-pointer vector fits.
  alignas(16) static uint8_t mem[32];
  CodeHolder code(Span<uint8_t>(mem, sizeof(mem)));

  g_fail_size = 0; g_countdown = 0; g_sticky = 0;   // the first malloc() fails
  Error err = code.init(env);
  g_countdown = -1;
  printf("init() with failing allocation: %s\n", DebugUtils::error_as_string(err));
  if (err == Error::kOk) { printf("the failure was not injected where expected - void\n"); return 3; }

  err = code.init(env);
  printf("repeated init(): %s\n", DebugUtils::error_as_string(err));
  if (err != Error::kOk) return 1;

  x86::Assembler a(&code);
  Section* data = nullptr;
  Section* rodata = nullptr;
  code.new_section(Out(data), ".data", SIZE_MAX, SectionFlags::kNone, 8);
  code.new_section(Out(rodata), ".rodata", SIZE_MAX, SectionFlags::kReadOnly, 8);
  a.mov(x86::eax, 1);
  a.ret();

  Section* expected[3] = { code.text_section(), data, rodata };
  for (size_t i = 0; i < 3; i++) {
    if (code.section_count() != 3 || code.sections()[i] != expected[i] || code.sections_by_order()[i] != expected[i]) {
      printf("section tables are corrupted: sections()[%zu] = %p, sections_by_order()[%zu] = %p, expected %p\n",
             i, (void*)code.sections()[i], i, (void*)code.sections_by_order()[i], (void*)expected[i]);
      return 1;
    }
  }
  g_where = "flatten()";
  code.flatten();
  printf("OK\n");
  return 0;
}
