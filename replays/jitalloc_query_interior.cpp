// C09 replay: JitAllocator::query() tests only the used bit of the queried unit: a pointer into the initial padding of a block or into
// the middle of a live span is answered with kOk and a "span" that nobody allocated (the padding unit, or the tail of the real span).
// release() and shrink() refuse such pointers.
// g++ -std=c++17 -I/repo jitalloc_query_interior.cpp -o t -L/repo/_build -lasmjit -Wl,-rpath,/repo/_build && ./t
#include <asmjit/core.h>
#include <cstdio>
using namespace asmjit;
int main() {
  JitAllocator a;
  JitAllocator::Span s; a.alloc(Out(s), 256);
  JitAllocator::Span q0, q1, q2;
  Error e0 = a.query(Out(q0), s.rx());
  Error e1 = a.query(Out(q1), static_cast<uint8_t*>(s.rx()) - 64);     // the block's initial padding
  Error e2 = a.query(Out(q2), static_cast<uint8_t*>(s.rx()) + 100);    // inside the span
  printf("query(span)=%u size=%zu | query(padding)=%u size=%zu | query(interior)=%u size=%zu (the last two must be refused)\n",
         unsigned(e0), q0.size(), unsigned(e1), q1.size(), unsigned(e2), q2.size());
  bool ok = e0 == Error::kOk && q0.rx() == s.rx() && q0.size() == 256 && e1 != Error::kOk && e2 != Error::kOk;
  puts(ok ? "PASS" : "FAIL"); return ok ? 0 : 1;
}
