// C01 replay: segment override of string instructions.  Only the ds:[zsi] source can be overridden; es:[zdi] cannot.
//   cmps fs:[rsi], [rdi]  -> was A6 (override lost: taken from operand 1, right for movs only)       expected 64 A6
//   cmps [rsi], fs:[rdi]  -> was 64 A6 (= cmps fs:[rsi], es:[rdi]: the override lands on the OTHER operand) expected: refused
//   stos fs:[rdi], al     -> was 64 AA (prefix without effect: the operand is es:[rdi])                expected: refused
//   movs fs:[rdi], [rsi]  -> was A4 (override dropped)                                                expected: refused
// g++ -std=c++17 -I<repo> x86_string_segment_override.cpp -o t -L<build> -lasmjit -Wl,-rpath,<build> && ./t
#include <asmjit/x86.h>
#include <cstdio>
using namespace asmjit;
using namespace asmjit::x86;
static int bad = 0;
template<typename F> static void t(const char* what, const char* expect, F&& f) {
  CodeHolder code; code.init(Environment(Arch::kX64)); Assembler a(&code);
  Error e = f(a);
  auto& b = code.text_section()->buffer();
  char got[64] = ""; for (size_t i = 0; i < b.size(); i++) sprintf(got + strlen(got), "%02X", b.data()[i]);
  bool ok = expect ? (e == Error::kOk && strcmp(got, expect) == 0) : (e != Error::kOk && b.size() == 0);
  printf("%-26s err=%-3u bytes=%-8s %s\n", what, unsigned(e), got, ok ? "ok" : "WRONG");
  bad += !ok;
}
int main() {
  Mem sfs = byte_ptr(rsi); sfs.set_segment(fs);
  Mem dfs = byte_ptr(rdi); dfs.set_segment(fs);
  Mem des = byte_ptr(rdi); des.set_segment(es);
  t("cmps fs:[rsi], [rdi]", "64A6", [&](Assembler& a) { return a.cmps(sfs, byte_ptr(rdi)); });
  t("cmps [rsi], fs:[rdi]", nullptr, [&](Assembler& a) { return a.cmps(byte_ptr(rsi), dfs); });
  t("cmps [rsi], [rdi]", "A6", [&](Assembler& a) { return a.cmps(byte_ptr(rsi), byte_ptr(rdi)); });
  t("movs [rdi], fs:[rsi]", "64A4", [&](Assembler& a) { return a.movs(byte_ptr(rdi), sfs); });
  t("movs fs:[rdi], [rsi]", nullptr, [&](Assembler& a) { return a.movs(dfs, byte_ptr(rsi)); });
  t("movs es:[rdi], [rsi]", "A4", [&](Assembler& a) { return a.movs(des, byte_ptr(rsi)); });
  t("stos fs:[rdi], al", nullptr, [&](Assembler& a) { return a.stos(dfs, al); });
  t("stos [rdi], al", "AA", [&](Assembler& a) { return a.stos(byte_ptr(rdi), al); });
  t("scas al, fs:[rdi]", nullptr, [&](Assembler& a) { return a.scas(al, dfs); });
  t("lods al, fs:[rsi]", "64AC", [&](Assembler& a) { return a.lods(al, sfs); });
  t("outs dx, fs:[rsi]", "646E", [&](Assembler& a) { return a.outs(dx, sfs); });
  t("ins fs:[rdi], dx", nullptr, [&](Assembler& a) { return a.ins(dfs, dx); });
  printf("%s\n", bad ? "FAIL" : "PASS");
  return bad != 0;
}
