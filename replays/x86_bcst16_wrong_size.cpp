// C13 replay: an AVX512-FP16 broadcast operand ({1toN}, 2-byte elements) with a specified size of 4 or 8 bytes passes strict validation
// (only kB32 and kB64 instructions have their specified size compared) and is encoded as the 2-byte broadcast.
// g++ -std=c++17 -I/repo x86_bcst16_wrong_size.cpp -o t -L/repo/_build -lasmjit -Wl,-rpath,/repo/_build && ./t
#include <asmjit/x86.h>
#include <cstdio>
using namespace asmjit;
static Error emit(uint32_t size, x86::Mem::Broadcast b) {
  CodeHolder code; code.init(Environment(Arch::kX64)); x86::Assembler a(&code);
  a.add_diagnostic_options(DiagnosticOptions::kValidateAssembler);
  x86::Mem m = x86::ptr(x86::rax); m.set_size(size); m.set_broadcast(b);
  return a.vaddph(x86::zmm1, x86::zmm2, m);
}
int main() {
  Error e_word = emit(2, x86::Mem::Broadcast::k1To32);
  Error e_none = emit(0, x86::Mem::Broadcast::k1To32);
  Error e_dword = emit(4, x86::Mem::Broadcast::k1To16);
  Error e_qword = emit(8, x86::Mem::Broadcast::k1To8);
  printf("vaddph zmm1, zmm2, [rax]{1toN}: word=%u unsized=%u dword=%u qword=%u\n", unsigned(e_word), unsigned(e_none), unsigned(e_dword), unsigned(e_qword));
  bool ok = e_word == Error::kOk && e_none == Error::kOk && e_dword != Error::kOk && e_qword != Error::kOk;
  printf("%s\n", ok ? "PASS" : "FAIL: a 2-byte-element broadcast with a dword/qword size specification was accepted");
  return ok ? 0 : 1;
}
