// C03 replay: a reference from another section to a label that is ALREADY bound (in a different section).
// new_fixup() is called on a bound label entry (guarded by a debug assert only) and overwrites the label's offset with a Fixup pointer.
// g++ -std=c++17 -I/repo cross_section_bound_label.cpp -o t -L/repo/_build -lasmjit -Wl,-rpath,/repo/_build && ./t
#include <asmjit/x86.h>
#include <cstdio>
#include <cstring>
using namespace asmjit;
int main() {
  CodeHolder code; code.init(Environment(Arch::kX64));
  x86::Assembler a(&code);
  Section* other = nullptr; code.new_section(Out(other), ".other", SIZE_MAX, SectionFlags::kExecutable, 16, 0);
  a.nop(); a.nop(); a.nop();
  Label L = a.new_label(); a.bind(L);                 // bound in .text at offset 3
  a.ret();
  a.section(other);
  Error e = a.jmp(L);                                   // reference from .other to the bound label
  uint64_t off_after = code.label_entry_of(L).offset();
  Error ef = code.flatten();
  Error er = code.resolve_cross_section_fixups();
  size_t unresolved = code.unresolved_fixup_count();
  int32_t disp = 0; memcpy(&disp, other->data() + 1, 4);
  int64_t want = int64_t(code.text_section()->offset() + 3) - int64_t(other->offset() + 5);
  printf("jmp err=%u  label offset after the reference=%llu (expected 3)  flatten=%u resolve=%u unresolved=%zu  disp32=%d (expected %lld)\n",
         unsigned(e), (unsigned long long)off_after, unsigned(ef), unsigned(er), unresolved, disp, (long long)want);
  bool ok = e == Error::kOk && off_after == 3 && unresolved == 0 && disp == want;
  puts(ok ? "PASS" : "FAIL"); return ok ? 0 : 1;
}
