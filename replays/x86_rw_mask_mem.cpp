// C12 replay: merge-masked AVX-512 widening moves report the {k} register and the destination as read when the source
// is a register, but not when the source is memory.
// g++ -std=c++17 -I/repo x86_rw_mask_mem.cpp -o t -L/repo/_build -lasmjit -Wl,-rpath,/repo/_build && ./t
#include <asmjit/x86.h>
#include <cstdio>
using namespace asmjit;
static int probe(const char* what, InstId id, const Operand& o0, const Operand& o1) {
  BaseInst inst(id); inst.set_extra_reg(x86::k1);
  Operand ops[2] = { o0, o1 };
  InstRWInfo rw; Error e = InstAPI::query_rw_info(Arch::kX64, inst, ops, 2, &rw);
  bool k_read = rw.extra_reg().is_read(); bool dst_read = rw.operand(0).is_read();
  printf("%-34s err=%u  {k1} read=%d  destination read=%d\n", what, unsigned(e), int(k_read), int(dst_read));
  return (k_read && dst_read) ? 0 : 1;
}
int main() {
  int f = 0;
  f |= probe("vpmovzxbw zmm0{k1}, ymm1", x86::Inst::kIdVpmovzxbw, x86::zmm0, x86::ymm1);
  f |= probe("vpmovzxbw zmm0{k1}, [rax]", x86::Inst::kIdVpmovzxbw, x86::zmm0, x86::ymmword_ptr(x86::rax));
  f |= probe("vcvtps2pd zmm0{k1}, ymm1", x86::Inst::kIdVcvtps2pd, x86::zmm0, x86::ymm1);
  f |= probe("vcvtps2pd zmm0{k1}, [rax]", x86::Inst::kIdVcvtps2pd, x86::zmm0, x86::ymmword_ptr(x86::rax));
  f |= probe("vcvtpd2ps ymm0{k1}, zmm1", x86::Inst::kIdVcvtpd2ps, x86::ymm0, x86::zmm1);
  f |= probe("vcvtpd2ps ymm0{k1}, [rax]", x86::Inst::kIdVcvtpd2ps, x86::ymm0, x86::zmmword_ptr(x86::rax));
  puts(f ? "FAIL" : "PASS"); return f;
}
