// C02/C12 replay: tbl/tbx with a register list. The list registers must be consecutive; the assembler neither checks nor
// encodes registers 2..4 of the list, and query_rw_info does not report the run to the register allocator.
// g++ -std=c++17 -I/repo a64_tbl_list.cpp -o t -L/repo/_build -lasmjit -Wl,-rpath,/repo/_build && ./t
#include <asmjit/a64.h>
#include <cstdio>
using namespace asmjit;
using namespace asmjit::a64;
static uint32_t enc(Error& e, bool consecutive) {
  CodeHolder code; code.init(Environment(Arch::kAArch64)); Assembler a(&code);
  e = consecutive ? a.tbl(v0.b16(), v1.b16(), v2.b16(), v3.b16()) : a.tbl(v0.b16(), v1.b16(), v7.b16(), v3.b16());
  uint32_t w = 0; if (code.text_section()->buffer_size() >= 4) memcpy(&w, code.text_section()->data(), 4); return w;
}
int main() {
  int fail = 0;
  Error e1, e2; uint32_t w1 = enc(e1, true), w2 = enc(e2, false);
  printf("tbl v0,{v1,v2},v3: err=%u %08x\ntbl v0,{v1,v7},v3: err=%u %08x\n", unsigned(e1), w1, unsigned(e2), w2);
  if (e2 == Error::kOk) { printf("non-consecutive list accepted and encoded as the consecutive one\n"); fail |= 1; }
  Operand ops[] = { v0.b16(), v1.b16(), v2.b16(), v3.b16() };
  InstRWInfo rw; InstAPI::query_rw_info(Arch::kAArch64, BaseInst(Inst::kIdTbl_v), ops, 4, &rw);
  printf("rw: op1.lead=%u op2.consecutive=%d\n", rw.operand(1).consecutive_lead_count(), int(rw.operand(2).has_op_flag(OpRWFlags::kConsecutive)));
  if (rw.operand(1).consecutive_lead_count() != 2 || !rw.operand(2).has_op_flag(OpRWFlags::kConsecutive)) fail |= 2;
  printf(fail ? "FAIL %d\n" : "PASS\n", fail);
  return fail;
}
