// C02/C14 replay: a64 `fcvt` precision table marks H<-H, S<-S, D<-D and every Q combination as invalid (0xFF) but the encoder never
// tests the marker: `fcvt s0, s1` is accepted and the marker's bits are packed into the instruction (an unrelated encoding).
// g++ -std=c++17 -I/repo a64_fcvt_invalid.cpp -o t -L/repo/_build -lasmjit -Wl,-rpath,/repo/_build && ./t
#include <asmjit/a64.h>
#include <cstdio>
#include <cstring>
using namespace asmjit;
int main() {
  CodeHolder code; code.init(Environment(Arch::kAArch64));
  a64::Assembler a(&code);
  Error e0 = a.fcvt(a64::d0, a64::s1);
  Error e1 = a.fcvt(a64::s0, a64::s1);
  Error e2 = a.fcvt(a64::h0, a64::h1);
  Error e3 = a.fcvt(a64::q0, a64::d1);
  uint32_t w[4] = {0,0,0,0}; size_t n = code.text_section()->buffer_size(); memcpy(w, code.text_section()->data(), n < 16 ? n : 16);
  printf("fcvt d0,s1 err=%u %08x (1e22c020 expected) | fcvt s0,s1 err=%u | fcvt h0,h1 err=%u | fcvt q0,d1 err=%u (all three must be rejected); emitted words: %zu [%08x %08x %08x]\n",
         unsigned(e0), w[0], unsigned(e1), unsigned(e2), unsigned(e3), n / 4, w[1], w[2], w[3]);
  bool ok = e0 == Error::kOk && w[0] == 0x1e22c020u && e1 != Error::kOk && e2 != Error::kOk && e3 != Error::kOk && n == 4;
  puts(ok ? "PASS" : "FAIL"); return ok ? 0 : 1;
}
