// C14 replay: a failed emit on a detached assembler keeps the one-shot state (lock prefix), which then
// leaks into the first instruction emitted after attaching.
// g++ -std=c++17 -I/repo detached_state.cpp -o t -L/repo/_build -lasmjit -Wl,-rpath,/repo/_build && ./t
#include <asmjit/x86.h>
#include <asmjit/a64.h>
#include <cstdio>
using namespace asmjit;
template<typename A> static int run(const char* what, A& a, CodeHolder& code, size_t expect) {
  printf("%s: %zu bytes:", what, code.text_section()->buffer_size());
  for (size_t i = 0; i < code.text_section()->buffer_size(); i++) printf(" %02X", code.text_section()->data()[i]);
  printf("\n");
  return code.text_section()->buffer_size() == expect ? 0 : 1;
}
int main() {
  int fail = 0;
  {
    x86::Assembler a;                                   // not attached
    Error e = a.lock().add(x86::ptr(x86::rax), x86::ebx);
    printf("x86 detached emit err=%u\n", unsigned(e));
    CodeHolder code; code.init(Environment(Arch::kX64));
    code.attach(&a);
    a.add(x86::ptr(x86::rax), x86::ebx);               // must be 01 18, not F0 01 18
    fail |= run("x86 after attach", a, code, 2);
  }
  {
    x86::Builder b;
    Error e = b.lock().add(x86::ptr(x86::rax), x86::ebx);
    printf("x86 builder detached emit err=%u\n", unsigned(e));
    CodeHolder code; code.init(Environment(Arch::kX64));
    code.attach(&b);
    b.add(x86::ptr(x86::rax), x86::ebx);
    b.finalize();
    fail |= run("x86 builder after attach", b, code, 2);
  }
  printf(fail ? "FAIL\n" : "PASS\n");
  return fail;
}
