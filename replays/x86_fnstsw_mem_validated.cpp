// C13 replay: fnstsw / fstsw have ONE merged operand signature `ax | m16` whose register mask (AX) belongs to the register
// alternative. The validator applied that mask to the base register of the memory alternative too: `fnstsw word ptr [rcx]` is encoded
// (DD 39) without validation and refused with kInvalidInstruction with validation - only [rax] passes.
// g++ -std=c++17 -I/repo x86_fnstsw_mem_validated.cpp -o t -L/repo/_build -lasmjit -Wl,-rpath,/repo/_build && ./t
#include <asmjit/x86.h>
#include <cstdio>
using namespace asmjit;
int main() {
  bool ok = true;
  for (int validate = 0; validate < 2; validate++) {
    CodeHolder code; code.init(Environment(Arch::kX64)); x86::Assembler a(&code);
    if (validate) a.add_diagnostic_options(DiagnosticOptions::kValidateAssembler);
    Error e1 = a.fnstsw(x86::word_ptr(x86::rcx));
    Error e2 = a.fnstsw(x86::ax);
    Error e3 = a.stosd();                                            // implicit es:[rdi], eax
    Error e4 = a.emit(x86::Inst::kIdStos, x86::dword_ptr(x86::rbx), x86::eax);   // wrong implied base: refused when validated
    printf("validate=%d: fnstsw [rcx]=%u fnstsw ax=%u stosd=%u stos [rbx]=%u\n", validate, unsigned(e1), unsigned(e2), unsigned(e3), unsigned(e4));
    ok &= e1 == Error::kOk && e2 == Error::kOk && e3 == Error::kOk && (!validate || e4 != Error::kOk);
  }
  printf("%s\n", ok ? "PASS" : "FAIL");
  return ok ? 0 : 1;
}
