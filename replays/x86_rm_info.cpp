// C12 replay: register-or-memory information is kept per instruction id and applied to every form, so an operand is
// reported as replaceable by memory in forms where no such memory form exists.
// g++ -std=c++17 -I/repo x86_rm_info.cpp -o t -L/repo/_build -lasmjit -Wl,-rpath,/repo/_build && ./t
#include <asmjit/x86.h>
#include <cstdio>
using namespace asmjit;
static int probe(const char* what, InstId id, Operand* ops, size_t n, size_t idx, Operand mem_repl) {
  InstRWInfo rw; InstAPI::query_rw_info(Arch::kX64, BaseInst(id), ops, n, &rw);
  bool regm = rw.operand(idx).has_op_flag(OpRWFlags::kRegMem);
  Operand ops2[6]; for (size_t i = 0; i < n; i++) ops2[i] = ops[i]; ops2[idx] = mem_repl;
  CodeHolder code; code.init(Environment(Arch::kX64)); x86::Assembler a(&code);
  a.add_diagnostic_options(DiagnosticOptions::kValidateAssembler);
  Error e = a.emit_op_array(id, ops2, n);
  printf("%-28s operand %zu: reported reg/mem=%d rm_size=%u; with the operand in memory the assembler says err=%u\n", what, idx, int(regm), rw.operand(idx).rm_size(), unsigned(e));
  return (regm && e != Error::kOk) ? 1 : 0;
}
int main() {
  int fail = 0;
  { Operand ops[] = { x86::k1, x86::eax }; fail |= probe("kmovb k1, eax", x86::Inst::kIdKmovb, ops, 2, 0, x86::byte_ptr(x86::rbx)); }
  { Operand ops[] = { x86::cx, x86::dx, x86::si }; fail |= probe("imul cx, dx, si", x86::Inst::kIdImul, ops, 3, 1, x86::word_ptr(x86::rbx)); }
  { Operand ops[] = { x86::xmm0, x86::eax }; fail |= probe("vmovd xmm0, eax", x86::Inst::kIdVmovd, ops, 2, 0, x86::dword_ptr(x86::rbx)); }
  { Operand ops[] = { x86::eax, x86::k1 }; fail |= probe("kmovw eax, k1", x86::Inst::kIdKmovw, ops, 2, 1, x86::word_ptr(x86::rbx)); }
  { Operand ops[] = { x86::mm0, x86::eax }; fail |= probe("movd mm0, eax", x86::Inst::kIdMovd, ops, 2, 0, x86::dword_ptr(x86::rbx)); }
  { Operand ops[] = { x86::rax, x86::mm0 }; fail |= probe("movq rax, mm0", x86::Inst::kIdMovq, ops, 2, 1, x86::qword_ptr(x86::rbx)); }
  { Operand ops[] = { x86::xmm0, x86::xmm1, x86::xmm2 }; fail |= probe("vpermilpd xmm0, xmm1, xmm2", x86::Inst::kIdVpermilpd, ops, 3, 1, x86::xmmword_ptr(x86::rbx)); }
  { Operand ops[] = { x86::ymm0, x86::ymm1, x86::ymm2 }; fail |= probe("vpermq ymm0, ymm1, ymm2", x86::Inst::kIdVpermq, ops, 3, 1, x86::ymmword_ptr(x86::rbx)); }
  { Operand ops[] = { x86::xmm0, x86::xmm1, x86::xmm2 }; fail |= probe("vpslld xmm0, xmm1, xmm2", x86::Inst::kIdVpslld, ops, 3, 1, x86::xmmword_ptr(x86::rbx)); }
  { Operand ops[] = { x86::xmm0, x86::xmm1, x86::xmm2 }; fail |= probe("vpsraw xmm0, xmm1, xmm2", x86::Inst::kIdVpsraw, ops, 3, 1, x86::xmmword_ptr(x86::rbx)); }
  { Operand ops[] = { x86::xmm0, x86::eax }; fail |= probe("vmovw xmm0, eax", x86::Inst::kIdVmovw, ops, 2, 0, x86::word_ptr(x86::rbx)); }
  printf(fail ? "FAIL\n" : "PASS\n");
  return fail;
}
