// C09 replay: "foreign pointers are rejected".  release() and query() look the pointer up in the allocator's own address tree;
// shrink() (and write(span, fn) when fn truncates the span) trusted Span::_block:
//   a1.shrink(span_of_a2, 64) returned kOk and edited a2's block bookkeeping under a1's lock (a2.used_size 320 -> 128);
//   shrink() of a stale span (its block already deleted) read freed memory (valgrind: invalid read in JitAllocatorBlock::pool).
// g++ -std=c++17 -I/repo jit_shrink_foreign_span.cpp -o t -L/repo/_build -lasmjit -Wl,-rpath,/repo/_build && valgrind -q ./t
#include <asmjit/core.h>
#include <cstdio>
using namespace asmjit;
int main() {
  int bad = 0;
  {
    JitAllocator a1, a2;
    JitAllocator::Span s2; a2.alloc(Out(s2), 256);
    size_t used = a2.statistics().used_size();
    JitAllocator::Span copy = s2;
    Error e = a1.shrink(copy, 64);
    printf("foreign shrink: err=%u a2.used %zu -> %zu copy.size=%zu\n", unsigned(e), used, a2.statistics().used_size(), copy.size());
    bad += (e == Error::kOk) || a2.statistics().used_size() != used;
    e = a1.write(s2, [](JitAllocator::Span& s, void*) noexcept -> Error { s.shrink(64); return Error::kOk; }, nullptr);
    printf("foreign write+truncate: err=%u a2.used %zu\n", unsigned(e), a2.statistics().used_size());
    bad += (e == Error::kOk) || a2.statistics().used_size() != used;
    // own span still shrinks
    e = a2.shrink(s2, 64);
    printf("own shrink: err=%u size=%zu\n", unsigned(e), s2.size());
    bad += e != Error::kOk || s2.size() != 64;
  }
  {
    JitAllocator::CreateParams params; params.options = JitAllocatorOptions::kImmediateRelease;
    JitAllocator a(&params);
    JitAllocator::Span s; a.alloc(Out(s), 256);
    JitAllocator::Span stale = s;
    a.release(s.rx());
    Error e = a.shrink(stale, 64);       // valgrind-clean only with the fix
    printf("stale shrink: err=%u\n", unsigned(e));
    bad += e == Error::kOk;
  }
  printf("%s\n", bad ? "FAIL" : "PASS");
  return bad != 0;
}
