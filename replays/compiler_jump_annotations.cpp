// C16 replay: BaseCompiler keeps _jump_annotations (storage in the builder arena) across reinit/detach.
// g++ -std=c++17 -I/repo compiler_jump_annotations.cpp -o t -L/repo/_build -lasmjit -Wl,-rpath,/repo/_build && ./t
#include <asmjit/x86.h>
#include <cstdio>
using namespace asmjit;
int main() {
  CodeHolder code; code.init(Environment(Arch::kX64));
  x86::Compiler cc(&code);
  for (int i = 0; i < 100; i++) cc.new_jump_annotation();
  size_t before = cc.jump_annotations().size();
  code.reinit();
  size_t after_reinit = cc.jump_annotations().size();
  code.detach(&cc);
  size_t after_detach = cc.jump_annotations().size();
  printf("before=%zu after_reinit=%zu after_detach=%zu\n", before, after_reinit, after_detach);
  return (after_reinit == 0 && after_detach == 0) ? 0 : 1;
}
