// C02/C14 replay: A64 has no pre/post-indexed register-offset load/store. `ldr x0, [x1, x2]!` / `str q0, [x1], x2` / `prfm` with a
// register index and a write-back mode are accepted and encoded as the plain `[x1, x2]` form: the write-back is silently dropped.
// g++ -std=c++17 -I/repo a64_index_writeback.cpp -o t -L/repo/_build -lasmjit -Wl,-rpath,/repo/_build && ./t
#include <asmjit/a64.h>
#include <cstdio>
using namespace asmjit;
template<typename F> static bool refused(const char* what, F&& f) {
  CodeHolder code; code.init(Environment(Arch::kAArch64)); a64::Assembler a(&code);
  Error e = f(a);
  auto& b = code.text_section()->buffer();
  printf("%-28s err=%u size=%zu %s\n", what, unsigned(e), b.size(), (e != Error::kOk && b.size() == 0) ? "ok (refused)" : "WRONG (accepted)");
  return e != Error::kOk && b.size() == 0;
}
int main() {
  bool ok = true;
  a64::Mem pre = a64::ptr(a64::x1, a64::x2); pre.make_pre_index();
  a64::Mem post = a64::ptr(a64::x1, a64::x2); post.make_post_index();
  ok &= refused("ldr x0, [x1, x2]!", [&](a64::Assembler& a) { return a.ldr(a64::x0, pre); });
  ok &= refused("str x0, [x1], x2", [&](a64::Assembler& a) { return a.str(a64::x0, post); });
  ok &= refused("ldr q0, [x1, x2]!", [&](a64::Assembler& a) { return a.ldr(a64::q0, pre); });
  ok &= refused("prfm pldl1keep, [x1, x2]!", [&](a64::Assembler& a) { return a.prfm(Imm(0), pre); });
  {   // the plain form and the structure-load post-index form stay encodable
    CodeHolder code; code.init(Environment(Arch::kAArch64)); a64::Assembler a(&code);
    Error e1 = a.ldr(a64::x0, a64::ptr(a64::x1, a64::x2));
    Error e2 = a.ld1(a64::v0.b16(), a64::ptr_post(a64::x1, a64::x2));
    printf("plain / ld1 post: err=%u,%u\n", unsigned(e1), unsigned(e2));
    ok &= e1 == Error::kOk && e2 == Error::kOk;
  }
  printf("%s\n", ok ? "PASS" : "FAIL");
  return ok ? 0 : 1;
}
