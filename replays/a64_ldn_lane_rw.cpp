// C12 replay: a64 query_rw_info() reported the registers of ld2/ld3/ld4 single-structure (lane) forms as fully overwritten
// (write mask ~0, write-only) although only one lane of each register is replaced - a register allocator then treats the old value
// as dead.  ld1 {v0.b}[1] reports w=0x2.
// g++ -std=c++17 -I/repo a64_ldn_lane_rw.cpp -o t -L/repo/_build -lasmjit -Wl,-rpath,/repo/_build && ./t
#include <asmjit/a64.h>
#include <cstdio>
using namespace asmjit;
using namespace asmjit::a64;
int main() {
  int bad = 0;
  auto q = [&](const char* what, InstId id, std::initializer_list<Operand> ops, uint64_t expect_w0) {
    Operand o[6]; size_t n = 0; for (auto& x : ops) o[n++] = x;
    InstRWInfo rw;
    Error e = InstAPI::query_rw_info(Arch::kAArch64, BaseInst(id), o, n, &rw);
    printf("%-28s err=%u op0: flags=%#x r=%#llx w=%#llx  op1: w=%#llx\n", what, unsigned(e), unsigned(rw.operand(0).op_flags()),
           (unsigned long long)rw.operand(0).read_byte_mask(), (unsigned long long)rw.operand(0).write_byte_mask(), (unsigned long long)rw.operand(1).write_byte_mask());
    bad += e != Error::kOk || rw.operand(0).write_byte_mask() != expect_w0;
  };
  q("ld1 {v0.b}[1], [x0]", Inst::kIdLd1_v, {v0.b(1), ptr(x0)}, 0x2);
  q("ld2 {v0.b, v1.b}[1], [x0]", Inst::kIdLd2_v, {v0.b(1), v1.b(1), ptr(x0)}, 0x2);
  q("ld3 {v0.s-v2.s}[1], [x0]", Inst::kIdLd3_v, {v0.s(1), v1.s(1), v2.s(1), ptr(x0)}, 0xF0);
  q("ld2 {v0.b16, v1.b16}, [x0]", Inst::kIdLd2_v, {v0.b16(), v1.b16(), ptr(x0)}, ~0ull);
  printf("%s\n", bad ? "FAIL" : "PASS");
  return bad != 0;
}
