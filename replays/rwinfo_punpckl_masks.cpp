// C12 replay: query_rw_info() for `punpcklbw xmm0, xmm1` (category Punpcklxx, XMM form) calls set_write_byte_mask(0x0F0F) on the READ-ONLY
// source operand (a typo for the read mask) and gives the destination the read mask 0x0F0F: the instruction reads the LOW 8 BYTES of both
// operands (0x00FF), as the MMX form of the same category says for its half (0x0F of 8).
// g++ -std=c++17 -I/repo rwinfo_punpckl_masks.cpp -o t -L/repo/_build -lasmjit -Wl,-rpath,/repo/_build && ./t
#include <asmjit/x86.h>
#include <cstdio>
using namespace asmjit;
int main() {
  bool ok = true;
  for (InstId id : { x86::Inst::kIdPunpcklbw, x86::Inst::kIdPunpcklwd, x86::Inst::kIdPunpckldq }) {
    Operand ops[2] = { x86::xmm0, x86::xmm1 };
    InstRWInfo rw;
    Error e = InstAPI::query_rw_info(Arch::kX64, BaseInst(id), ops, 2, &rw);
    const OpRWInfo& d = rw.operand(0); const OpRWInfo& s = rw.operand(1);
    printf("id=%u err=%u dst: r=%04llX w=%04llX | src: read=%d write=%d r=%04llX w=%04llX\n", unsigned(id), unsigned(e),
           (unsigned long long)d.read_byte_mask(), (unsigned long long)d.write_byte_mask(), int(s.is_read()), int(s.is_write()),
           (unsigned long long)s.read_byte_mask(), (unsigned long long)s.write_byte_mask());
    ok &= e == Error::kOk && d.read_byte_mask() == 0x00FF && d.write_byte_mask() == 0xFFFF && s.is_read() && !s.is_write() &&
          s.read_byte_mask() == 0x00FF && s.write_byte_mask() == 0;
  }
  printf("%s\n", ok ? "PASS" : "FAIL: byte masks of punpckl* (xmm) do not describe the low halves / a write mask on a read-only operand");
  return ok ? 0 : 1;
}
