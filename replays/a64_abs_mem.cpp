// C02/C03 replay: a64 `ldr x0, [abs]` built with a64::ptr(uint64_t) (documented: "absolute address, which will be converted to
// relative") takes the label branch of EmitOp_Rel: base_id() - 0 for an absolute operand - is used as a label id, so the load targets
// label #0 + address (or fails with kInvalidLabel when no label exists).
// g++ -std=c++17 -I/repo a64_abs_mem.cpp -o t -L/repo/_build -lasmjit -Wl,-rpath,/repo/_build && ./t
#include <asmjit/a64.h>
#include <cstdio>
#include <cstring>
using namespace asmjit;
int main() {
  CodeHolder code; code.init(Environment(Arch::kAArch64), 0x10000);
  a64::Assembler a(&code);
  using namespace a64;
  Label L0 = a.new_label();
  a.nop(); a.nop(); a.bind(L0); a.nop();                       // label #0 bound at offset 8
  Error e = a.ldr(x0, ptr(uint64_t(0x11000)));                 // at offset 12: pc = 0x1000C, target 0x11000 -> imm19 = (0x11000 - 0x1000C) / 4
  uint32_t w = 0; if (e == Error::kOk) memcpy(&w, code.text_section()->data() + 12, 4);
  uint32_t want = 0x58000000u | ((((0x11000u - 0x1000Cu) >> 2) & 0x7FFFFu) << 5);
  printf("ldr x0, [0x11000] at 0x1000C: err=%u word=%08X expected=%08X\n", unsigned(e), w, want);
  bool ok = e == Error::kOk && w == want;
  puts(ok ? "PASS" : "FAIL"); return ok ? 0 : 1;
}
