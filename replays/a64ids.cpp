#include <asmjit/a64.h>
#include <cstdio>
using namespace asmjit;
static void dump(const char* what, CodeHolder& code, Error e) {
  CodeBuffer& b = code.text_section()->buffer();
  printf("%-40s err=%u bytes=%zu", what, unsigned(e), b.size());
  if (b.size() >= 4) { uint32_t w; memcpy(&w, b.data() + b.size() - 4, 4); printf(" last=%08x", w); }
  printf("\n");
}
#define RUN(NAME, STMT) do { CodeHolder code; code.init(Environment(Arch::kAArch64)); a64::Assembler a(&code); Error e = STMT; dump(NAME, code, e); } while(0)
int main() {
  a64::Gp badx = a64::Gp::make_r64(40);   // id 40: neither x0..x30 nor SP(31)/ZR(63)
  a64::Gp badw = a64::Gp::make_r32(40);
  RUN("mov x40, #1", a.mov(badx, 1));
  RUN("cmp x40, x1", a.cmp(badx, a64::x1));
  RUN("cmp x1, x40", a.cmp(a64::x1, badx));
  RUN("cmp x1, x40, uxtx", a.cmp(a64::x1, badx, a64::uxtx(0)));
  RUN("smax w0, w1, w40", a.smax(a64::w0, a64::w1, badw));
  RUN("smax w40, w1, 3", a.smax(badw, a64::w1, 3));
  RUN("crc32b w0, w1, w40", a.crc32b(a64::w0, a64::w1, badw));
  RUN("udiv x0, x1, x40", a.udiv(a64::x0, a64::x1, badx));
  RUN("ldaddal x0,x1,[x40]", a.ldaddal(a64::x0, a64::x1, a64::ptr(badx)));
  RUN("ldr x0,[x40, x1]", a.ldr(a64::x0, a64::ptr(badx, a64::x1)));
  RUN("ldr x0,[x1, x40] (index, checked)", a.ldr(a64::x0, a64::ptr(a64::x1, badx)));
  RUN("add x0, x1, x40 (checked)", a.add(a64::x0, a64::x1, badx));
  return 0;
}
