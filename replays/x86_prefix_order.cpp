// C01 replays: prefix order (REX must be the last prefix; FWAIT is an instruction, overrides belong after it),
// AH mistaken for AL in the moffs short form, 16-bit [bp] without displacement.
// g++ -std=c++17 -I/repo x86_prefix_order.cpp -o t -L/repo/_build -lasmjit -Wl,-rpath,/repo/_build && ./t
#include <asmjit/x86.h>
#include <cstdio>
#include <cstring>
#include <string>
using namespace asmjit;
static std::string hex(CodeHolder& c) { std::string s; char b[4]; auto* t = c.text_section(); for (size_t i = 0; i < t->buffer_size(); i++) { snprintf(b, 4, "%02X", t->data()[i]); s += b; } return s; }
static int expect(const char* what, Arch arch, Error (*fn)(x86::Assembler&), const char* want) {
  CodeHolder code; code.init(Environment(arch)); x86::Assembler a(&code);
  a.add_diagnostic_options(DiagnosticOptions::kValidateAssembler);
  Error e = fn(a);
  std::string got = e == Error::kOk ? hex(code) : std::string("error ") + std::to_string(unsigned(e));
  bool ok = got == want;
  printf("%-40s got %-14s want %-14s %s\n", what, got.c_str(), want, ok ? "ok" : "WRONG");
  return ok ? 0 : 1;
}
int main() {
  int f = 0;
  f |= expect("x64 lods rax, [esi]", Arch::kX64, [](x86::Assembler& a) { return a.lods(x86::rax, x86::ptr(x86::esi)); }, "6748AD");
  f |= expect("x64 stos [edi], rax", Arch::kX64, [](x86::Assembler& a) { return a.stos(x86::ptr(x86::edi), x86::rax); }, "6748AB");
  f |= expect("x64 lods rax, fs:[rsi]", Arch::kX64, [](x86::Assembler& a) { x86::Mem m = x86::ptr(x86::rsi); m.set_segment(x86::fs); return a.lods(x86::rax, m); }, "6448AD");
  f |= expect("x64 fstsw word [eax]", Arch::kX64, [](x86::Assembler& a) { return a.fstsw(x86::word_ptr(x86::eax)); }, "9B67DD38");
  f |= expect("x64 fstcw fs:[rax]", Arch::kX64, [](x86::Assembler& a) { x86::Mem m = x86::word_ptr(x86::rax); m.set_segment(x86::fs); return a.fstcw(m); }, "9B64D938");
  f |= expect("x86 mov ah, [0x1234]", Arch::kX86, [](x86::Assembler& a) { return a.mov(x86::ah, x86::ptr(0x1234)); }, "8A2534120000");
  f |= expect("x86 mov [0x1234], ah", Arch::kX86, [](x86::Assembler& a) { return a.mov(x86::ptr(0x1234), x86::ah); }, "882534120000");
  f |= expect("x86 mov ecx, [bp]", Arch::kX86, [](x86::Assembler& a) { return a.mov(x86::ecx, x86::ptr(x86::bp)); }, "678B4E00");
  puts(f ? "FAIL" : "PASS");
  return f;
}
