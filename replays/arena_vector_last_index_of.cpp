// C18 replay: ArenaVector<T>::last_index_of() forwarded to Span::index_of(): [1,2,1].last_index_of(1) == 0 (expected 2).
// g++ -std=c++17 -I/repo arena_vector_last_index_of.cpp -o t -L/repo/_build -lasmjit -Wl,-rpath,/repo/_build && ./t
#include <asmjit/core.h>
#include <cstdio>
using namespace asmjit;
int main() {
  int bad = 0;
  Arena arena(4096);
  {
    ArenaVector<int> v; (void)v.append(arena, 1); (void)v.append(arena, 2); (void)v.append(arena, 1);
    size_t i = v.last_index_of(1);
    printf("last_index_of(1) in [1,2,1] = %zu\n", i);
    bad += i != 2;
  }
  printf("%s\n", bad ? "FAIL" : "PASS");
  return bad != 0;
}
