#include <asmjit/a64.h>
#include <cstdio>
using namespace asmjit;
int main() {
  using namespace a64;
  struct T { const char* n; InstId id; Operand a, b, c; int cnt; } ts[] = {
    {"addv b0, x1", Inst::kIdAddv_v, b0, x1, Operand(), 2},
    {"abs x0, x1 (simd id)", Inst::kIdAbs_v, x0, x1, Operand(), 2},
    {"add_v x0, x1, x2", Inst::kIdAdd_v, x0, x1, x2, 3},
    {"and_v w0, w1, w2", Inst::kIdAnd_v, w0, w1, w2, 3},
    {"cnt x0, x1", Inst::kIdCnt_v, x0, x1, Operand(), 2},
    {"not x0, x1", Inst::kIdNot_v, x0, x1, Operand(), 2},
  };
  for (auto& t : ts) {
    CodeHolder code; code.init(Environment(Arch::kAArch64)); Assembler a(&code);
    a.add_diagnostic_options(DiagnosticOptions::kValidateAssembler);
    Operand ops[3] = { t.a, t.b, t.c };
    Error e = a.emit_op_array(t.id, ops, t.cnt);
    uint32_t w = (e == Error::kOk && code.text_section()->buffer_size() >= 4) ? ((uint32_t*)code.text_section()->data())[0] : 0;
    printf("%-24s err=%-3u word=%08x\n", t.n, unsigned(e), w);
  }
}
