// C02/C14 replay: a64 `tst` (register forms) never looks at the type of its second operand: `tst w0, x1` is encoded as `tst w0, w1`
// and a vector register is encoded as the general-purpose register of the same id.
// g++ -std=c++17 -I/repo a64_tst_types.cpp -o t -L/repo/_build -lasmjit -Wl,-rpath,/repo/_build && ./t
#include <asmjit/a64.h>
#include <cstdio>
using namespace asmjit;
int main() {
  CodeHolder code; code.init(Environment(Arch::kAArch64));
  a64::Assembler a(&code);
  using namespace a64;
  Error g0 = a.tst(w0, w1), g1 = a.tst(x0, x1, lsl(3));
  Error r0 = a.tst(w0, x1), r1 = a.tst(x0, w1), r2 = a.emit(Inst::kIdTst, x0, v1), r3 = a.tst(w0, x1, lsl(3));
  printf("valid: %u %u | tst w0,x1=%u tst x0,w1=%u tst x0,v1=%u tst w0,x1,lsl #3=%u (must be rejected)\n", unsigned(g0), unsigned(g1), unsigned(r0), unsigned(r1), unsigned(r2), unsigned(r3));
  bool ok = g0 == Error::kOk && g1 == Error::kOk && r0 != Error::kOk && r1 != Error::kOk && r2 != Error::kOk && r3 != Error::kOk;
  puts(ok ? "PASS" : "FAIL"); return ok ? 0 : 1;
}
