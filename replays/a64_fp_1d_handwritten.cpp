// C02/C14 replay: the hand-written a64 FP vector cases (fcadd, fcmla regular form, faddp/fmaxp.. three-operand pair forms, fmov vector
// immediate) range-test the register width (q) and the element size (sz) separately and never together: `.1D` is accepted and encoded
// with size:Q = D:0, a reserved combination.
// g++ -std=c++17 -I/repo a64_fp_1d_handwritten.cpp -o t -L/repo/_build -lasmjit -Wl,-rpath,/repo/_build && ./t
#include <asmjit/a64.h>
#include <cstdio>
using namespace asmjit;
int main() {
  CodeHolder code; code.init(Environment(Arch::kAArch64));
  a64::Assembler a(&code);
  using namespace a64;
  auto d1 = [](uint32_t id) { return Vec::make_v64_with_element_type(VecElementType::kD, id); };
  Error g0 = a.fcadd(v0.d2(), v1.d2(), v2.d2(), Imm(90)), g1 = a.fcmla(v0.s4(), v1.s4(), v2.s4(), Imm(0)), g2 = a.faddp(v0.d2(), v1.d2(), v2.d2()), g3 = a.fmov(v0.d2(), 1.0);
  Error r0 = a.fcadd(d1(0), d1(1), d1(2), Imm(90)), r1 = a.fcmla(d1(0), d1(1), d1(2), Imm(0)), r2 = a.faddp(d1(0), d1(1), d1(2)), r3 = a.fmov(d1(0), 1.0);
  printf("valid: %u %u %u %u | fcadd .1d=%u fcmla .1d=%u faddp .1d=%u fmov .1d,#1.0=%u (must be rejected)\n",
         unsigned(g0), unsigned(g1), unsigned(g2), unsigned(g3), unsigned(r0), unsigned(r1), unsigned(r2), unsigned(r3));
  bool ok = g0 == Error::kOk && g1 == Error::kOk && g2 == Error::kOk && g3 == Error::kOk && r0 != Error::kOk && r1 != Error::kOk && r2 != Error::kOk && r3 != Error::kOk;
  puts(ok ? "PASS" : "FAIL"); return ok ? 0 : 1;
}
