// C12 replay: AVX-512 gathers and scatters clear their {k} mask register while they complete; query_rw_info reports it read-only.
// g++ -std=c++17 -I/repo x86_gather_mask.cpp -o t -L/repo/_build -lasmjit -Wl,-rpath,/repo/_build && ./t
#include <asmjit/x86.h>
#include <cstdio>
using namespace asmjit;
static int probe(const char* what, InstId id, const Operand& o0, const Operand& o1, bool want_written) {
  BaseInst inst(id); inst.set_extra_reg(x86::k1);
  Operand ops[2] = { o0, o1 };
  InstRWInfo rw; Error e = InstAPI::query_rw_info(Arch::kX64, inst, ops, 2, &rw);
  printf("%-40s err=%u  {k1} read=%d written=%d (expected written=%d)\n", what, unsigned(e), int(rw.extra_reg().is_read()), int(rw.extra_reg().is_write()), int(want_written));
  return rw.extra_reg().is_write() == want_written ? 0 : 1;
}
int main() {
  int f = 0;
  x86::Mem vm = x86::ptr(x86::rax, x86::zmm1);
  f |= probe("vgatherdps zmm0{k1}, [rax+zmm1]", x86::Inst::kIdVgatherdps, x86::zmm0, vm, true);
  f |= probe("vpgatherdd zmm0{k1}, [rax+zmm1]", x86::Inst::kIdVpgatherdd, x86::zmm0, vm, true);
  f |= probe("vscatterdps [rax+zmm1]{k1}, zmm0", x86::Inst::kIdVscatterdps, vm, x86::zmm0, true);
  f |= probe("vaddps zmm0{k1}, zmm1 (control)", x86::Inst::kIdVmovaps, x86::zmm0, x86::zmm1, false);
  puts(f ? "FAIL" : "PASS"); return f;
}
