// C13/C14 replay: x86 string instructions take their memory operands through fixed registers (stos: es:[zdi], lods: ds:[zsi], movs:
// es:[zdi] <- ds:[zsi], ...). The validator computes the base register of a memory operand but compares it with the register the
// signature implies only for register operands: `stos [rbx], eax` passes strict validation and is encoded as plain AB (= stos [rdi]).
// g++ -std=c++17 -I/repo x86_string_implicit_base.cpp -o t -L/repo/_build -lasmjit -Wl,-rpath,/repo/_build && ./t
#include <asmjit/x86.h>
#include <cstdio>
using namespace asmjit;
int main() {
  CodeHolder code; code.init(Environment(Arch::kX64));
  x86::Assembler a(&code);
  a.add_diagnostic_options(DiagnosticOptions::kValidateAssembler);
  using namespace x86;
  Error g0 = a.stos(dword_ptr(rdi), eax), g1 = a.lods(eax, dword_ptr(rsi)), g2 = a.movs(dword_ptr(rdi), dword_ptr(rsi)), g3 = a.scas(eax, dword_ptr(rdi));
  Error r0 = a.stos(dword_ptr(rbx), eax), r1 = a.lods(eax, dword_ptr(rdi)), r2 = a.movs(dword_ptr(rsi), dword_ptr(rdi)), r3 = a.scas(eax, dword_ptr(rsi));
  printf("valid: %u %u %u %u | stos [rbx]=%u lods [rdi]=%u movs [rsi],[rdi]=%u scas [rsi]=%u (must be rejected)\n",
         unsigned(g0), unsigned(g1), unsigned(g2), unsigned(g3), unsigned(r0), unsigned(r1), unsigned(r2), unsigned(r3));
  bool ok = g0 == Error::kOk && g1 == Error::kOk && g2 == Error::kOk && g3 == Error::kOk && r0 != Error::kOk && r1 != Error::kOk && r2 != Error::kOk && r3 != Error::kOk;
  puts(ok ? "PASS" : "FAIL"); return ok ? 0 : 1;
}
