// C15 replay: an allocation failure right after CodeHolder::new_reloc_entry() leaves a half-built relocation entry
// behind (embed_label_delta: no Expression; embed_label: no fixup); relocating the holder later dereferences it.
// g++ -std=c++17 -I/repo reloc_residue_oom.cpp -o t -L/repo/_build -lasmjit -Wl,-rpath,/repo/_build && ./t
#include <asmjit/x86.h>
#include <cstdio>
#include <cstdlib>
#include <sys/wait.h>
#include <unistd.h>
using namespace asmjit;
static bool g_fail = false;
extern "C" void* __libc_malloc(size_t);
extern "C" void* __libc_realloc(void*, size_t);
extern "C" void* malloc(size_t n) { return g_fail ? nullptr : __libc_malloc(n); }
extern "C" void* realloc(void* p, size_t n) { return g_fail ? nullptr : __libc_realloc(p, n); }
static uint8_t g_static[8192];
static int child(int mode, size_t pad) {
  // A small static arena block: once it is used up every further arena block needs malloc, which fails.
  CodeHolder code(Span<uint8_t>(g_static, 1536 + pad * 8)); code.init(Environment(Arch::kX64));
  x86::Assembler a(&code);
  Section* data; code.new_section(Out(data), ".data", 5, SectionFlags::kNone, 8, 0);
  Label l1 = a.new_label(), l2 = a.new_label();
  a.db(0, 4096);                                        // buffer large enough: no realloc needed later
  g_fail = true;
  Error e = Error::kOk;
  for (int i = 0; i < 100000 && e == Error::kOk; i++) e = mode == 0 ? a.embed_label_delta(l1, l2, 8) : a.embed_label(l1, 8);
  g_fail = false;
  a.section(data); a.bind(l1); a.bind(l2);
  Error f = code.flatten();
  Error r = code.relocate_to_base(0x100000);           // walks every relocation entry
  return (e != Error::kOk && f == Error::kOk) ? int(r != Error::kOk) * 0 : 9;
}
int main() {
  int crashed = 0, runs = 0;
  for (int mode = 0; mode < 2; mode++)
    for (size_t pad = 0; pad < 160; pad++) {
      pid_t p = fork();
      if (p == 0) _exit(child(mode, pad));
      int st = 0; waitpid(p, &st, 0); runs++;
      if (WIFSIGNALED(st)) { crashed++; if (crashed <= 4) printf("mode=%d pad=%zu: killed by signal %d in relocate_to_base after a reported kOutOfMemory\n", mode, pad, WTERMSIG(st)); }
    }
  printf("%d of %d runs crashed\n%s\n", crashed, runs, crashed ? "FAIL" : "PASS");
  return crashed ? 1 : 0;
}
