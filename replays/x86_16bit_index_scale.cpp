// C01/C14 replay: 16-bit addressing (32-bit target, 67h prefix) has no scale. `mov ax, [bx + si*2 + 0x10]` is refused, but the
// index-only form `mov ax, [si*4 + 0x10]` is accepted and encoded as `mov ax, [si + 0x10]` - the scale is silently dropped.
// g++ -std=c++17 -I/repo x86_16bit_index_scale.cpp -o t -L/repo/_build -lasmjit -Wl,-rpath,/repo/_build && ./t
#include <asmjit/x86.h>
#include <cstdio>
using namespace asmjit;
int main() {
  bool ok = true;
  for (int shift = 0; shift <= 2; shift += 2) {
    CodeHolder code; code.init(Environment(Arch::kX86)); x86::Assembler a(&code);
    x86::Mem m = x86::ptr(0x10, x86::si, shift); m.set_size(2);
    Error e = a.mov(x86::ax, m);
    auto& b = code.text_section()->buffer();
    printf("mov ax, [si<<%d + 0x10] -> err=%u bytes=", shift, unsigned(e));
    for (size_t i = 0; i < b.size(); i++) printf("%02X ", b.data()[i]);
    bool good = shift == 0 ? (e == Error::kOk && b.size() == 5 && b.data()[3] == 0x44) : (e != Error::kOk && b.size() == 0);
    printf("%s\n", good ? "ok" : "WRONG");
    ok &= good;
  }
  printf("%s\n", ok ? "PASS" : "FAIL: scaled index accepted in 16-bit addressing and encoded without the scale");
  return ok ? 0 : 1;
}
