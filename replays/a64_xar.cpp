// C02 replay: XAR Vd.2D, Vn.2D, Vm.2D, #imm6 must encode as 0xCE800000 | Rm<<16 | imm6<<10 | Rn<<5 | Rd (ARM ARM C7.2.401).
// g++ -std=c++17 -I/repo a64_xar.cpp -o t -L/repo/_build -lasmjit -Wl,-rpath,/repo/_build && ./t
#include <asmjit/a64.h>
#include <cstdio>
using namespace asmjit;
using namespace asmjit::a64;
int main() {
  CodeHolder code; code.init(Environment(Arch::kAArch64)); Assembler a(&code);
  Error e = a.xar(v1.d2(), v2.d2(), v3.d2(), 8);
  uint32_t w = 0; if (code.text_section()->buffer_size() >= 4) memcpy(&w, code.text_section()->data(), 4);
  uint32_t want = 0xCE800000u | (3u << 16) | (8u << 10) | (2u << 5) | 1u;
  printf("xar v1.2d, v2.2d, v3.2d, #8: err=%u got=%08x want=%08x\n", unsigned(e), w, want);
  return (e == Error::kOk && w == want) ? 0 : 1;
}
