// C04/C10 replay: `.addrtab` is given its buffer size only when it is the LAST section by order. A section created
// with the same (maximum) order after it sorts behind it; then the table is written into the buffer but buffer_size()
// stays 0 and copy_flattened_data() copies nothing: `call [rip+table]` reads a zero slot.
// g++ -std=c++17 -I/repo addrtab_not_last.cpp -o t -L/repo/_build -lasmjit -Wl,-rpath,/repo/_build && ./t
#include <asmjit/x86.h>
#include <cstdio>
#include <cstring>
#include <vector>
#include <limits>
using namespace asmjit;
int main() {
  CodeHolder code; code.init(Environment(Arch::kX64));
  x86::Assembler a(&code);
  const uint64_t far_target = 0x7FFF12345678ull;
  a.call(Imm(far_target));                 // creates `.addrtab` (order INT32_MAX) and a kX64AddressEntry relocation
  a.ret();
  Section* tail = nullptr;
  code.new_section(Out(tail), ".tail", SIZE_MAX, SectionFlags::kNone, 8, std::numeric_limits<int32_t>::max());
  a.section(tail); a.embed_uint64(0x1122334455667788ull);
  Error ef = code.flatten();
  Error er = code.relocate_to_base(0x10000);
  Section* at = code.section_by_name(".addrtab");
  size_t total = code.code_size();
  std::vector<uint8_t> img(total, 0xCC);
  Error ec = code.copy_flattened_data(img.data(), img.size(), CopySectionFlags::kPadSectionBuffer);
  uint64_t slot = 0; if (at) memcpy(&slot, img.data() + at->offset(), 8);
  printf("flatten=%u relocate=%u copy=%u  addrtab: offset=%llu buffer_size=%zu virtual_size=%llu  slot in image=%#llx (expected %#llx)\n",
         unsigned(ef), unsigned(er), unsigned(ec), at ? (unsigned long long)at->offset() : 0ull, at ? at->buffer_size() : 0, at ? (unsigned long long)at->virtual_size() : 0ull,
         (unsigned long long)slot, (unsigned long long)far_target);
  bool ok = ef == Error::kOk && er == Error::kOk && ec == Error::kOk && slot == far_target;
  puts(ok ? "PASS" : "FAIL"); return ok ? 0 : 1;
}
