// C06 replay: RegUtils::signature_of_vec_by_size() computes ctz((size | 0x40) & 0x0F): for every size >= 16 the masked value is 0, so the
// register type of a full vector is garbage (xmm with the usual ctz(0) results). A ymm/zmm argument moved register-to-register by
// emit_args_assignment() is emitted as `vmovaps xmm5, xmm0` - the upper lanes of the argument are lost.
// g++ -std=c++17 -I/repo args_assignment_ymm_move.cpp -o t -L/repo/_build -lasmjit -Wl,-rpath,/repo/_build && ./t
#include <asmjit/x86.h>
#include <cstdio>
using namespace asmjit;
int main() {
  CodeHolder code; code.init(Environment(Arch::kX64));
  x86::Assembler a(&code);
  FuncSignature sig; sig.set_call_conv_id(CallConvId::kX64SystemV); sig.set_ret(TypeId::kVoid); sig.add_arg(TypeId::kFloat32x8);
  FuncDetail fd; if (fd.init(sig, code.environment()) != Error::kOk) return 2;
  FuncFrame frame; frame.init(fd); frame.set_avx_enabled();
  FuncArgsAssignment args(&fd);
  args.assign_all(x86::ymm5);
  if (args.update_func_frame(frame) != Error::kOk) return 2;
  frame.finalize();
  Error e = a.emit_args_assignment(frame, args);
  auto& b = code.text_section()->buffer();
  printf("err=%u bytes=", unsigned(e));
  for (size_t i = 0; i < b.size(); i++) printf("%02X ", b.data()[i]);
  // vmovaps ymm5, ymm0 = C5 FC 28 E8 (VEX.L = 1: bit 2 of the third prefix byte)
  bool ok = e == Error::kOk && b.size() == 4 && b.data()[0] == 0xC5 && (b.data()[1] & 0x04) && b.data()[2] == 0x28 && b.data()[3] == 0xE8;
  printf("\n%s\n", ok ? "PASS" : "FAIL: a 256-bit argument was moved with a 128-bit instruction");
  return ok ? 0 : 1;
}
