// C16/C10 replay: CodeHolder::new_section() copies the name into raw arena memory without clearing the rest of the name field:
// the section's name depends on what the memory held before, and section_by_name() stops finding it.
// g++ -std=c++17 -I/repo section_name.cpp -o t -L/repo/_build -lasmjit -Wl,-rpath,/repo/_build && ./t
#include <asmjit/core.h>
#include <cstdio>
#include <cstring>
using namespace asmjit;
int main() {
  CodeHolder code; code.init(Environment(Arch::kX64));
  // Fill arena memory with non-zero bytes through long section names, then recycle the holder.
  for (int i = 0; i < 20; i++) { char n[40]; memset(n, 'B', 35); n[35] = 0; n[0] = char('a' + i); Section* s; if (code.new_section(Out(s), n, SIZE_MAX, SectionFlags::kNone, 1, 0) != Error::kOk) break; }
  code.reinit();
  Section* s = nullptr;
  Error e = code.new_section(Out(s), "b", SIZE_MAX, SectionFlags::kNone, 1, 0);
  printf("new_section(\"b\") err=%u name=\"%.35s\" section_by_name(\"b\")=%p\n", unsigned(e), s ? s->name() : "?", (void*)code.section_by_name("b"));
  bool ok = e == Error::kOk && s && strcmp(s->name(), "b") == 0 && code.section_by_name("b") == s;
  puts(ok ? "PASS" : "FAIL"); return ok ? 0 : 1;
}
