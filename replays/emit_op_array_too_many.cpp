// C14 replay: BaseEmitter::_emit_op_array() with op_count > 6 returns kInvalidArgument without telling the error handler and without
// clearing the one-shot instruction state: a pending LOCK prefix / inline comment leaks into the next (valid) instruction.
// g++ -std=c++17 -I/repo emit_op_array_too_many.cpp -o t -L/repo/_build -lasmjit -Wl,-rpath,/repo/_build && ./t
#include <asmjit/x86.h>
#include <cstdio>
using namespace asmjit;
struct H : ErrorHandler { int n = 0; void handle_error(Error, const char*, BaseEmitter*) override { n++; } };
int main() {
  CodeHolder code; code.init(Environment(Arch::kX64)); H h; code.set_error_handler(&h);
  x86::Assembler a(&code);
  Operand ops[7] = { x86::eax, x86::ebx };
  a.add_inst_options(InstOptions::kX86_Lock); a.set_inline_comment("stale");
  Error e = a.emit_op_array(x86::Inst::kIdMov, ops, 7);
  bool leaked = a.inst_options() != InstOptions::kNone || a.inline_comment() != nullptr;
  a.add(x86::dword_ptr(x86::rax), x86::ebx);
  auto& b = code.text_section()->buffer();
  printf("err=%u handler_calls=%d leaked=%d bytes=", unsigned(e), h.n, int(leaked));
  for (size_t i = 0; i < b.size(); i++) printf("%02X ", b.data()[i]);
  bool ok = e != Error::kOk && h.n == 1 && !leaked && b.size() == 2 && b.data()[0] == 0x01;
  printf("\n%s\n", ok ? "PASS" : "FAIL: refused call not reported / one-shot state leaked into the next instruction");
  return ok ? 0 : 1;
}
