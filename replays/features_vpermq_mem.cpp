// C12 replay: query_features() decides `vpermq ymm0, [rax], 1` to be the EVEX form (special case `operands[1].is_mem()`), although
// the VEX/AVX2 encoding `vpermq ymm, ymm/m256, imm8` exists and is what the assembler emits (C4 E3 FD 00 00 01): AVX512_F + AVX512_VL
// are reported instead of AVX2. The sibling vpermpd with the same shape reports AVX2.
// g++ -std=c++17 -I/repo features_vpermq_mem.cpp -o t -L/repo/_build -lasmjit -Wl,-rpath,/repo/_build && ./t
#include <asmjit/x86.h>
#include <cstdio>
using namespace asmjit;
static bool check(InstId id, const char* name) {
  Operand ops[3] = { x86::ymm0, x86::ymmword_ptr(x86::rax), Imm(1) };
  CpuFeatures f; Error e = InstAPI::query_features(Arch::kX64, BaseInst(id), ops, 3, &f);
  CodeHolder code; code.init(Environment(Arch::kX64)); x86::Assembler a(&code);
  a.emit(id, ops[0], ops[1], ops[2]);
  const uint8_t* b = code.text_section()->buffer().data();
  bool vex = b[0] == 0xC4 || b[0] == 0xC5;
  bool avx2 = f.has(CpuFeatures::X86::kAVX2), avx512 = f.has(CpuFeatures::X86::kAVX512_F);
  printf("%s ymm0, [rax], 1: err=%u encoded with %s, features: AVX2=%d AVX512_F=%d\n", name, unsigned(e), vex ? "VEX" : "EVEX", int(avx2), int(avx512));
  return e == Error::kOk && vex == avx2 && vex != avx512;
}
int main() {
  bool ok = check(x86::Inst::kIdVpermpd, "vpermpd") & check(x86::Inst::kIdVpermq, "vpermq");
  printf("%s\n", ok ? "PASS" : "FAIL: reported features are not those of the emitted encoding");
  return ok ? 0 : 1;
}
