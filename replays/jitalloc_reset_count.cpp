// C09 replays: (1) allocation_count survives reset(); (2) double release / stale pointer is accepted;
// (3) is_initialized() reports false for a working allocator.
// g++ -std=c++17 -I/repo jitalloc_reset_count.cpp -o t -L/repo/_build -lasmjit -Wl,-rpath,/repo/_build && ./t
#include <asmjit/core.h>
#include <cstdio>
using namespace asmjit;
int main() {
  int fail = 0;
  JitAllocator a;
  printf("is_initialized=%d\n", int(a.is_initialized()));
  if (!a.is_initialized()) fail |= 4;
  JitAllocator::Span s1, s2, s3;
  a.alloc(Out(s1), 100); a.alloc(Out(s2), 100); a.alloc(Out(s3), 100);
  Error e1 = a.release(s2.rx());
  Error e2 = a.release(s2.rx());           // stale pointer: must be rejected
  printf("release=%u second release of the same pointer=%u allocation_count=%zu\n", unsigned(e1), unsigned(e2), a.statistics().allocation_count());
  if (e2 == Error::kOk) fail |= 2;
  a.reset(ResetPolicy::kSoft);
  printf("after reset allocation_count=%zu used=%zu\n", a.statistics().allocation_count(), a.statistics().used_size());
  if (a.statistics().allocation_count() != 0) fail |= 1;
  printf(fail ? "FAIL %d\n" : "PASS\n", fail);
  return fail;
}
