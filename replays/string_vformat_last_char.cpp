// C18/C20 replay: String::_op_vformat() formats in place with vsnprintf(data + start, remaining_capacity, ...) - a size that leaves no room
// for the terminator although the buffer has capacity + 1 bytes - and accepts `output_size <= remaining_capacity`. When the output is
// exactly as long as the remaining capacity the last character is replaced by NUL but still counted in size(): a log line loses its
// final '\n' and carries an embedded NUL.
// g++ -std=c++17 -I/repo string_vformat_last_char.cpp -o t -L/repo/_build -lasmjit -Wl,-rpath,/repo/_build && ./t
#include <asmjit/core.h>
#include <cstdio>
#include <cstring>
#include <string>
using namespace asmjit;
int main() {
  bool ok = true;
  for (size_t len = 100; len < 700; len++) {
    StringTmp<512> sb;
    std::string s(len, 'a'); s.back() = 'Z';
    Error e = sb.append_format("%s", s.c_str());
    bool good = e == Error::kOk && sb.size() == len && strlen(sb.data()) == len && sb.data()[len - 1] == 'Z';
    if (!good) { printf("len=%zu: err=%u size=%zu strlen=%zu last=%d\n", len, unsigned(e), sb.size(), strlen(sb.data()), sb.data()[len - 1]); ok = false; }
  }
  printf("%s\n", ok ? "PASS" : "FAIL: formatted text lost its last character");
  return ok ? 0 : 1;
}
