// C14/C01 replay: x86 `ljmp/lcall imm16, imm32` range-checks the two signed 64-bit immediates with `value() > MAX` only: negative
// values pass, and the sign extension of the offset overwrites the selector (`ljmp 0x10:-1` is encoded as `ljmp 0xFFFF:0xFFFFFFFF`).
// g++ -std=c++17 -I/repo x86_ljmp_negative_imm.cpp -o t -L/repo/_build -lasmjit -Wl,-rpath,/repo/_build && ./t
#include <asmjit/x86.h>
#include <cstdio>
#include <cstring>
using namespace asmjit;
static bool run(int64_t sel, int64_t off, const uint8_t* want /* 7 bytes or null = must be refused */) {
  CodeHolder code; code.init(Environment(Arch::kX86)); x86::Assembler a(&code);
  Error e = a.emit(x86::Inst::kIdLjmp, imm(sel), imm(off));
  auto& b = code.text_section()->buffer();
  printf("ljmp %lld:%lld -> err=%u bytes=", (long long)sel, (long long)off, unsigned(e));
  for (size_t i = 0; i < b.size(); i++) printf("%02X ", b.data()[i]);
  bool ok = want ? (e == Error::kOk && b.size() == 7 && !memcmp(b.data(), want, 7)) : (e != Error::kOk && b.size() == 0);
  printf(" %s\n", ok ? "ok" : "WRONG");
  return ok;
}
int main() {
  static const uint8_t w1[] = {0xEA, 0x00, 0x10, 0x00, 0x00, 0x10, 0x00};
  bool ok = run(0x10, 0x1000, w1);
  // a negative offset is either refused or encoded as its 32-bit two's complement with the selector intact
  {
    CodeHolder code; code.init(Environment(Arch::kX86)); x86::Assembler a(&code);
    Error e = a.emit(x86::Inst::kIdLjmp, imm(0x10), imm(-1));
    auto& b = code.text_section()->buffer();
    static const uint8_t w2[] = {0xEA, 0xFF, 0xFF, 0xFF, 0xFF, 0x10, 0x00};
    bool good = (e != Error::kOk && b.size() == 0) || (e == Error::kOk && b.size() == 7 && !memcmp(b.data(), w2, 7));
    printf("ljmp 0x10:-1 -> err=%u %s\n", unsigned(e), good ? "ok" : "WRONG (selector clobbered)");
    ok &= good;
  }
  ok &= run(-65537, 0x1000, nullptr);
  ok &= run(-1, 0x1000, nullptr);
  printf("%s\n", ok ? "PASS" : "FAIL");
  return ok ? 0 : 1;
}
