// BASELINE 4: BaseAssembler::embed_const_pool() binds the label before it makes room for the data. When growing the
// code buffer fails the call reports kOutOfMemory, but the label stays bound (to the place where the pool should have
// been) and repeating the call with memory available is refused with kLabelAlreadyBound.
#include "inject.h"
#include <asmjit/x86.h>
#include <stdio.h>

using namespace asmjit;

int main() {
  setvbuf(stdout, nullptr, _IONBF, 0);
  Environment env(Arch::kX64);
  CodeHolder code; code.init(env);
  x86::Assembler a(&code);

  Arena arena(1024);
  ConstPool pool(arena);
  size_t off;
  uint64_t v = 0x1122334455667788u;
  pool.add(&v, 8, Out(off));

  Label L = a.new_label();
  a.lea(x86::rax, x86::ptr(L));
  a.ret();

  Section* data = nullptr;
  code.new_section(Out(data), ".data", SIZE_MAX, SectionFlags::kNone, 8);
  a.section(data);                       // nothing emitted here yet -> the first emission allocates the buffer

  g_countdown = 0;                       // the next malloc() fails
  Error err = a.embed_const_pool(L, pool);
  g_countdown = -1;
  printf("embed_const_pool() with failing allocation: %s, label bound: %d\n", DebugUtils::error_as_string(err), int(code.is_label_bound(L)));
  if (err == Error::kOk) { printf("the failure was not injected where expected - void\n"); return 3; }

  err = a.embed_const_pool(L, pool);
  printf("repeated embed_const_pool(): %s, size of .data: %zu\n", DebugUtils::error_as_string(err), data->buffer_size());
  return err == Error::kOk && data->buffer_size() == 8 ? 0 : 1;
}
