// C15 replay: the register allocator links every VirtReg to its RAWorkReg (arena memory of the pass) when the work register is
// created, but the clean-up that runs "regardless of the allocation status" unlinks only the registers of `_work_regs`, which is
// filled by a later step.  When an earlier step fails (a jump to a label that is never bound, or out of memory, while the CFG is built) the VirtRegs keep pointers into the
// arena that is reset right after: the retry finds `_work_reg != nullptr` and uses freed memory.
// g++ -std=c++17 -I/repo rapass_stale_workreg.cpp -o t -L/repo/_build -lasmjit -Wl,-rpath,/repo/_build && ./t
#include <asmjit/x86.h>
#include <cstdio>
#include <cstdlib>
using namespace asmjit;
static long g_fail_after = -1;
extern "C" void* __libc_malloc(size_t);
extern "C" void* malloc(size_t n) { if (g_fail_after == 0) return nullptr; if (g_fail_after > 0) g_fail_after--; return __libc_malloc(n); }
int main() {
  int fail = 0, seen = 0;
  for (long k = 0; k < 2; k++) {
    CodeHolder code; code.init(Environment(Arch::kX64));
    x86::Compiler cc(&code);
    FuncNode* f = cc.add_func(FuncSignature::build<int, int, int>());
    x86::Gp a = cc.new_gp32("a"), b = cc.new_gp32("b"), c = cc.new_gp32("c");
    f->set_arg(0, a); f->set_arg(1, b);
    Label L = cc.new_label();
    for (int i = 0; i < 40; i++) { cc.mov(c, a); cc.add(c, b); cc.test(c, c); cc.jz(L); cc.imul(a, c); }
    cc.bind(L);
    if (k == 1) { Label never = cc.new_label(); cc.test(a, a); cc.jz(never); }   // a jump to a label that is never bound: the CFG builder fails
    cc.ret(a); cc.end_func();
    Error e = cc.finalize();
    g_fail_after = -1;
    if (e == Error::kOk) continue;
    seen++;
    unsigned stale = 0; printf("k=%ld err=%u (%s) virt regs=%zu\n", k, unsigned(e), DebugUtils::error_as_string(e), cc.virt_regs().size());
    for (VirtReg* v : cc.virt_regs()) if (v->work_reg() != nullptr) stale++;
    if (stale) { printf("k=%ld finalize err=%u: %u virtual registers still point to a work register of the finished pass\n", k, unsigned(e), stale); fail = 1; }
  }
  if (!seen) { puts("no failing finalize produced"); return 2; }
  printf("failing runs: %d\n", seen);
  puts(fail ? "FAIL" : "PASS"); return fail;
}
