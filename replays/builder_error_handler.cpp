// C14 replay: an invalid label / section handed to a Builder is reported through the return value but not through the
// attached error handler (the Assembler reports both ways).
// g++ -std=c++17 -I/repo builder_error_handler.cpp -o t -L/repo/_build -lasmjit -Wl,-rpath,/repo/_build && ./t
#include <asmjit/x86.h>
#include <cstdio>
using namespace asmjit;
struct Counter : ErrorHandler { int n = 0; void handle_error(Error, const char*, BaseEmitter*) override { n++; } };
int main() {
  int fail = 0;
  {
    CodeHolder code; code.init(Environment(Arch::kX64)); Counter h; code.set_error_handler(&h);
    x86::Assembler a(&code);
    Label bogus; bogus.set_id(12345);   // never created
    Error e = a.bind(bogus);
    printf("Assembler::bind(invalid)   err=%u handler calls=%d\n", unsigned(e), h.n);
    if (e == Error::kOk || h.n != 1) fail = 1;
  }
  {
    CodeHolder code; code.init(Environment(Arch::kX64)); Counter h; code.set_error_handler(&h);
    x86::Builder b(&code);
    Label bogus; bogus.set_id(12345);
    Error e = b.bind(bogus);
    printf("Builder::bind(invalid)     err=%u handler calls=%d\n", unsigned(e), h.n);
    if (e == Error::kOk || h.n != 1) fail = 1;
  }
  {
    CodeHolder code; code.init(Environment(Arch::kX64)); Counter h; code.set_error_handler(&h);
    CodeHolder other; other.init(Environment(Arch::kX64));
    Section* s = nullptr; other.new_section(Out(s), ".x", SIZE_MAX, SectionFlags::kNone, 1, 0);
    Section* s2 = nullptr; other.new_section(Out(s2), ".y", SIZE_MAX, SectionFlags::kNone, 1, 0);
    x86::Builder b(&code);
    Error e = b.section(s2);            // section id 2 does not exist in `code`
    printf("Builder::section(foreign)  err=%u handler calls=%d\n", unsigned(e), h.n);
    if (e == Error::kOk || h.n != 1) fail = 1;
  }
  puts(fail ? "FAIL" : "PASS"); return fail;
}
