// C02/C14 replay: a64 FP vector instructions: pick_fp_opcode() accepts every (Q, element) pair with element in H/S/D - also the
// 64-bit register with D elements (`.1D`), for which sz:Q = 1:0 is a reserved encoding of the vector FP classes.
// g++ -std=c++17 -I/repo a64_fp_1d.cpp -o t -L/repo/_build -lasmjit -Wl,-rpath,/repo/_build && ./t
#include <asmjit/a64.h>
#include <cstdio>
#include <cstring>
using namespace asmjit;
int main() {
  CodeHolder code; code.init(Environment(Arch::kAArch64));
  a64::Assembler a(&code);
  using namespace a64;
  Error g0 = a.fadd(v0.d2(), v1.d2(), v2.d2());
  Error g1 = a.fadd(v0.s2(), v1.s2(), v2.s2());
  Error g2 = a.fadd(d0, d1, d2);
  Error r0 = a.fadd(Vec::make_v64_with_element_type(VecElementType::kD, 0), Vec::make_v64_with_element_type(VecElementType::kD, 1), Vec::make_v64_with_element_type(VecElementType::kD, 2));
  Error r1 = a.fabs(Vec::make_v64_with_element_type(VecElementType::kD, 0), Vec::make_v64_with_element_type(VecElementType::kD, 1));
  Error r2 = a.fmla(Vec::make_v64_with_element_type(VecElementType::kD, 0), Vec::make_v64_with_element_type(VecElementType::kD, 1), Vec::make_v64_with_element_type(VecElementType::kD, 2));
  uint32_t w[6] = {0}; size_t n = code.text_section()->buffer_size(); memcpy(w, code.text_section()->data(), n < 24 ? n : 24);
  printf("valid: %u %u %u | fadd .1d=%u (%08x) fabs .1d=%u fmla .1d=%u (must be rejected: sz:Q = 1:0 is reserved)\n", unsigned(g0), unsigned(g1), unsigned(g2), unsigned(r0), w[3], unsigned(r1), unsigned(r2));
  bool ok = g0 == Error::kOk && g1 == Error::kOk && g2 == Error::kOk && r0 != Error::kOk && r1 != Error::kOk && r2 != Error::kOk;
  puts(ok ? "PASS" : "FAIL"); return ok ? 0 : 1;
}
